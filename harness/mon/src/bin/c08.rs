/*!
C08 — the background worker always makes progress; failures and panics never wedge it.

Three sections, all driving the real `emit_batcher` code:

1. **virtual time** (`vt`): `Receiver::exec(wait, on_batch)` is polled by hand. `wait(d)` records the
   requested duration and completes after one yield; `on_batch` is scripted per call with a seeded
   outcome (Ok | Err(no_retry) | Err(retry(remainder)) | panic synchronously | panic inside the
   returned future | Pending for k polls first). Between polls (and inside `on_batch`) the sender
   side sends items, registers (possibly panicking) flush / empty callbacks and finally drops the
   sender. The oracle reads the merged event log and checks bounded progress on *logical steps*.
2. **calling-context matrix** (`ctx`, native): the four blocking entry points from a plain thread,
   tokio multi-thread worker, `block_on` of a multi-thread runtime, current-thread runtime (and a
   few more) × channel states. A panic is a violation; not returning within 100·T + 10 s is a
   violation (deadlock); everything else about time is unconstrained.
4. **overstay** (`overstay`, native, wall clock with T = 1.2 s): a blocked `blocking_send` / async
   `send` is woken at 25 / 50 / 75 % of its timeout (or at all three), loses the freed slot to a
   competing watcher and nothing more is taken: it must give up at about its ORIGINAL deadline
   (later than T + max(T/2, 500 ms) in 3 of 3 repetitions is a violation).
3. **worker termination** (`join`, native): receivers started with `sync::spawn` / `tokio::spawn`
   finish (the `JoinHandle` joins) after the sender is dropped, having delivered what was queued
   and fired outstanding callbacks. Not joining within the watchdog is *inconclusive*.
5. **spawn context** (`spawnctx`, native, tokio): where `tokio::spawn` / `sync::spawn` is CALLED from (plain
   thread, multi-thread runtime: `block_on` / task / `spawn_blocking` / `LocalSet` / `EnterGuard`,
   current-thread runtime: `block_on` / task / `LocalSet` / `EnterGuard`) x what becomes of that runtime
   (dropped, `shutdown_background`, `shutdown_timeout`, kept but driven by nobody, kept busy) x what is
   done inside it first (nothing, awaited send + flush, a blocking flush / send from its - possibly only -
   thread while the worker idles). Afterwards a plain thread sends and flushes; the worker must be alive
   while the sender is, and end when it goes. See `mod spawnctx`.
*/

#[path = "../shared/chanvt.rs"]
mod chanvt;
#[cfg(not(miri))]
#[path = "../shared/chan_sampler.rs"]
mod chan_sampler;

use std::{
    collections::{BTreeMap, HashMap, HashSet},
    future::Future,
    pin::Pin,
    sync::{Arc, Mutex},
    task::{Context, Poll},
    time::Duration,
};

use chanvt::*;
use emit_batcher::{bounded, BatchError, Sender};
use vcommon::*;

type Chan = Vec<u64>;

// alarm thresholds (observed: 11 attempts, 10 s cap, 500 ms idle cap)
const ALARM_ATTEMPTS: usize = 32;
const ALARM_RETRY_WAIT: Duration = Duration::from_secs(60);
const ALARM_IDLE_WAIT: Duration = Duration::from_secs(2);
const ATTEMPTS_PER_BATCH_AFTER_DROP: u64 = 11;
const MAX_NEW_BATCHES_BEFORE_CALLBACK: usize = 2;
const EVENT_CAP: usize = 20_000;

#[derive(Debug)]
struct ScriptedError;

impl std::fmt::Display for ScriptedError {
    fn fmt(&self, f: &mut std::fmt::Formatter) -> std::fmt::Result {
        f.write_str("scripted failure")
    }
}

impl std::error::Error for ScriptedError {}

// ---------------------------------------------------------------------------
// scripts
// ---------------------------------------------------------------------------

#[derive(Clone, Copy, Debug, PartialEq, Eq, Hash)]
enum Rem {
    Empty,
    Full,
    DropFirst,
    LastOnly,
    Reversed,
    Mask(u64),
}

impl Rem {
    fn of(self, batch: &[u64]) -> Vec<u64> {
        match self {
            Rem::Empty => vec![],
            Rem::Full => batch.to_vec(),
            Rem::DropFirst => {
                if batch.len() > 1 {
                    batch[1..].to_vec()
                } else {
                    batch.to_vec()
                }
            }
            Rem::LastOnly => batch.last().map(|x| vec![*x]).unwrap_or_default(),
            Rem::Reversed => batch.iter().rev().copied().collect(),
            Rem::Mask(m) => batch
                .iter()
                .enumerate()
                .filter(|(i, _)| (m >> (i % 64)) & 1 == 1)
                .map(|(_, x)| *x)
                .collect(),
        }
    }

    fn name(self) -> String {
        match self {
            Rem::Mask(m) => format!("mask:{:x}", m),
            other => format!("{:?}", other).to_lowercase(),
        }
    }
}

#[derive(Clone, Copy, Debug, PartialEq, Eq, Hash)]
enum Out {
    Ok,
    NoRetry,
    Retry(Rem),
    PanicSync,
    PanicFuture,
}

impl Out {
    fn kind(self) -> u8 {
        match self {
            Out::Ok => 0,
            Out::NoRetry => 1,
            Out::Retry(Rem::Empty) => 2,
            Out::Retry(Rem::Full) => 3,
            Out::Retry(_) => 4,
            Out::PanicSync => 5,
            Out::PanicFuture => 6,
        }
    }

    fn name(self) -> String {
        match self {
            Out::Retry(r) => format!("retry({})", r.name()),
            other => format!("{:?}", other).to_lowercase(),
        }
    }

    fn is_failure(self) -> bool {
        self != Out::Ok
    }
}

#[derive(Clone, Copy, Debug, PartialEq, Eq, Hash)]
struct Step {
    out: Out,
    /// number of polls the returned future stays `Pending` before it resolves / panics
    pending: u8,
}

fn gen_rem(g: &mut Rng) -> Rem {
    match g.below(8) {
        0 => Rem::Empty,
        1 | 2 => Rem::Full,
        3 => Rem::DropFirst,
        4 => Rem::LastOnly,
        5 => Rem::Reversed,
        _ => Rem::Mask(g.next() | if g.bool() { 1 } else { 0 }),
    }
}

fn gen_step(g: &mut Rng, profile: u64) -> Step {
    // weights: ok, no_retry, retry, panic-sync, panic-future
    let w: [u64; 5] = match profile {
        0 => [12, 2, 3, 1, 1], // mostly fine
        1 => [2, 1, 14, 1, 1], // retry heavy: budgets get exhausted
        2 => [3, 1, 2, 6, 6],  // panic heavy
        3 => [1, 6, 6, 1, 1],  // failures
        _ => [3, 3, 3, 3, 3],  // uniform
    };
    let total: u64 = w.iter().sum();
    let mut x = g.below(total);
    let mut k = 0;
    while x >= w[k] {
        x -= w[k];
        k += 1;
    }
    let out = match k {
        0 => Out::Ok,
        1 => Out::NoRetry,
        2 => {
            if profile == 1 && g.chance(3, 4) {
                Out::Retry(if g.bool() { Rem::Full } else { Rem::DropFirst })
            } else {
                Out::Retry(gen_rem(g))
            }
        }
        3 => Out::PanicSync,
        _ => Out::PanicFuture,
    };
    let pending = if g.chance(1, 3) { g.range(1, 4) as u8 } else { 0 };
    Step { out, pending }
}

#[derive(Clone, Debug)]
struct Script {
    profile: u64,
    steps: Vec<Step>,
    tail: Step,
}

impl Script {
    fn gen(g: &mut Rng) -> Script {
        let profile = g.below(5);
        let n = match g.below(4) {
            0 => g.usize(4),
            1 => g.usize(12),
            _ => g.usize(40),
        };
        let steps = (0..n).map(|_| gen_step(g, profile)).collect();
        let tail_out = match g.below(8) {
            0 | 1 | 2 => Out::Ok,
            3 => Out::Retry(Rem::Full),
            4 => Out::Retry(Rem::DropFirst),
            5 => Out::NoRetry,
            6 => Out::PanicSync,
            _ => Out::PanicFuture,
        };
        Script {
            profile,
            steps,
            tail: Step {
                out: tail_out,
                pending: if g.chance(1, 4) { 1 } else { 0 },
            },
        }
    }

    fn step(&self, call: usize) -> Step {
        self.steps.get(call).copied().unwrap_or(self.tail)
    }
}

// ---------------------------------------------------------------------------
// event log
// ---------------------------------------------------------------------------

#[derive(Clone, Debug)]
enum Ev {
    Call { items: Vec<u64>, step: Step },
    Wait(Duration),
    Sent { ids: Vec<u64>, in_batch_fn: bool },
    Reg { id: u32, flush: bool, panics: bool, in_batch_fn: bool },
    Fired { id: u32 },
    /// the registering call returned (a `Fired` before this marker is an inline invocation)
    RegDone { id: u32 },
    /// the last sender was dropped; `from` says by whom: the driver between polls ("tick"), a
    /// callback invoked by the receiver, or a hook point inside the receiver's loop
    Drop { pending: usize, in_batch: bool, from: &'static str },
    Done,
}

#[derive(Default)]
struct Log {
    evs: Vec<Ev>,
    /// where the last scripted panic was thrown (to name an escaped panic)
    last_injected: Option<&'static str>,
}

type SharedLog = Arc<Mutex<Log>>;

fn push(log: &SharedLog, ev: Ev) {
    log.lock().unwrap().evs.push(ev);
}

fn injected(log: &SharedLog, what: &'static str) {
    log.lock().unwrap().last_injected = Some(what);
}

/// The future `on_batch` returns: `Pending` for `left` polls, then the scripted result.
struct Scripted {
    left: u8,
    result: Option<Result<(), BatchError<Chan>>>,
    panic: bool,
    log: SharedLog,
}

impl Future for Scripted {
    type Output = Result<(), BatchError<Chan>>;

    fn poll(mut self: Pin<&mut Self>, cx: &mut Context<'_>) -> Poll<Self::Output> {
        if self.left > 0 {
            self.left -= 1;
            cx.waker().wake_by_ref();
            return Poll::Pending;
        }
        if self.panic {
            injected(&self.log, "on_batch-future");
            panic!("scripted panic inside the on_batch future");
        }
        Poll::Ready(self.result.take().expect("polled after completion"))
    }
}

// ---------------------------------------------------------------------------
// the sender side of a case
// ---------------------------------------------------------------------------

type Slot = Arc<Mutex<Option<Sender<Chan>>>>;

/// Ids of the items sent by a "final action" (send + drop the last sender from inside the
/// receiver's window).
const FINAL_ITEM_BASE: u64 = 1_000_000;

/// Send `n` final items and drop the last sender. Runs inside the receiver's poll: in a callback
/// the receiver invokes, or at one of the hook points of its loop.
/// Re-entrant actions (a send from inside a callback / hook point of the receiver) that have
/// started and not returned yet: (case index, where, a handle to probe the channel's lock with).
/// If a vt chunk gets stuck, this tells a deadlock inside the channel from a slow machine.
static IN_FLIGHT: Mutex<Vec<(u64, &'static str, emit_batcher::ChannelMetrics<Chan>)>> = Mutex::new(Vec::new());

thread_local! {
    static CURRENT_CASE: std::cell::Cell<u64> = const { std::cell::Cell::new(0) };
}

fn final_action(log: &SharedLog, sender: Sender<Chan>, n: u64, from: &'static str) {
    let case = CURRENT_CASE.with(|c| c.get());
    IN_FLIGHT.lock().unwrap().push((case, from, sender.metric_source()));
    final_action_inner(log, sender, n, from);
    let mut inflight = IN_FLIGHT.lock().unwrap();
    if let Some(pos) = inflight.iter().position(|(c, f, _)| *c == case && *f == from) {
        inflight.swap_remove(pos);
    }
}

/// Called when a vt chunk did not come back: is a re-entrant action stuck on a channel whose
/// lock nobody else can take either?
fn diagnose_stuck_vt(r: &mut Report, seed: u64) {
    let stuck: Vec<_> = std::mem::take(&mut *IN_FLIGHT.lock().unwrap());
    for (case, from, probe) in stuck.into_iter().take(4) {
        let reachable = run_bounded("c08_probe", Duration::from_secs(5), move || {
            let _ = metrics(&probe);
        })
        .is_some();
        if !reachable {
            r.violation(
                &format!("C08:vt:reentry-deadlocks:{}", from),
                &format!(
                    "a send made from inside the receiver's window ({}) never returned, and the channel's state lock cannot be taken from another thread either: the receiver holds it while running caller-supplied code",
                    from
                ),
                json!({"section": "vt", "seed": seed, "case": case, "stuck_in": from}),
            );
        } else {
            r.inconclusive(format!("vt: case {} was still inside its final action ({}) when the chunk was given up, but the channel's lock is free", case, from));
        }
    }
}

fn final_action_inner(log: &SharedLog, sender: Sender<Chan>, n: u64, from: &'static str) {
    let ids: Vec<u64> = (0..n).map(|k| FINAL_ITEM_BASE + k).collect();
    if !ids.is_empty() {
        push(
            log,
            Ev::Sent {
                ids: ids.clone(),
                in_batch_fn: false,
            },
        );
    }
    for id in ids {
        sender.send(id);
    }
    let snap = sender.verif_snapshot();
    push(
        log,
        Ev::Drop {
            pending: snap.pending_len,
            in_batch: snap.is_in_batch,
            from,
        },
    );
    drop(sender);
}

#[derive(Clone, Copy, Debug, PartialEq, Eq)]
enum FinalPlan {
    None,
    /// every flush (true) / empty (false) callback from the k-th registered on carries the final
    /// action; the first one the *receiver* invokes performs it
    Callback { flush: bool, from_kth: u32, items: u64 },
    /// at the n-th occurrence of a receiver-side hook point
    Hook { point: emit_batcher::verif::Point, nth: u32, items: u64 },
}

fn point_name(p: emit_batcher::verif::Point) -> &'static str {
    use emit_batcher::verif::Point::*;
    match p {
        RecvSwapLock => "hook:RecvSwapLock",
        RecvTaken => "hook:RecvTaken",
        RecvBeforeBatch => "hook:RecvBeforeBatch",
        RecvAfterBatch => "hook:RecvAfterBatch",
        RecvBeforeRetryWait => "hook:RecvBeforeRetryWait",
        RecvBeforeNotifyFlush => "hook:RecvBeforeNotifyFlush",
        RecvBeforeIdleWait => "hook:RecvBeforeIdleWait",
        _ => "hook:sender-side",
    }
}

const RECV_POINTS: [emit_batcher::verif::Point; 6] = {
    use emit_batcher::verif::Point::*;
    [RecvSwapLock, RecvTaken, RecvBeforeBatch, RecvBeforeRetryWait, RecvBeforeNotifyFlush, RecvBeforeIdleWait]
};

struct HookPlan {
    point: emit_batcher::verif::Point,
    countdown: u32,
    items: u64,
    slot: Slot,
    log: SharedLog,
}

thread_local! {
    static HOOK_PLAN: std::cell::RefCell<Option<HookPlan>> = const { std::cell::RefCell::new(None) };
    static HOOK_BUSY: std::cell::Cell<bool> = const { std::cell::Cell::new(false) };
}

/// Installed with `emit_batcher::verif::set_hook`: process-global, but it only acts on the thread
/// whose vt case armed a plan.
fn vt_hook(p: emit_batcher::verif::Point) {
    if HOOK_BUSY.with(|b| b.get()) {
        return;
    }
    let fire = HOOK_PLAN.with(|hp| {
        let mut hp = hp.borrow_mut();
        match hp.as_mut() {
            Some(plan) if plan.point == p => {
                if plan.countdown == 0 {
                    hp.take()
                } else {
                    plan.countdown -= 1;
                    None
                }
            }
            _ => None,
        }
    });
    if let Some(plan) = fire {
        let sender = plan.slot.lock().unwrap().take();
        if let Some(sender) = sender {
            HOOK_BUSY.with(|b| b.set(true));
            final_action(&plan.log, sender, plan.items, point_name(plan.point));
            HOOK_BUSY.with(|b| b.set(false));
        }
    }
}

struct SenderSide {
    /// the last sender; taken out while the driver operates on it (so a callback invoked inline
    /// by a registering call finds nothing) and by whoever performs the final action
    slot: Slot,
    plan: FinalPlan,
    n_flush_cb: u32,
    n_empty_cb: u32,
    g: Rng,
    next_item: u64,
    next_cb: u32,
    ops_left: u32,
    drop_delay: u32,
    log: SharedLog,
    /// a panic escaped from an inline callback into the registering call (expected: the
    /// caller invoked it, so it is the caller's panic) – only counted
    inline_panics: u64,
}

impl SenderSide {
    fn callback(&mut self, flush: bool) -> (u32, bool, impl FnOnce() + Send + 'static) {
        let id = self.next_cb;
        self.next_cb += 1;
        let panics = self.g.chance(1, 4);
        let log = self.log.clone();
        let kth = if flush { &mut self.n_flush_cb } else { &mut self.n_empty_cb };
        let k = *kth;
        *kth += 1;
        let final_items = match self.plan {
            FinalPlan::Callback { flush: f, from_kth, items } if f == flush && k >= from_kth => Some(items),
            _ => None,
        };
        let slot = self.slot.clone();
        (id, panics, move || {
            push(&log, Ev::Fired { id });
            if let Some(items) = final_items {
                // only when the receiver invokes it: then the slot holds the sender
                let sender = slot.lock().unwrap().take();
                if let Some(sender) = sender {
                    final_action(&log, sender, items, if flush { "flush-callback" } else { "empty-callback" });
                }
            }
            if panics {
                injected(&log, if flush { "flush-callback" } else { "empty-callback" });
                panic!("scripted panic inside a callback");
            }
        })
    }

    /// Perform 0..=2 sender operations. Returns false once the sender is gone.
    fn act(&mut self, in_batch_fn: bool) -> bool {
        let sender = match self.slot.lock().unwrap().take() {
            Some(s) => s,
            None => return false,
        };
        let n_ops = match self.g.below(4) {
            0 | 1 => 0,
            2 => 1,
            _ => 2,
        };
        for _ in 0..n_ops {
            if self.ops_left == 0 {
                break;
            }
            self.ops_left -= 1;
            match self.g.below(8) {
                0..=4 => {
                    let n = 1 + self.g.below(4);
                    let ids: Vec<u64> = (0..n).map(|k| self.next_item + k).collect();
                    self.next_item += n;
                    push(
                        &self.log,
                        Ev::Sent {
                            ids: ids.clone(),
                            in_batch_fn,
                        },
                    );
                    let s = &sender;
                    for id in ids {
                        s.send(id);
                    }
                }
                5 | 6 => {
                    let (id, panics, f) = self.callback(true);
                    push(
                        &self.log,
                        Ev::Reg {
                            id,
                            flush: true,
                            panics,
                            in_batch_fn,
                        },
                    );
                    let s = &sender;
                    if catch(|| s.when_flushed(f)).is_err() {
                        self.inline_panics += 1;
                    }
                    push(&self.log, Ev::RegDone { id });
                }
                _ => {
                    let (id, panics, f) = self.callback(false);
                    push(
                        &self.log,
                        Ev::Reg {
                            id,
                            flush: false,
                            panics,
                            in_batch_fn,
                        },
                    );
                    let s = &sender;
                    if catch(|| s.when_empty(f)).is_err() {
                        self.inline_panics += 1;
                    }
                    push(&self.log, Ev::RegDone { id });
                }
            }
        }
        if self.ops_left == 0 && !in_batch_fn {
            if self.drop_delay == 0 {
                let s = sender;
                let snap = s.verif_snapshot();
                push(
                    &self.log,
                    Ev::Drop {
                        pending: snap.pending_len,
                        in_batch: snap.is_in_batch,
                        from: "tick",
                    },
                );
                drop(s);
                return false;
            }
            self.drop_delay -= 1;
        }
        *self.slot.lock().unwrap() = Some(sender);
        true
    }
}

// ---------------------------------------------------------------------------
// one virtual-time case
// ---------------------------------------------------------------------------

struct CaseRun {
    script: Script,
    evs: Vec<Ev>,
    polls: u64,
    escaped: Option<(String, &'static str)>,
    returned_early: bool,
    cap_hit: bool,
    inline_panics: u64,
}

fn run_vt(seed: u64, idx: u64, small: bool) -> CaseRun {
    let mut g = Rng::stream(seed, &[8, 1, idx]);
    let script = Script::gen(&mut g);
    let log: SharedLog = Arc::new(Mutex::new(Log::default()));
    let (sender, receiver) = bounded::<Chan>(1 << 20);

    let slot: Slot = Arc::new(Mutex::new(Some(sender)));
    // a third of the cases end with "send + drop the last sender" from inside the receiver's window
    let plan = match g.below(9) {
        0 => FinalPlan::Callback { flush: true, from_kth: g.below(3) as u32, items: g.below(4) },
        1 => FinalPlan::Callback { flush: false, from_kth: g.below(3) as u32, items: g.below(4) },
        2 => FinalPlan::Hook { point: *g.pick(&RECV_POINTS), nth: g.below(8) as u32, items: g.below(4) },
        _ => FinalPlan::None,
    };
    HOOK_PLAN.with(|hp| {
        *hp.borrow_mut() = match plan {
            FinalPlan::Hook { point, nth, items } => Some(HookPlan {
                point,
                countdown: nth,
                items,
                slot: slot.clone(),
                log: log.clone(),
            }),
            _ => None,
        }
    });
    let side = std::rc::Rc::new(std::cell::RefCell::new(SenderSide {
        slot: slot.clone(),
        plan,
        n_flush_cb: 0,
        n_empty_cb: 0,
        g: g.fork(),
        next_item: 1,
        next_cb: 1,
        ops_left: if small { 1 + g.below(6) as u32 } else { 1 + g.below(14) as u32 },
        drop_delay: g.below(6) as u32,
        log: log.clone(),
        inline_panics: 0,
    }));
    // pre-load: sometimes items (and callbacks) are already queued before the receiver starts
    if g.chance(1, 3) {
        side.borrow_mut().act(false);
    }

    let calls = std::cell::Cell::new(0usize);
    let wait = {
        let log = log.clone();
        move |d: Duration| {
            push(&log, Ev::Wait(d));
            YieldOnce::new()
        }
    };
    let on_batch = {
        let log = log.clone();
        let side = side.clone();
        let script = script.clone();
        let calls = &calls;
        move |batch: Chan| {
            let call = calls.get();
            calls.set(call + 1);
            let step = script.step(call);
            push(
                &log,
                Ev::Call {
                    items: batch.clone(),
                    step,
                },
            );
            // the sender side is active while the processor runs
            side.borrow_mut().act(true);
            let result = match step.out {
                Out::Ok => Ok(()),
                Out::NoRetry => Err(BatchError::no_retry(ScriptedError)),
                Out::Retry(rem) => Err(BatchError::retry(ScriptedError, rem.of(&batch))),
                Out::PanicSync => {
                    injected(&log, "on_batch-sync");
                    panic!("scripted synchronous panic in on_batch");
                }
                Out::PanicFuture => Ok(()),
            };
            Scripted {
                left: step.pending,
                result: Some(result),
                panic: step.out == Out::PanicFuture,
                log: log.clone(),
            }
        }
    };

    let mut fut = Box::pin(receiver.exec(wait, on_batch));
    let mut run = CaseRun {
        script: script.clone(),
        evs: vec![],
        polls: 0,
        escaped: None,
        returned_early: false,
        cap_hit: false,
        inline_panics: 0,
    };
    loop {
        run.polls += 1;
        match catch(|| poll_once(fut.as_mut())) {
            Err(msg) => {
                let what = log.lock().unwrap().last_injected.unwrap_or("unscripted");
                run.escaped = Some((msg, what));
                break;
            }
            Ok(Poll::Ready(())) => {
                if slot.lock().unwrap().is_some() {
                    run.returned_early = true;
                }
                push(&log, Ev::Done);
                break;
            }
            Ok(Poll::Pending) => {}
        }
        if log.lock().unwrap().evs.len() > EVENT_CAP || attempts_alarm(&log) {
            run.cap_hit = true;
            break;
        }
        side.borrow_mut().act(false);
    }
    HOOK_PLAN.with(|hp| *hp.borrow_mut() = None);
    // a future whose poll panicked must not be polled again; dropping it is fine
    let _ = catch(move || drop(fut));
    run.inline_panics = side.borrow().inline_panics;
    // keep the sender (if any) alive until here so "returned early" is meaningful
    drop(side);
    drop(slot);
    run.evs = std::mem::take(&mut log.lock().unwrap().evs);
    run
}

/// Cheap live check so that an unbounded retry loop stops the case early: are the last
/// ALARM_ATTEMPTS + 1 calls all retries of one batch?
fn attempts_alarm(log: &SharedLog) -> bool {
    let log = log.lock().unwrap();
    let mut n = 0usize;
    let mut later: Option<&Vec<u64>> = None;
    for ev in log.evs.iter().rev().take(400) {
        if let Ev::Call { items, .. } = ev {
            if let Some(l) = later {
                // `l` was a retry of `items` iff it only has items of `items`
                if !l.iter().all(|x| items.contains(x)) {
                    return false;
                }
            }
            later = Some(items);
            n += 1;
            if n > ALARM_ATTEMPTS + 1 {
                return true;
            }
        }
    }
    false
}

#[derive(Default, Debug)]
struct BatchRec {
    attempts: Vec<(usize, Out, bool)>, // (len, outcome, remainder non-empty)
    retry_waits: Vec<Duration>,
    closed: bool, // a later event shows the receiver moved on from this batch
}

fn ms(d: &Duration) -> f64 {
    d.as_secs_f64() * 1000.0
}

fn evs_json(evs: &[Ev]) -> Json {
    let mut out = Vec::new();
    for ev in evs.iter().take(400) {
        out.push(match ev {
            Ev::Call { items, step } => json!({"on_batch": items, "outcome": step.out.name(), "pending_polls": step.pending}),
            Ev::Wait(d) => json!({"wait_ms": ms(d)}),
            Ev::Sent { ids, in_batch_fn } => json!({"send": ids, "inside_on_batch": in_batch_fn}),
            Ev::Reg { id, flush, in_batch_fn, panics } => {
                json!({"register": if *flush {"when_flushed"} else {"when_empty"}, "id": id, "inside_on_batch": in_batch_fn, "panics": panics})
            }
            Ev::Fired { id } => json!({"fired": id}),
            Ev::RegDone { id } => json!({"registered": id}),
            Ev::Drop { pending, in_batch, from } => json!({"drop_sender": {"pending": pending, "in_batch": in_batch, "from": from}}),
            Ev::Done => json!("exec-completed"),
        });
    }
    Json::from(out)
}

fn check_vt(r: &mut Report, seed: u64, idx: u64, run: &CaseRun) {
    r.eval();
    let case = || {
        json!({
            "section": "vt", "seed": seed, "case": idx,
            "script": {
                "profile": run.script.profile,
                "steps": run.script.steps.iter().map(|s| format!("{}+{}", s.out.name(), s.pending)).collect::<Vec<_>>(),
                "tail": format!("{}+{}", run.script.tail.out.name(), run.script.tail.pending),
            },
            "events": evs_json(&run.evs),
        })
    };
    r.observe("vt:polls", run.polls);
    r.observe("vt:inline-callback-panics-propagated-to-caller", run.inline_panics);

    if let Some((msg, what)) = &run.escaped {
        r.violation(
            &format!("C08:vt:panic-escaped:{}", what),
            &format!("a panic escaped from Receiver::exec (last scripted panic: {}): {}", what, msg),
            case(),
        );
    }
    if run.returned_early {
        r.violation(
            "C08:vt:exec-returned:sender-alive",
            "Receiver::exec completed although the sender had not been dropped",
            case(),
        );
    }

    // ---- pass over the log ----
    let mut seen: HashSet<u64> = HashSet::new();
    let mut sent: Vec<u64> = Vec::new();
    let mut batches: Vec<BatchRec> = Vec::new();
    let mut idle_runs: Vec<Vec<Duration>> = Vec::new();
    let mut pending_waits: Vec<Duration> = Vec::new();
    let mut first_attempts_so_far = 0usize;
    // callback id -> (flush, first-attempt count at registration, fired count, inline, first attempts at fire)
    struct Cb {
        flush: bool,
        reg_at: usize,
        fired: u32,
        inline: bool,
        fire_at: usize,
        reg_done: bool,
    }
    let mut cbs: BTreeMap<u32, Cb> = BTreeMap::new();
    let mut dropped: Option<(usize, bool)> = None;
    let mut dropped_from: &'static str = "tick";
    let mut calls_after_drop = 0u64;
    let mut pending_at_drop: Vec<u64> = Vec::new();
    let mut unattempted: HashSet<u64> = HashSet::new();
    let mut done = false;
    let mut sig_calls: Vec<(u8, bool, bool)> = Vec::new();
    let mut any_failure = false;

    for ev in &run.evs {
        match ev {
            Ev::Call { items, step } => {
                let is_retry = !batches.is_empty() && items.iter().all(|x| seen.contains(x));
                let waits = std::mem::take(&mut pending_waits);
                if is_retry {
                    let b = batches.last_mut().unwrap();
                    for w in &waits {
                        r.observe(&format!("vt:retry-wait-ms:{}", ms(w)), 1);
                    }
                    b.retry_waits.extend(waits);
                } else {
                    if let Some(b) = batches.last_mut() {
                        b.closed = true;
                    }
                    if !waits.is_empty() || batches.is_empty() {
                        idle_runs.push(waits);
                    }
                    batches.push(BatchRec::default());
                    first_attempts_so_far += 1;
                }
                for x in items {
                    seen.insert(*x);
                    unattempted.remove(x);
                }
                let rem_nonempty = match step.out {
                    Out::Retry(rem) => !rem.of(items).is_empty(),
                    _ => false,
                };
                batches.last_mut().unwrap().attempts.push((items.len(), step.out, rem_nonempty));
                if dropped.is_some() {
                    calls_after_drop += 1;
                }
                any_failure |= step.out.is_failure();
                sig_calls.push((step.out.kind(), step.pending > 0, !is_retry));
                r.observe("vt:on_batch-calls", 1);
                r.observe(&format!("vt:outcome:{}", match step.out {
                    Out::Retry(Rem::Empty) => "retry-empty-remainder".to_string(),
                    Out::Retry(Rem::Full) => "retry-full-remainder".to_string(),
                    Out::Retry(_) => "retry-partial-remainder".to_string(),
                    o => o.name(),
                }), 1);
                if step.pending > 0 {
                    r.observe("vt:outcome:pending-first", 1);
                }
            }
            Ev::Wait(d) => pending_waits.push(*d),
            Ev::Sent { ids, .. } => {
                sent.extend(ids);
                unattempted.extend(ids.iter().copied());
                r.observe("vt:items-sent", ids.len() as u64);
            }
            Ev::Reg { id, flush, .. } => {
                cbs.insert(
                    *id,
                    Cb {
                        flush: *flush,
                        reg_at: first_attempts_so_far,
                        fired: 0,
                        inline: false,
                        fire_at: 0,
                        reg_done: false,
                    },
                );
                r.observe(if *flush { "vt:when_flushed-registered" } else { "vt:when_empty-registered" }, 1);
            }
            Ev::RegDone { id } => {
                if let Some(cb) = cbs.get_mut(id) {
                    cb.reg_done = true;
                }
            }
            Ev::Fired { id } => {
                if let Some(cb) = cbs.get_mut(id) {
                    cb.fired += 1;
                    if cb.fired == 1 {
                        cb.inline = !cb.reg_done;
                        cb.fire_at = first_attempts_so_far;
                        r.observe(if cb.inline { "vt:callbacks-fired-inline" } else { "vt:callbacks-fired-by-receiver" }, 1);
                    }
                }
            }
            Ev::Drop { pending, in_batch, from } => {
                dropped = Some((*pending, *in_batch));
                dropped_from = *from;
                r.observe(&format!("vt:sender-dropped-from:{}", from), 1);
                pending_at_drop = unattempted.iter().copied().collect();
                r.observe("vt:sender-drops", 1);
                if *in_batch {
                    r.observe("vt:sender-drops:mid-batch", 1);
                }
                if *pending > 0 {
                    r.observe("vt:sender-drops:with-items-queued", 1);
                }
            }
            Ev::Done => {
                done = true;
                if let Some(b) = batches.last_mut() {
                    b.closed = true;
                }
                let waits = std::mem::take(&mut pending_waits);
                if !waits.is_empty() {
                    idle_runs.push(waits);
                }
                r.observe("vt:exec-completed", 1);
            }
        }
    }
    // waits after the last call of a run that was cut short cannot be classified: leave them out
    pending_waits.clear();
    r.observe("vt:batches", batches.len() as u64);

    // ---- per batch: attempts, back-off ----
    let mut granted: HashMap<usize, usize> = HashMap::new(); // attempt number -> batch index
    let mut denied: HashMap<usize, usize> = HashMap::new();
    let mut first_retry_wait: Option<Duration> = None;
    for (bi, b) in batches.iter().enumerate() {
        if b.attempts.len() > ALARM_ATTEMPTS {
            r.violation(
                "C08:vt:attempts:over-alarm",
                &format!("batch #{} was attempted {} times (alarm threshold {})", bi, b.attempts.len(), ALARM_ATTEMPTS),
                case(),
            );
        }
        if b.attempts.len() > 1 {
            r.observe("vt:batches-retried", 1);
        }
        for (j, (_, out, rem_nonempty)) in b.attempts.iter().enumerate() {
            if matches!(out, Out::Retry(_)) && *rem_nonempty {
                if j + 1 < b.attempts.len() {
                    granted.entry(j + 1).or_insert(bi);
                } else if b.closed {
                    denied.entry(j + 1).or_insert(bi);
                    r.observe("vt:batches-given-up-after-budget", 1);
                }
            }
        }
        let mut prev: Option<Duration> = None;
        for w in &b.retry_waits {
            r.observe("vt:retry-waits", 1);
            if *w > ALARM_RETRY_WAIT {
                r.violation(
                    "C08:vt:retry-wait:over-alarm",
                    &format!("retry wait of {:?} in batch #{} exceeds the alarm threshold {:?}", w, bi, ALARM_RETRY_WAIT),
                    case(),
                );
            }
            if let Some(p) = prev {
                if *w < p {
                    r.violation(
                        "C08:vt:retry-wait:decreasing",
                        &format!("retry waits of batch #{} decrease: {:?} after {:?}", bi, w, p),
                        case(),
                    );
                }
            }
            prev = Some(*w);
        }
        if let Some(w0) = b.retry_waits.first() {
            match first_retry_wait {
                None => first_retry_wait = Some(*w0),
                Some(f) if f != *w0 => r.violation(
                    "C08:vt:retry-wait:not-restarted",
                    &format!(
                        "back-off did not restart: first retry wait of batch #{} is {:?}, an earlier batch started at {:?}",
                        bi, w0, f
                    ),
                    case(),
                ),
                _ => {}
            }
        }
    }
    for (j, bi_denied) in &denied {
        if let Some(bi_granted) = granted.get(j) {
            r.violation(
                "C08:vt:retry-budget:not-per-batch",
                &format!(
                    "after its failed attempt {} batch #{} was given up although its remainder was retryable, while batch #{} was retried after attempt {}: the budget depends on earlier batches",
                    j, bi_denied, bi_granted, j
                ),
                case(),
            );
            break;
        }
    }

    // ---- idle waits ----
    let mut first_idle: Option<Duration> = None;
    for run_ in &idle_runs {
        for w in run_ {
            r.observe("vt:idle-waits", 1);
            r.observe(&format!("vt:idle-wait-ms:{}", ms(w)), 1);
            if *w > ALARM_IDLE_WAIT {
                r.violation(
                    "C08:vt:idle-wait:over-alarm",
                    &format!("idle wait of {:?} exceeds the alarm threshold {:?}", w, ALARM_IDLE_WAIT),
                    case(),
                );
            }
        }
        if let Some(w0) = run_.first() {
            match first_idle {
                None => first_idle = Some(*w0),
                Some(f) if f != *w0 => r.violation(
                    "C08:vt:idle-wait:not-restarted",
                    &format!("idle back-off did not restart after a batch: {:?} where an earlier idle period started at {:?}", w0, f),
                    case(),
                ),
                _ => {}
            }
        }
    }

    // ---- callbacks ----
    for (id, cb) in &cbs {
        let kind = if cb.flush { "flush" } else { "empty" };
        if cb.fired > 1 {
            r.violation(
                &format!("C08:vt:callback:{}:fired-more-than-once", kind),
                &format!("{} callback {} fired {} times", kind, id, cb.fired),
                case(),
            );
        }
        if cb.fired == 0 && done {
            r.violation(
                &format!("C08:vt:callback:{}:never-fired", kind),
                &format!("{} callback {} had not fired when Receiver::exec completed", kind, id),
                case(),
            );
        }
        if cb.fired >= 1 && cb.fire_at - cb.reg_at > MAX_NEW_BATCHES_BEFORE_CALLBACK {
            r.violation(
                &format!("C08:vt:callback:{}:late", kind),
                &format!(
                    "{} callback {} fired only after {} new batches had been started since its registration",
                    kind, id, cb.fire_at - cb.reg_at
                ),
                case(),
            );
        }
        if cb.fired == 0 && first_attempts_so_far - cb.reg_at > MAX_NEW_BATCHES_BEFORE_CALLBACK {
            r.violation(
                &format!("C08:vt:callback:{}:late", kind),
                &format!(
                    "{} callback {} still had not fired after {} new batches had been started since its registration",
                    kind, id, first_attempts_so_far - cb.reg_at
                ),
                case(),
            );
        }
    }

    // ---- after the sender is dropped ----
    if let Some((pending, in_batch)) = dropped {
        let outstanding = (pending > 0) as u64 + in_batch as u64;
        let bound = outstanding * ATTEMPTS_PER_BATCH_AFTER_DROP + 2;
        let idle_after = idle_waits_after_drop(&run.evs);
        if calls_after_drop + idle_after > bound {
            r.violation(
                &drop_sig("C08:vt:drop:too-many-iterations", dropped_from),
                &format!(
                    "after the sender was dropped ({} outstanding batches) the receiver made {} attempts and {} idle waits (bound {})",
                    outstanding, calls_after_drop, idle_after, bound
                ),
                case(),
            );
        }
        if !done && run.escaped.is_none() {
            r.violation(
                &drop_sig("C08:vt:drop:exec-did-not-complete", dropped_from),
                "Receiver::exec had not completed when the case was stopped after the sender was dropped",
                case(),
            );
        }
        if done {
            let lost: Vec<u64> = pending_at_drop.iter().copied().filter(|x| !seen.contains(x)).collect();
            if !lost.is_empty() {
                r.violation(
                    &drop_sig("C08:vt:drop:queued-items-not-delivered", dropped_from),
                    &format!("items {:?} were queued when the sender was dropped but never reached on_batch", lost),
                    case(),
                );
            }
            let other: Vec<u64> = sent.iter().copied().filter(|x| !seen.contains(x) && !pending_at_drop.contains(x)).collect();
            if !other.is_empty() {
                r.violation(
                    "C08:vt:progress:items-never-attempted",
                    &format!("items {:?} never reached on_batch although exec completed", other),
                    case(),
                );
            }
        }
    } else if run.cap_hit && run.escaped.is_none() {
        r.violation(
            "C08:vt:progress:event-cap",
            "the case was stopped by the event cap before the sender side finished",
            case(),
        );
    }

    if any_failure {
        r.nontrivial(&sig_calls);
    }
    if r.samples.len() < 3 && any_failure && batches.len() >= 2 && idx % 97 == 3 {
        r.sample(case);
    }
}

fn drop_sig(base: &str, from: &'static str) -> String {
    if from == "tick" {
        base.to_string()
    } else {
        format!("{}:dropped-in-{}", base, from)
    }
}

fn idle_waits_after_drop(evs: &[Ev]) -> u64 {
    // waits after the drop that are not followed by a retry call of the same batch
    let pos = match evs.iter().position(|e| matches!(e, Ev::Drop { .. })) {
        Some(p) => p,
        None => return 0,
    };
    let mut seen: HashSet<u64> = HashSet::new();
    for ev in &evs[..pos] {
        if let Ev::Call { items, .. } = ev {
            seen.extend(items.iter().copied());
        }
    }
    let mut idle = 0u64;
    let mut buffered = 0u64;
    let mut had_call = evs[..pos].iter().any(|e| matches!(e, Ev::Call { .. }));
    for ev in &evs[pos..] {
        match ev {
            Ev::Wait(_) => buffered += 1,
            Ev::Call { items, .. } => {
                let is_retry = had_call && items.iter().all(|x| seen.contains(x));
                if !is_retry {
                    idle += buffered;
                }
                buffered = 0;
                had_call = true;
                seen.extend(items.iter().copied());
            }
            _ => {}
        }
    }
    idle + buffered
}

fn vt_case(r: &mut Report, seed: u64, idx: u64) {
    CURRENT_CASE.with(|c| c.set(idx));
    let run = run_vt(seed, idx, cfg!(miri));
    check_vt(r, seed, idx, &run);
}

// ---------------------------------------------------------------------------
// 2. calling-context matrix, 3. worker termination (native threads)
// ---------------------------------------------------------------------------

#[cfg_attr(miri, allow(dead_code))]
mod threads {
    use super::*;
    use std::{
        panic::{catch_unwind, AssertUnwindSafe},
        sync::atomic::{AtomicU64, Ordering},
        thread,
        time::Instant,
    };

    #[derive(Clone, Copy, Debug, PartialEq, Eq, Hash)]
    pub enum Entry {
        SyncFlush,
        SyncSend,
        #[cfg(feature = "tokio")]
        TokioFlush,
        #[cfg(feature = "tokio")]
        TokioSend,
        #[cfg(feature = "tokio")]
        TokioAsyncFlush,
        #[cfg(feature = "tokio")]
        TokioAsyncSend,
    }

    impl Entry {
        pub fn all() -> Vec<Entry> {
            #[allow(unused_mut)]
            let mut v = vec![Entry::SyncFlush, Entry::SyncSend];
            #[cfg(feature = "tokio")]
            v.extend([Entry::TokioFlush, Entry::TokioSend]);
            v
        }

        pub fn name(self) -> &'static str {
            match self {
                Entry::SyncFlush => "sync::blocking_flush",
                Entry::SyncSend => "sync::blocking_send",
                #[cfg(feature = "tokio")]
                Entry::TokioFlush => "tokio::blocking_flush",
                #[cfg(feature = "tokio")]
                Entry::TokioSend => "tokio::blocking_send",
                #[cfg(feature = "tokio")]
                Entry::TokioAsyncFlush => "tokio::flush",
                #[cfg(feature = "tokio")]
                Entry::TokioAsyncSend => "tokio::send",
            }
        }

        /// The async variants (only exercised in the extreme-timeout state, from async contexts).
        pub fn all_async() -> Vec<Entry> {
            #[allow(unused_mut)]
            let mut v = vec![];
            #[cfg(feature = "tokio")]
            v.extend([Entry::TokioAsyncFlush, Entry::TokioAsyncSend]);
            v
        }

        fn is_async(self) -> bool {
            match self {
                #[cfg(feature = "tokio")]
                Entry::TokioAsyncFlush | Entry::TokioAsyncSend => true,
                _ => false,
            }
        }

        fn is_send(self) -> bool {
            match self {
                Entry::SyncSend => true,
                #[cfg(feature = "tokio")]
                Entry::TokioSend | Entry::TokioAsyncSend => true,
                _ => false,
            }
        }
    }

    #[derive(Clone, Copy, Debug, PartialEq, Eq, Hash)]
    pub enum Ctx {
        PlainThread,
        #[cfg(feature = "tokio")]
        MtWorker,
        #[cfg(feature = "tokio")]
        MtBlockOn,
        #[cfg(feature = "tokio")]
        CurrentThread,
        #[cfg(feature = "tokio")]
        CurrentThreadTask,
        #[cfg(feature = "tokio")]
        MtSpawnBlocking,
        #[cfg(feature = "tokio")]
        MtBlockOnLocalSet,
    }

    impl Ctx {
        pub fn all() -> Vec<Ctx> {
            #[allow(unused_mut)]
            let mut v = vec![Ctx::PlainThread];
            #[cfg(feature = "tokio")]
            v.extend([Ctx::MtWorker, Ctx::MtBlockOn, Ctx::CurrentThread, Ctx::CurrentThreadTask, Ctx::MtSpawnBlocking, Ctx::MtBlockOnLocalSet]);
            v
        }

        pub fn name(self) -> &'static str {
            match self {
                Ctx::PlainThread => "plain-thread",
                #[cfg(feature = "tokio")]
                Ctx::MtWorker => "tokio-mt-worker",
                #[cfg(feature = "tokio")]
                Ctx::MtBlockOn => "tokio-mt-block_on",
                #[cfg(feature = "tokio")]
                Ctx::CurrentThread => "tokio-current-thread-block_on",
                #[cfg(feature = "tokio")]
                Ctx::CurrentThreadTask => "tokio-current-thread-task",
                #[cfg(feature = "tokio")]
                Ctx::MtSpawnBlocking => "tokio-mt-spawn_blocking",
                #[cfg(feature = "tokio")]
                Ctx::MtBlockOnLocalSet => "tokio-mt-block_on-localset",
            }
        }
    }

    #[derive(Clone, Copy, Debug, PartialEq, Eq, Hash)]
    pub enum State {
        EmptyLive,
        FullStalled,
        NoReceiverRunning,
        ReceiverDropped,
        /// full queue, processor parked on a gate that is opened once the caller really waits:
        /// the operation is guaranteed to complete on its own (used with extreme timeouts)
        Released,
    }

    impl State {
        pub const ALL: [State; 4] = [State::EmptyLive, State::FullStalled, State::NoReceiverRunning, State::ReceiverDropped];

        pub fn name(self) -> &'static str {
            match self {
                State::EmptyLive => "empty+live-receiver",
                State::FullStalled => "full+stalled-receiver",
                State::NoReceiverRunning => "no-receiver-running",
                State::ReceiverDropped => "receiver-dropped",
                State::Released => "full+parked-receiver-released",
            }
        }
    }

    #[derive(Clone, Copy, Debug, PartialEq, Eq, Hash)]
    pub enum RecvKind {
        Sync,
        #[cfg(feature = "tokio")]
        Tokio,
    }

    impl RecvKind {
        pub fn name(self) -> &'static str {
            match self {
                RecvKind::Sync => "sync::spawn",
                #[cfg(feature = "tokio")]
                RecvKind::Tokio => "tokio::spawn",
            }
        }

        pub fn pick(g: &mut Rng) -> RecvKind {
            #[cfg(feature = "tokio")]
            if g.bool() {
                return RecvKind::Tokio;
            }
            let _ = g;
            RecvKind::Sync
        }
    }

    #[derive(Clone, Copy, Debug, PartialEq, Eq, Hash)]
    pub enum Tmo {
        Ms(u64),
        Hour,
        HalfU64Secs,
        U64Secs,
        Max,
    }

    impl Tmo {
        pub const EXTREME: [Tmo; 4] = [Tmo::Hour, Tmo::HalfU64Secs, Tmo::U64Secs, Tmo::Max];

        pub fn dur(self) -> Duration {
            match self {
                Tmo::Ms(ms) => Duration::from_millis(ms),
                Tmo::Hour => Duration::from_secs(3600),
                Tmo::HalfU64Secs => Duration::from_secs(u64::MAX / 2),
                Tmo::U64Secs => Duration::from_secs(u64::MAX),
                Tmo::Max => Duration::MAX,
            }
        }

        pub fn class(self) -> String {
            match self {
                Tmo::Ms(ms) => format!("{}ms", ms),
                Tmo::Hour => "1h".into(),
                Tmo::HalfU64Secs => "u64max/2-secs".into(),
                Tmo::U64Secs => "u64max-secs".into(),
                Tmo::Max => "Duration::MAX".into(),
            }
        }
    }

    /// What the blocking call returned.
    #[derive(Debug, Clone)]
    pub enum Ret {
        Flush(bool),
        SendOk,
        SendErr(Option<u64>),
    }

    fn call(entry: Entry, sender: &Sender<Chan>, item: u64, t: Duration) -> Ret {
        fn of(res: Result<(), BatchError<u64>>) -> Ret {
            match res {
                Ok(()) => Ret::SendOk,
                Err(e) => Ret::SendErr(e.into_retryable()),
            }
        }
        match entry {
            Entry::SyncFlush => Ret::Flush(emit_batcher::sync::blocking_flush(sender, t)),
            Entry::SyncSend => of(emit_batcher::sync::blocking_send(sender, item, t)),
            #[cfg(feature = "tokio")]
            Entry::TokioFlush => Ret::Flush(emit_batcher::tokio::blocking_flush(sender, t)),
            #[cfg(feature = "tokio")]
            Entry::TokioSend => of(emit_batcher::tokio::blocking_send(sender, item, t)),
            #[cfg(feature = "tokio")]
            Entry::TokioAsyncFlush | Entry::TokioAsyncSend => unreachable!("async entry points go through call_async"),
        }
    }

    #[cfg(feature = "tokio")]
    async fn call_async(entry: Entry, sender: Arc<Sender<Chan>>, item: u64, t: Duration) -> Ret {
        match entry {
            Entry::TokioAsyncFlush => Ret::Flush(emit_batcher::tokio::flush(&sender, t).await),
            Entry::TokioAsyncSend => match emit_batcher::tokio::send(&sender, item, t).await {
                Ok(()) => Ret::SendOk,
                Err(e) => Ret::SendErr(e.into_retryable()),
            },
            other => call(other, &sender, item, t),
        }
    }

    /// Await the async entry point in calling context `ctx`. `None` = the context has no executor
    /// to await on (plain thread, spawn_blocking).
    #[cfg(feature = "tokio")]
    fn in_ctx_async(ctx: Ctx, entry: Entry, sender: Arc<Sender<Chan>>, item: u64, t: Duration) -> Option<Result<Ret, String>> {
        fn joined(res: Result<Ret, tokio::task::JoinError>) -> Result<Ret, String> {
            match res {
                Ok(r) => Ok(r),
                Err(e) if e.is_panic() => Err(panic_message(&e.into_panic())),
                Err(e) => Err(format!("task failed: {}", e)),
            }
        }
        let mt = || tokio::runtime::Builder::new_multi_thread().worker_threads(2).enable_all().build().unwrap();
        let ct = || tokio::runtime::Builder::new_current_thread().enable_all().build().unwrap();
        let fut = call_async(entry, sender, item, t);
        let guarded = |f: &mut dyn FnMut() -> Result<Ret, String>| match catch_unwind(AssertUnwindSafe(|| quiet(f))) {
            Ok(r) => r,
            Err(p) => Err(panic_message(&p)),
        };
        let mut fut = Some(fut);
        Some(match ctx {
            Ctx::PlainThread | Ctx::MtSpawnBlocking => return None,
            Ctx::MtWorker => guarded(&mut || {
                let f = fut.take().unwrap();
                joined(mt().block_on(async move { tokio::spawn(f).await }))
            }),
            Ctx::MtBlockOn => guarded(&mut || Ok(mt().block_on(fut.take().unwrap()))),
            Ctx::CurrentThread => guarded(&mut || Ok(ct().block_on(fut.take().unwrap()))),
            Ctx::CurrentThreadTask => guarded(&mut || {
                let f = fut.take().unwrap();
                joined(ct().block_on(async move { tokio::spawn(f).await }))
            }),
            Ctx::MtBlockOnLocalSet => guarded(&mut || {
                let local = tokio::task::LocalSet::new();
                Ok(mt().block_on(local.run_until(fut.take().unwrap())))
            }),
        })
    }

    /// Run `f` in calling context `ctx`; `Err(panic message)` if it panicked there.
    fn in_ctx<R: Send + 'static>(ctx: Ctx, f: impl FnOnce() -> R + Send + 'static) -> Result<R, String> {
        let guarded = move || catch_unwind(AssertUnwindSafe(|| quiet(f))).map_err(|p| panic_message(&p));
        match ctx {
            Ctx::PlainThread => guarded(),
            #[cfg(feature = "tokio")]
            Ctx::MtWorker => {
                let rt = tokio::runtime::Builder::new_multi_thread().worker_threads(2).enable_all().build().unwrap();
                let res = rt.block_on(async move { tokio::spawn(async move { guarded() }).await });
                match res {
                    Ok(r) => r,
                    Err(e) => Err(format!("task failed: {}", e)),
                }
            }
            #[cfg(feature = "tokio")]
            Ctx::MtBlockOn => {
                let rt = tokio::runtime::Builder::new_multi_thread().worker_threads(2).enable_all().build().unwrap();
                rt.block_on(async move { guarded() })
            }
            #[cfg(feature = "tokio")]
            Ctx::CurrentThread => {
                let rt = tokio::runtime::Builder::new_current_thread().enable_all().build().unwrap();
                rt.block_on(async move { guarded() })
            }
            #[cfg(feature = "tokio")]
            Ctx::CurrentThreadTask => {
                let rt = tokio::runtime::Builder::new_current_thread().enable_all().build().unwrap();
                let res = rt.block_on(async move { tokio::spawn(async move { guarded() }).await });
                match res {
                    Ok(r) => r,
                    Err(e) => Err(format!("task failed: {}", e)),
                }
            }
            #[cfg(feature = "tokio")]
            Ctx::MtSpawnBlocking => {
                let rt = tokio::runtime::Builder::new_multi_thread().worker_threads(2).enable_all().build().unwrap();
                let res = rt.block_on(async move { tokio::task::spawn_blocking(guarded).await });
                match res {
                    Ok(r) => r,
                    Err(e) => Err(format!("task failed: {}", e)),
                }
            }
            #[cfg(feature = "tokio")]
            Ctx::MtBlockOnLocalSet => {
                let rt = tokio::runtime::Builder::new_multi_thread().worker_threads(2).enable_all().build().unwrap();
                let local = tokio::task::LocalSet::new();
                rt.block_on(local.run_until(async move { guarded() }))
            }
        }
    }

    pub type Delivered = Arc<Mutex<Vec<Vec<u64>>>>;

    /// Start a receiver whose processor records the batch and then passes `gate`.
    pub fn start_receiver(
        kind: RecvKind,
        receiver: emit_batcher::Receiver<Chan>,
        delivered: Delivered,
        gate: Gate,
        fail_every: u64,
    ) -> std::io::Result<thread::JoinHandle<()>> {
        let calls = Arc::new(AtomicU64::new(0));
        match kind {
            RecvKind::Sync => emit_batcher::sync::spawn("c08_sync_receiver", receiver, move |batch: Chan| {
                let n = calls.fetch_add(1, Ordering::SeqCst) + 1;
                delivered.lock().unwrap().push(batch.clone());
                gate.pass();
                scripted_thread_outcome(n, fail_every, batch)
            }),
            #[cfg(feature = "tokio")]
            RecvKind::Tokio => emit_batcher::tokio::spawn("c08_tokio_receiver", receiver, move |batch: Chan| {
                let n = calls.fetch_add(1, Ordering::SeqCst) + 1;
                let delivered = delivered.clone();
                let gate = gate.clone();
                async move {
                    delivered.lock().unwrap().push(batch.clone());
                    tokio::task::yield_now().await;
                    gate.pass();
                    scripted_thread_outcome(n, fail_every, batch)
                }
            }),
        }
    }

    fn scripted_thread_outcome(n: u64, fail_every: u64, batch: Chan) -> Result<(), BatchError<Chan>> {
        if fail_every == 0 || n % fail_every != 0 {
            return Ok(());
        }
        match (n / fail_every) % 4 {
            0 => Err(BatchError::retry(ScriptedError, batch)),
            1 => Err(BatchError::no_retry(ScriptedError)),
            2 => quiet(|| panic!("scripted panic in a worker thread's on_batch")),
            _ => Err(BatchError::retry(ScriptedError, batch.into_iter().skip(1).collect())),
        }
    }

    /// Join with a watchdog. `None` = still running after `limit`.
    pub fn join_bounded(h: thread::JoinHandle<()>, limit: Duration) -> Option<thread::Result<()>> {
        let start = Instant::now();
        while !h.is_finished() {
            if start.elapsed() > limit {
                return None;
            }
            thread::sleep(Duration::from_millis(1));
        }
        Some(h.join())
    }

    pub struct CellOut {
        pub ret: Result<Ret, String>,
        pub delivered: Vec<Vec<u64>>,
        pub joined: Option<bool>, // Some(false) = watchdog, None = no receiver thread
        pub setup_failed: Option<String>,
        pub item: u64,
        pub elapsed: Duration,
        /// Released cells: did the caller really wait before the gate was opened
        pub really_waited: bool,
        /// Released cells: later operations on the same channel (Err = one of them panicked;
        /// Ok((first flush, second flush)))
        pub later: Option<Result<(bool, bool), String>>,
    }

    enum Sup {
        Out(CellOut),
        Deadlock,
        Watchdog(&'static str),
    }

    const ITEM: u64 = 999_999;
    const WATCHDOG: Duration = Duration::from_secs(60);

    /// One cell: set the channel up, make the blocking call in its context (on this thread or
    /// the runtime it builds), clean up.
    pub fn run_cell(
        entry: Entry,
        ctx: Ctx,
        state: State,
        rk: RecvKind,
        t: Duration,
        cap: usize,
        started: &Done<()>,
        returned: &Done<()>,
    ) -> CellOut {
        let (sender, receiver) = bounded::<Chan>(cap);
        let sender = Arc::new(sender);
        let delivered: Delivered = Arc::new(Mutex::new(Vec::new()));
        let gate = Gate::new(!matches!(state, State::FullStalled | State::Released));
        let mut handle = None;
        let mut parked_receiver = None;
        let mut setup_failed = None;
        match state {
            State::EmptyLive => {
                handle = Some(start_receiver(rk, receiver, delivered.clone(), gate.clone(), 0).unwrap());
            }
            State::FullStalled | State::Released => {
                handle = Some(start_receiver(rk, receiver, delivered.clone(), gate.clone(), 0).unwrap());
                sender.send(1);
                if !gate.wait_arrivals(1, WATCHDOG) {
                    setup_failed = Some("the processor never reached the gate".to_string());
                }
                for k in 0..cap as u64 {
                    sender.send(10 + k);
                }
            }
            State::NoReceiverRunning => {
                for k in 0..cap as u64 {
                    sender.send(10 + k);
                }
                parked_receiver = Some(receiver);
            }
            State::ReceiverDropped => {
                for k in 0..cap as u64 {
                    sender.send(10 + k);
                }
                drop(receiver);
            }
        }
        // Released: open the gate once the caller really waits (its watcher is registered)
        let call_over = Arc::new(std::sync::atomic::AtomicBool::new(false));
        let releaser = if state == State::Released && setup_failed.is_none() {
            let (s, gate, call_over, is_send) = (sender.clone(), gate.clone(), call_over.clone(), entry.is_send());
            Some(thread::spawn(move || {
                let begin = Instant::now();
                let mut waited = false;
                while begin.elapsed() < Duration::from_secs(10) && !call_over.load(Ordering::SeqCst) {
                    let snap = s.verif_snapshot();
                    if (is_send && snap.on_take >= 1) || (!is_send && snap.on_flush >= 1) {
                        waited = true;
                        break;
                    }
                    thread::sleep(Duration::from_micros(200));
                }
                if waited {
                    thread::sleep(Duration::from_millis(30));
                }
                gate.open();
                waited
            }))
        } else {
            None
        };
        started.set(());
        let start = Instant::now();
        let ret = if setup_failed.is_none() {
            let s = sender.clone();
            if entry.is_async() {
                #[cfg(feature = "tokio")]
                {
                    in_ctx_async(ctx, entry, s, ITEM, t).unwrap_or_else(|| Err("no executor in this context".into()))
                }
                #[cfg(not(feature = "tokio"))]
                {
                    let _ = s;
                    Err("async entry points need tokio".into())
                }
            } else {
                in_ctx(ctx, move || call(entry, &s, ITEM, t))
            }
        } else {
            Err("setup failed".into())
        };
        let elapsed = start.elapsed();
        call_over.store(true, Ordering::SeqCst);
        returned.set(());
        let really_waited = releaser.map(|h| h.join().unwrap_or(false)).unwrap_or(false);
        gate.open();
        // Released: later operations on the same channel still work
        let later = if state == State::Released && setup_failed.is_none() {
            let s2 = sender.clone();
            Some(catch(move || {
                if !emit_batcher::sync::blocking_flush(&s2, Duration::from_secs(20)) {
                    return (false, false);
                }
                s2.send(7777);
                let _ = s2.try_send(7778);
                let _ = s2.verif_snapshot();
                (true, emit_batcher::sync::blocking_flush(&s2, Duration::from_secs(20)))
            }))
        } else {
            None
        };
        drop(parked_receiver);
        drop(sender);
        let joined = handle.map(|h| matches!(join_bounded(h, WATCHDOG), Some(Ok(()))));
        let delivered = delivered.lock().unwrap().clone();
        CellOut {
            ret,
            delivered,
            joined,
            setup_failed,
            item: ITEM,
            elapsed,
            really_waited,
            later,
        }
    }

    pub fn matrix(r: &mut Report, args: &Args) {
        let seed = args.seed;
        let rounds = args.n(3, 16);
        let mut cells = Vec::new();
        for round in 0..rounds {
            for entry in Entry::all() {
                for ctx in Ctx::all() {
                    for state in State::ALL {
                        let mut g = Rng::stream(seed, &[8, 2, round, hash_of(&(entry, ctx, state))]);
                        let t_ms = if round == 0 { 30 } else { *g.pick(&[0u64, 1, 5, 30, 60, 100]) };
                        let cap = 1 + g.usize(3);
                        let rk = RecvKind::pick(&mut g);
                        cells.push((round, entry, ctx, state, rk, Tmo::Ms(t_ms), cap));
                    }
                }
            }
        }
        // extreme timeouts in a state where the operation completes on its own
        for round in 0..args.n(2, 8) {
            for entry in Entry::all().into_iter().chain(Entry::all_async()) {
                for ctx in Ctx::all() {
                    if entry.is_async() && matches!(ctx.name(), "plain-thread" | "tokio-mt-spawn_blocking") {
                        continue; // nothing to await on there
                    }
                    for tmo in Tmo::EXTREME {
                        let mut g = Rng::stream(seed, &[8, 4, round, hash_of(&(entry, ctx, tmo))]);
                        let cap = 1 + g.usize(3);
                        let rk = RecvKind::pick(&mut g);
                        cells.push((round, entry, ctx, State::Released, rk, tmo, cap));
                    }
                }
            }
        }
        let total = cells.len();
        let queue = Arc::new(Mutex::new(cells));
        let results: Arc<Mutex<Vec<_>>> = Arc::new(Mutex::new(Vec::new()));
        // every cell gets its own supervised thread; the supervisor applies the 100*T + 10 s rule
        let workers = 12.min(total.max(1));
        let abort = Arc::new(std::sync::atomic::AtomicBool::new(false));
        let hs: Vec<_> = (0..workers)
            .map(|_| {
                let queue = queue.clone();
                let results = results.clone();
                let abort = abort.clone();
                thread::spawn(move || loop {
                    let cell = match queue.lock().unwrap().pop() {
                        Some(c) => c,
                        None => break,
                    };
                    if abort.load(Ordering::SeqCst) {
                        break;
                    }
                    let (round, entry, ctx, state, rk, tmo, cap) = cell;
                    let t = tmo.dur();
                    let done: Done<CellOut> = Done::new();
                    let (started, returned): (Done<()>, Done<()>) = (Done::new(), Done::new());
                    let (d2, s2, r2) = (done.clone(), started.clone(), returned.clone());
                    let _ = thread::Builder::new()
                        .name("c08_cell".into())
                        .spawn(move || d2.set(run_cell(entry, ctx, state, rk, t, cap, &s2, &r2)));
                    // the only wall-clock verdict: the call itself must be back within 100*T + 10 s.
                    // Setting the cell up and joining its receiver have their own (inconclusive) watchdogs.
                    // (Released cells complete on their own: there the limit is a plain watchdog.)
                    let limit = if state == State::Released {
                        WATCHDOG
                    } else {
                        t.checked_mul(100).and_then(|d| d.checked_add(Duration::from_secs(10))).unwrap_or(Duration::MAX)
                    };
                    let verdict = if started.wait(WATCHDOG + Duration::from_secs(5)).is_none() {
                        Sup::Watchdog("the cell never got as far as the blocking call")
                    } else {
                        let back = returned.wait(limit).is_some();
                        if !back && state == State::Released {
                            Sup::Watchdog("the call did not return within the watchdog after the gate was opened")
                        } else if !back {
                            // nothing more to learn from further cells that would hang the same way
                            abort.store(true, Ordering::SeqCst);
                            Sup::Deadlock
                        } else {
                            match done.wait(WATCHDOG + Duration::from_secs(5)) {
                                Some(out) => Sup::Out(out),
                                None => Sup::Watchdog("the cell did not clean up within the watchdog"),
                            }
                        }
                    };
                    results.lock().unwrap().push((round, entry, ctx, state, rk, tmo, cap, limit, verdict));
                })
            })
            .collect();
        for h in hs {
            let _ = h.join();
        }
        let results = std::mem::take(&mut *results.lock().unwrap());
        for (round, entry, ctx, state, rk, tmo, cap, limit, out) in results {
            r.eval();
            let t_ms = match tmo {
                Tmo::Ms(ms) => ms,
                _ => u64::MAX,
            };
            let case = json!({
                "section": "ctx", "seed": seed, "round": round, "entry": entry.name(), "context": ctx.name(),
                "state": state.name(), "receiver": rk.name(), "timeout": tmo.class(), "capacity": cap,
            });
            let cell_sig = format!("{}:{}:{}", entry.name(), ctx.name(), state.name());
            let out = match out {
                Sup::Out(o) => o,
                Sup::Watchdog(why) => {
                    r.inconclusive(format!("ctx cell {}: {}", cell_sig, why));
                    continue;
                }
                Sup::Deadlock => {
                    r.violation(
                        &format!("C08:ctx:deadlock:{}", cell_sig),
                        &format!("{} from {} on a {} channel had not returned after 100*T + 10 s", entry.name(), ctx.name(), state.name()),
                        case,
                    );
                    continue;
                }
            };
            if let Some(why) = &out.setup_failed {
                r.inconclusive(format!("ctx cell {}: {}", cell_sig, why));
                continue;
            }
            r.observe(&format!("ctx:entry:{}", entry.name()), 1);
            r.observe(&format!("ctx:context:{}", ctx.name()), 1);
            r.observe(&format!("ctx:state:{}", state.name()), 1);
            r.nontrivial(&("ctx", entry, ctx, state));
            if state == State::Released {
                released_oracle(r, entry, ctx, tmo, &out, &case);
                match out.joined {
                    Some(true) => r.observe("ctx:receiver-threads-joined", 1),
                    Some(false) => r.inconclusive(format!("ctx cell {}: receiver thread had not joined within the watchdog", cell_sig)),
                    None => {}
                }
                continue;
            }
            match &out.ret {
                Err(msg) => {
                    r.violation(
                        // the channel state is in the case, not in the signature: a panic caused by the
                        // calling context is one defect, whatever the queue looked like
                        &format!("C08:ctx:panic:{}:{}", entry.name(), ctx.name()),
                        &format!("{} panicked when called from {} on a {} channel: {}", entry.name(), ctx.name(), state.name(), msg),
                        case.clone(),
                    );
                }
                Ok(ret) => {
                    if out.elapsed > limit {
                        r.violation(
                            &format!("C08:ctx:deadlock:{}", cell_sig),
                            &format!("{} from {} took {:?} with timeout {} ms (limit 100*T + 10 s)", entry.name(), ctx.name(), out.elapsed, t_ms),
                            case.clone(),
                        );
                    }
                    let expiry_certain = matches!(state, State::FullStalled | State::NoReceiverRunning);
                    match ret {
                        Ret::Flush(v) => {
                            r.observe(if *v { "ctx:flush-returned-true" } else { "ctx:flush-returned-false" }, 1);
                            if *v && expiry_certain {
                                r.violation(
                                    &format!("C08:ctx:flush-true-on-expiry:{}", cell_sig),
                                    &format!("{} returned true although the receiver could not have processed the queued items ({})", entry.name(), state.name()),
                                    case.clone(),
                                );
                            }
                        }
                        Ret::SendOk => {
                            r.observe("ctx:send-returned-ok", 1);
                            if expiry_certain {
                                r.violation(
                                    &format!("C08:ctx:send-ok-on-expiry:{}", cell_sig),
                                    &format!("{} returned Ok on a full channel whose receiver takes nothing ({})", entry.name(), state.name()),
                                    case.clone(),
                                );
                            }
                        }
                        Ret::SendErr(item) => {
                            r.observe("ctx:send-returned-err", 1);
                            if expiry_certain && *item != Some(out.item) {
                                r.violation(
                                    &format!("C08:ctx:send-err-without-item:{}", cell_sig),
                                    &format!("{} timed out but handed back {:?} instead of the item", entry.name(), item),
                                    case.clone(),
                                );
                            }
                            if out.delivered.iter().flatten().any(|x| *x == out.item) {
                                r.violation(
                                    &format!("C08:ctx:send-err-but-delivered:{}", cell_sig),
                                    &format!("{} returned Err but the item was delivered", entry.name()),
                                    case.clone(),
                                );
                            }
                        }
                    }
                    if entry.is_send() && matches!(ret, Ret::SendOk) && out.joined == Some(true) {
                        if !out.delivered.iter().flatten().any(|x| *x == out.item) {
                            r.violation(
                                &format!("C08:ctx:send-ok-but-not-delivered:{}", cell_sig),
                                "blocking_send returned Ok but the item never reached on_batch although the receiver drained and terminated",
                                case.clone(),
                            );
                        }
                    }
                }
            }
            match out.joined {
                Some(true) => r.observe("ctx:receiver-threads-joined", 1),
                Some(false) => r.inconclusive(format!("ctx cell {}: receiver thread had not joined within the watchdog", cell_sig)),
                None => {}
            }
            if r.samples.len() < 4 && round == 0 && matches!(state, State::FullStalled) && ctx != Ctx::PlainThread {
                let ret = format!("{:?}", out.ret);
                let el = out.elapsed;
                r.sample(move || json!({"cell": case, "returned": ret, "elapsed_ms": el.as_secs_f64() * 1000.0}));
            }
        }
    }

    /// Extreme timeouts on an operation that completes on its own: true / Ok, no panic, the item
    /// delivered exactly once, the channel still usable afterwards.
    fn released_oracle(r: &mut Report, entry: Entry, ctx: Ctx, tmo: Tmo, out: &CellOut, case: &Json) {
        let tc = format!("timeout={}", tmo.class());
        r.observe(&format!("ctx:extreme:{}", tc), 1);
        if out.really_waited {
            r.observe("ctx:extreme:caller-was-blocked-when-the-gate-opened", 1);
        }
        r.nontrivial(&("ctx-extreme", entry, ctx, tmo));
        let n = out.delivered.iter().flatten().filter(|x| **x == out.item).count();
        match &out.ret {
            Err(msg) => r.violation(
                &format!("C08:ctx:panic:{}:{}:{}", entry.name(), ctx.name(), tc),
                &format!("{} panicked when called from {} with timeout {} on a queue that was drained while it waited: {}", entry.name(), ctx.name(), tmo.class(), msg),
                case.clone(),
            ),
            Ok(Ret::Flush(true)) => r.observe("ctx:extreme:flush-true", 1),
            Ok(Ret::SendOk) => {
                r.observe("ctx:extreme:send-ok", 1);
                if out.joined == Some(true) && n != 1 {
                    r.violation(
                        &format!("C08:ctx:extreme:item-delivered-{}-times:{}:{}", if n == 0 { "zero" } else { "several" }, entry.name(), tc),
                        &format!("{} with timeout {} returned Ok but the item reached on_batch {} times", entry.name(), tmo.class(), n),
                        case.clone(),
                    );
                }
            }
            Ok(other) => r.violation(
                &format!("C08:ctx:gave-up-before-timeout:{}:{}:{}", entry.name(), ctx.name(), tc),
                &format!(
                    "{} from {} with timeout {} returned {:?} after {:?} although the receiver processed everything long before the timeout",
                    entry.name(), ctx.name(), tmo.class(), other, out.elapsed
                ),
                case.clone(),
            ),
        }
        match &out.later {
            Some(Err(m)) => r.violation(
                &format!("C08:ctx:channel-unusable-after:{}:{}", entry.name(), tc),
                &format!("after {} with timeout {} a later operation on the same channel panicked: {}", entry.name(), tmo.class(), m),
                case.clone(),
            ),
            Some(Ok((true, true))) => {
                r.observe("ctx:extreme:later-operations-worked", 1);
                if out.joined == Some(true) && !out.delivered.iter().flatten().any(|x| *x == 7777) {
                    r.violation(
                        &format!("C08:ctx:later-send-lost:{}:{}", entry.name(), tc),
                        "an item sent after the extreme-timeout call (into a flushed, empty queue) never reached on_batch",
                        case.clone(),
                    );
                }
            }
            Some(Ok(_)) => r.inconclusive("ctx extreme: a 20 s flush after the call returned false; later-operation checks skipped"),
            None => {}
        }
    }

    // -----------------------------------------------------------------------
    // overstay: a blocking send that is woken part-way through its timeout and finds the channel
    // full again must still give up at about its ORIGINAL deadline
    // -----------------------------------------------------------------------

    #[derive(Clone, Copy, Debug, PartialEq, Eq, Hash)]
    pub enum Flavour {
        SyncBlocking,
        #[cfg(feature = "tokio")]
        TokioBlocking,
        #[cfg(feature = "tokio")]
        TokioAsync,
    }

    impl Flavour {
        pub fn all() -> Vec<Flavour> {
            #[allow(unused_mut)]
            let mut v = vec![Flavour::SyncBlocking];
            #[cfg(feature = "tokio")]
            v.extend([Flavour::TokioBlocking, Flavour::TokioAsync]);
            v
        }

        pub fn name(self) -> &'static str {
            match self {
                Flavour::SyncBlocking => "sync::blocking_send",
                #[cfg(feature = "tokio")]
                Flavour::TokioBlocking => "tokio::blocking_send",
                #[cfg(feature = "tokio")]
                Flavour::TokioAsync => "tokio::send",
            }
        }

        fn call(self, sender: &Sender<Chan>, item: u64, t: Duration) -> Result<(), Option<u64>> {
            let res = match self {
                Flavour::SyncBlocking => emit_batcher::sync::blocking_send(sender, item, t),
                #[cfg(feature = "tokio")]
                Flavour::TokioBlocking => emit_batcher::tokio::blocking_send(sender, item, t),
                #[cfg(feature = "tokio")]
                Flavour::TokioAsync => {
                    let rt = tokio::runtime::Builder::new_current_thread().enable_all().build().unwrap();
                    rt.block_on(emit_batcher::tokio::send(sender, item, t))
                }
            };
            res.map_err(|e| e.into_retryable())
        }
    }

    #[derive(Clone, Copy, Debug, PartialEq, Eq, Hash)]
    pub enum Wake {
        At25,
        At50,
        At75,
        At25And50And75,
    }

    impl Wake {
        pub const ALL: [Wake; 4] = [Wake::At25, Wake::At50, Wake::At75, Wake::At25And50And75];

        pub fn name(self) -> &'static str {
            match self {
                Wake::At25 => "25%",
                Wake::At50 => "50%",
                Wake::At75 => "75%",
                Wake::At25And50And75 => "25%+50%+75%",
            }
        }

        fn fractions(self) -> &'static [f64] {
            match self {
                Wake::At25 => &[0.25],
                Wake::At50 => &[0.5],
                Wake::At75 => &[0.75],
                Wake::At25And50And75 => &[0.25, 0.5, 0.75],
            }
        }
    }

    const OVERSTAY_T: Duration = Duration::from_millis(1200);
    const OVERSTAY_REPS: usize = 3;
    const OVERSTAY_ITEM: u64 = 424_242;

    enum Rep {
        Ok(Duration),
        Overstayed(String),
        NotMeaningful(String),
    }

    /// The competitor: a watcher registered before the blocked sender's own; when the receiver
    /// takes the batch it wins every freed slot (and, for several wake-ups, registers itself again).
    fn competitor(sender: Arc<Sender<Chan>>, cap: usize, more: usize, refilled: Arc<AtomicU64>) -> Box<dyn FnOnce() + Send> {
        Box::new(move || {
            for k in 0..cap as u64 {
                if sender.try_send(50_000 + 100 * more as u64 + k).is_ok() {
                    refilled.fetch_add(1, Ordering::SeqCst);
                }
            }
            if more > 0 {
                let next = competitor(sender.clone(), cap, more - 1, refilled);
                sender.when_empty(next);
            }
        })
    }

    fn overstay_rep(r: &mut Report, flavour: Flavour, wake: Wake, cap: usize) -> Rep {
        let t = OVERSTAY_T;
        let limit = t + std::cmp::max(t / 2, Duration::from_millis(500));
        let fractions = wake.fractions();
        let (sender, receiver) = bounded::<Chan>(cap);
        let sender = Arc::new(sender);
        // a scripted receiver, polled by hand: every processor call stays Pending until the monitor
        // lets it go, so the receiver takes exactly one batch per wake-up and nothing in between
        let stalled = Arc::new(std::sync::atomic::AtomicBool::new(false));
        let calls = Arc::new(AtomicU64::new(0));
        struct Held(Arc<std::sync::atomic::AtomicBool>);
        impl Future for Held {
            type Output = Result<(), BatchError<Chan>>;
            fn poll(self: Pin<&mut Self>, cx: &mut Context<'_>) -> Poll<Self::Output> {
                if self.0.load(Ordering::SeqCst) {
                    cx.waker().wake_by_ref();
                    Poll::Pending
                } else {
                    Poll::Ready(Ok(()))
                }
            }
        }
        let mut exec = {
            let (stalled, calls) = (stalled.clone(), calls.clone());
            Box::pin(receiver.exec(
                |_d: Duration| YieldOnce::new(),
                move |_batch: Chan| {
                    calls.fetch_add(1, Ordering::SeqCst);
                    stalled.store(true, Ordering::SeqCst);
                    Held(stalled.clone())
                },
            ))
        };
        for k in 0..cap as u64 {
            sender.send(10 + k);
        }
        let refilled = Arc::new(AtomicU64::new(0));
        sender.when_empty(competitor(sender.clone(), cap, fractions.len() - 1, refilled.clone()));
        // the blocked sender
        let started: Done<Instant> = Done::new();
        let done: Done<(Result<Result<(), Option<u64>>, String>, Duration)> = Done::new();
        {
            let (s, started, done) = (sender.clone(), started.clone(), done.clone());
            let _ = thread::Builder::new().name("c08_overstay".into()).spawn(move || {
                let start = Instant::now();
                started.set(start);
                let res = catch(|| flavour.call(&s, OVERSTAY_ITEM, t));
                done.set((res, start.elapsed()));
            });
        }
        let a_start = match started.wait(Duration::from_secs(10)) {
            Some(s) => s,
            None => return Rep::NotMeaningful("the blocked sender thread never started".into()),
        };
        let mut woke_at = Vec::new();
        let mut on_schedule = true;
        for (k, f) in fractions.iter().enumerate() {
            // its watcher must be registered behind the competitor's
            let mut registered = false;
            while a_start.elapsed() < t.mul_f64(*f) {
                if sender.verif_snapshot().on_take >= 2 {
                    registered = true;
                    break;
                }
                thread::sleep(Duration::from_millis(1));
            }
            on_schedule &= registered;
            if let Some(left) = t.mul_f64(*f).checked_sub(a_start.elapsed()) {
                thread::sleep(left);
            }
            // take exactly one batch: let the held call (if any) finish, poll until the next call
            stalled.store(false, Ordering::SeqCst);
            let want = k as u64 + 1;
            for _ in 0..8 {
                if calls.load(Ordering::SeqCst) >= want {
                    break;
                }
                let _ = poll_once(exec.as_mut());
            }
            let at = a_start.elapsed();
            on_schedule &= calls.load(Ordering::SeqCst) == want && at < t.mul_f64(*f + 0.12);
            woke_at.push(at);
        }
        let out = done.wait(Duration::from_secs(60));
        // shut down: the sender goes, the receiver drains
        drop(sender);
        stalled.store(false, Ordering::SeqCst);
        for _ in 0..400 {
            stalled.store(false, Ordering::SeqCst);
            if poll_once(exec.as_mut()).is_ready() {
                break;
            }
        }
        let (res, elapsed) = match out {
            Some(o) => o,
            None => return Rep::NotMeaningful("the blocked sender did not return within the watchdog".into()),
        };
        if !on_schedule || refilled.load(Ordering::SeqCst) != (cap * fractions.len()) as u64 {
            r.observe("overstay:setup-not-meaningful", 1);
            return Rep::NotMeaningful(format!("set-up off schedule (woken at {:?}, {} slots won by the competitor)", woke_at, refilled.load(Ordering::SeqCst)));
        }
        r.observe("overstay:woken-before-T-and-lost-the-slot", fractions.len() as u64);
        match res {
            Ok(Err(Some(OVERSTAY_ITEM))) if elapsed > limit => Rep::Overstayed(format!(
                "woken at {:?} on a channel that was full again, returned Err after {:?} with a timeout of {:?} (limit {:?})",
                woke_at, elapsed, t, limit
            )),
            Ok(Err(Some(OVERSTAY_ITEM))) => Rep::Ok(elapsed),
            other => Rep::NotMeaningful(format!("unexpected result {:?}", other)),
        }
    }

    fn overstay_cell(r: &mut Report, flavour: Flavour, wake: Wake, cap: usize) {
        r.eval();
        let case = json!({"section": "overstay", "flavour": flavour.name(), "woken_at": wake.name(), "capacity": cap, "timeout_ms": OVERSTAY_T.as_millis() as u64});
        let mut details = Vec::new();
        for _ in 0..OVERSTAY_REPS {
            // the scenario runs a watcher that calls back into the channel on the polling thread:
            // bound it so that a deadlock in there cannot hang the monitor
            let mut child = r.child();
            let rep = run_bounded("c08_overstay_rep", Duration::from_secs(90), move || {
                let rep = overstay_rep(&mut child, flavour, wake, cap);
                (rep, child)
            });
            match rep {
                None => {
                    r.inconclusive(format!("overstay {} {}: a repetition did not finish within 90 s", flavour.name(), wake.name()));
                    return;
                }
                Some((rep, child)) => {
                    r.merge(child);
                    match rep {
                        Rep::Ok(elapsed) => {
                            r.observe("overstay:returned-at-about-the-original-deadline", 1);
                            r.observe("overstay:ms-after-T", elapsed.saturating_sub(OVERSTAY_T).as_millis() as u64);
                            r.nontrivial(&("overstay", flavour, wake, cap));
                            return;
                        }
                        Rep::NotMeaningful(why) => {
                            r.inconclusive(format!("overstay {} {}: {}", flavour.name(), wake.name(), why));
                            return;
                        }
                        Rep::Overstayed(d) => details.push(d),
                    }
                }
            }
        }
        let mut case = case;
        case["repetitions"] = json!(details);
        r.violation(
            &format!("C08:blocking-send-overstays-timeout:{}:woken-at={}", flavour.name(), wake.name()),
            &format!(
                "a blocked send that was woken part-way through its timeout and lost the freed slot gave up long after its original deadline ({} of {} repetitions): {}",
                OVERSTAY_REPS, OVERSTAY_REPS, details[0]
            ),
            case,
        );
    }

    /// Start every overstay cell on its own thread (they mostly sleep).
    pub fn overstay_start(r: &Report, args: &Args) -> Vec<(String, Done<Report>)> {
        let caps: Vec<usize> = if args.thorough() { vec![1, 2, 3] } else { vec![1, 2] };
        let mut out = Vec::new();
        for flavour in Flavour::all() {
            for wake in Wake::ALL {
                for &cap in &caps {
                    let mut child = r.child();
                    let d: Done<Report> = Done::new();
                    let d2 = d.clone();
                    let _ = thread::Builder::new().name("c08_overstay_cell".into()).spawn(move || {
                        overstay_cell(&mut child, flavour, wake, cap);
                        d2.set(child);
                    });
                    out.push((format!("{} {} cap {}", flavour.name(), wake.name(), cap), d));
                }
            }
        }
        out
    }

    pub fn overstay_collect(r: &mut Report, cells: Vec<(String, Done<Report>)>) {
        for (name, d) in cells {
            match d.wait(Duration::from_secs(300)) {
                Some(child) => r.merge(child),
                None => r.inconclusive(format!("overstay cell {} did not come back within the watchdog", name)),
            }
        }
    }

    /// Section 3: worker threads terminate after the sender is dropped.
    pub fn termination(r: &mut Report, args: &Args) {
        let seed = args.seed;
        let n = args.n(240, 3_000);
        let children: Vec<Report> = {
            let next = AtomicU64::new(0);
            let workers = 8.min(n as usize).max(1);
            thread::scope(|s| {
                let hs: Vec<_> = (0..workers)
                    .map(|_| {
                        let mut child = r.child();
                        let next = &next;
                        s.spawn(move || {
                            loop {
                                let i = next.fetch_add(1, Ordering::SeqCst);
                                if i >= n {
                                    break;
                                }
                                termination_case(&mut child, seed, i);
                                if i % 3 == 0 {
                                    release_case(&mut child, seed, i);
                                }
                            }
                            child
                        })
                    })
                    .collect();
                hs.into_iter().map(|h| h.join().expect("termination worker")).collect()
            })
        };
        for c in children {
            r.merge(c);
        }
    }

    /// A flush callback releases another thread which sends final items and drops the last sender
    /// while a later, slow callback is still running on the receiver: the final items must still
    /// be delivered before the worker terminates.
    pub fn release_case(r: &mut Report, seed: u64, i: u64) {
        let mut g = Rng::stream(seed, &[8, 5, i]);
        let rk = RecvKind::pick(&mut g);
        let items_with_callbacks = g.below(3); // 0 = the callbacks ride on an empty batch (idle / exit branch)
        let finals = 1 + g.below(3);
        let case = json!({
            "section": "join", "variant": "released-thread-sends-and-drops", "seed": seed, "case": i, "receiver": rk.name(),
            "items_queued_with_callbacks": items_with_callbacks, "final_items": finals,
        });
        r.eval();
        let (sender, receiver) = bounded::<Chan>(1 << 16);
        let delivered: Delivered = Arc::new(Mutex::new(Vec::new()));
        let gate = Gate::new(false);
        let handle = match start_receiver(rk, receiver, delivered.clone(), gate.clone(), 0) {
            Ok(h) => h,
            Err(e) => {
                r.inconclusive(format!("could not spawn a receiver thread: {}", e));
                return;
            }
        };
        // park the processor so that the callbacks are deferred to the receiver
        sender.send(1);
        if !gate.wait_arrivals(1, WATCHDOG) {
            r.inconclusive("join/release: the processor never reached the gate");
            gate.open();
            return;
        }
        let go: Done<()> = Done::new();
        let helper_done: Done<()> = Done::new();
        let fired = Arc::new([AtomicU64::new(0), AtomicU64::new(0)]);
        {
            let (go, fired) = (go.clone(), fired.clone());
            sender.when_flushed(move || {
                fired[0].fetch_add(1, Ordering::SeqCst);
                go.set(());
            });
        }
        {
            let (helper_done, fired) = (helper_done.clone(), fired.clone());
            sender.when_flushed(move || {
                fired[1].fetch_add(1, Ordering::SeqCst);
                // the slow callback: still running on the receiver while the released thread acts
                let _ = helper_done.wait(Duration::from_secs(10));
            });
        }
        for k in 0..items_with_callbacks {
            sender.send(10 + k);
        }
        let helper_result: Done<bool> = Done::new();
        {
            let (go, helper_done, helper_result) = (go.clone(), helper_done.clone(), helper_result.clone());
            let _ = thread::Builder::new().name("c08_released".into()).spawn(move || {
                let released = go.wait(WATCHDOG).is_some();
                for k in 0..finals {
                    sender.send(FINAL_ITEM_BASE + k);
                }
                drop(sender);
                helper_done.set(());
                helper_result.set(released);
            });
        }
        gate.open();
        let released = match helper_result.wait(WATCHDOG + WATCHDOG) {
            Some(x) => x,
            None => {
                r.inconclusive("join/release: the released helper thread did not finish sending and dropping within the watchdog");
                return;
            }
        };
        match join_bounded(handle, WATCHDOG) {
            None => {
                r.inconclusive(format!("join/release: {} receiver had not terminated within the watchdog", rk.name()));
                return;
            }
            Some(Err(p)) => {
                r.violation(
                    &format!("C08:join:worker-thread-panicked:{}", rk.name()),
                    &format!("the {} worker thread ended with a panic: {}", rk.name(), panic_message(&p)),
                    case,
                );
                return;
            }
            Some(Ok(())) => {}
        }
        if !released {
            r.inconclusive("join/release: the first flush callback never released the helper thread");
            return;
        }
        r.observe(&format!("join:release:{}:joined", rk.name()), 1);
        r.nontrivial(&("join-release", rk, items_with_callbacks, finals));
        let seen: HashSet<u64> = delivered.lock().unwrap().iter().flatten().copied().collect();
        let missing: Vec<u64> = (0..finals).map(|k| FINAL_ITEM_BASE + k).filter(|x| !seen.contains(x)).collect();
        if !missing.is_empty() {
            r.violation(
                &format!("C08:join:final-items-not-delivered:sent-by-thread-released-from-flush-callback:{}", rk.name()),
                &format!(
                    "{} items sent before the last sender was dropped (by a thread a flush callback released while a later callback was still running) never reached on_batch although the worker terminated",
                    missing.len()
                ),
                case.clone(),
            );
        } else {
            r.observe("join:release:final-items-delivered", finals);
        }
        for (k, f) in fired.iter().enumerate() {
            let n = f.load(Ordering::SeqCst);
            if n != 1 {
                r.violation(
                    &format!("C08:join:callback-fired-{}-times:{}", if n == 0 { "zero" } else { "several" }, rk.name()),
                    &format!("flush callback #{} fired {} times by the time the worker thread had terminated", k, n),
                    case.clone(),
                );
            }
        }
    }

    pub fn termination_case(r: &mut Report, seed: u64, i: u64) {
        let mut g = Rng::stream(seed, &[8, 3, i]);
        let rk = RecvKind::pick(&mut g);
        let cap = *g.pick(&[1usize, 2, 8, 1 << 16]);
        let fail_every = *g.pick(&[0u64, 0, 1, 2, 3]);
        let n_items = g.below(if cfg!(miri) { 8 } else { 40 });
        let n_flush = g.below(4);
        let stall_first = g.chance(1, 3);
        let case = json!({
            "section": "join", "seed": seed, "case": i, "receiver": rk.name(), "capacity": cap,
            "fail_every": fail_every, "items": n_items, "flush_callbacks": n_flush, "stalled_until_drop": stall_first,
        });
        r.eval();
        let (sender, receiver) = bounded::<Chan>(cap);
        let delivered: Delivered = Arc::new(Mutex::new(Vec::new()));
        let gate = Gate::new(!stall_first);
        let handle = match start_receiver(rk, receiver, delivered.clone(), gate.clone(), fail_every) {
            Ok(h) => h,
            Err(e) => {
                r.inconclusive(format!("could not spawn a receiver thread: {}", e));
                return;
            }
        };
        let fired: Arc<Vec<AtomicU64>> = Arc::new((0..n_flush).map(|_| AtomicU64::new(0)).collect());
        let mut registered_at = Vec::new();
        for k in 0..n_items {
            sender.send(k + 1);
            if (registered_at.len() as u64) < n_flush && g.chance(1, 6) {
                let idx = registered_at.len();
                registered_at.push(k);
                let fired = fired.clone();
                let panics = g.chance(1, 4);
                let _ = catch(|| {
                    sender.when_flushed(move || {
                        fired[idx].fetch_add(1, Ordering::SeqCst);
                        if panics {
                            quiet(|| panic!("scripted panic in a flush callback on the worker thread"));
                        }
                    })
                });
            }
            if g.chance(1, 8) {
                thread::yield_now();
            }
        }
        let truncated = *metrics(&sender.metric_source()).get("queue_full_truncated").unwrap_or(&0);
        let snap = sender.verif_snapshot();
        drop(sender);
        gate.open();
        match join_bounded(handle, WATCHDOG) {
            None => {
                r.inconclusive(format!("join: {} receiver had not terminated {:?} after the sender was dropped", rk.name(), WATCHDOG));
                return;
            }
            Some(Err(p)) => {
                r.violation(
                    &format!("C08:join:worker-thread-panicked:{}", rk.name()),
                    &format!("the {} worker thread ended with a panic: {}", rk.name(), panic_message(&p)),
                    case,
                );
                return;
            }
            Some(Ok(())) => {}
        }
        r.observe(&format!("join:{}:joined", rk.name()), 1);
        if r.samples.is_empty() && i < 4 {
            let (c2, nd) = (case.clone(), delivered.lock().unwrap().len());
            r.sample(move || json!({"join": c2, "pending_at_drop": snap.pending_len, "in_batch_at_drop": snap.is_in_batch, "batches_delivered": nd, "overflows": truncated}));
        }
        r.nontrivial(&("join", rk, cap, fail_every, n_items.min(3), n_flush, stall_first, snap.pending_len.min(2), snap.is_in_batch));
        let seen: HashSet<u64> = delivered.lock().unwrap().iter().flatten().copied().collect();
        r.observe("join:items-delivered", seen.len() as u64);
        if snap.pending_len > 0 {
            r.observe("join:dropped-with-items-queued", 1);
        }
        if truncated == 0 {
            // nothing was discarded by overflow, so everything that was sent must have reached on_batch
            let missing: Vec<u64> = (1..=n_items).filter(|x| !seen.contains(x)).collect();
            if !missing.is_empty() {
                r.violation(
                    &format!("C08:join:queued-items-not-delivered:{}", rk.name()),
                    &format!("worker terminated but items {:?} never reached on_batch (no overflow happened)", &missing[..missing.len().min(8)]),
                    case.clone(),
                );
            }
        }
        for (k, f) in fired.iter().enumerate().take(registered_at.len()) {
            let n = f.load(Ordering::SeqCst);
            r.observe("join:flush-callbacks-registered", 1);
            if n != 1 {
                r.violation(
                    &format!("C08:join:callback-fired-{}-times:{}", if n == 0 { "zero" } else { "several" }, rk.name()),
                    &format!("flush callback #{} fired {} times by the time the worker thread had terminated", k, n),
                    case.clone(),
                );
            } else {
                r.observe("join:flush-callbacks-fired-once", 1);
            }
        }
    }
}

// ---------------------------------------------------------------------------
// 5. spawn context: WHERE the channel's worker is spawned, and how long that context lives
// ---------------------------------------------------------------------------

/// The calling-context matrix varies where the blocking entry points are CALLED from; here the thing that
/// varies is where `emit_batcher::tokio::spawn` (control: `sync::spawn`) itself is called from - a plain
/// thread, `block_on` of a multi-thread runtime, a task / `spawn_blocking` thread / `LocalSet` on one, a
/// current-thread runtime (`block_on`, task, `LocalSet`), a thread that merely holds an `EnterGuard` - and
/// what becomes of that runtime afterwards: dropped / shut down while the `Sender` lives on, kept but driven
/// by nobody, kept busy. The worker must not depend on the runtime it happened to be spawned from:
///
/// * items sent and flushed from a plain thread afterwards are processed, flush callbacks fire exactly once,
///   `blocking_flush` says true;
/// * a blocking flush / send made from INSIDE the spawning context - for a current-thread runtime that is its
///   only thread - while the worker sits in its idle back-off comes back true / Ok with everything processed;
/// * the worker thread is alive (not finished, not panicked) for as long as the sender is, and ends once the
///   sender is dropped, with everything delivered.
///
/// Verdicts are on results, never on durations: a flush that says false counts only when it waited its whole
/// timeout (4 s) and NOT ONE of the items sent before it reached the (never blocking, never failing)
/// processor; false with progress, and every watchdog, is inconclusive.
#[cfg(all(not(miri), feature = "tokio"))]
mod spawnctx {
    use super::threads::join_bounded;
    use super::*;
    use std::{
        sync::atomic::{AtomicU64, Ordering},
        thread,
        time::Instant,
    };

    /// timeout of every blocking call made here (on the unchanged tree they take milliseconds)
    const T: Duration = Duration::from_secs(4);
    const WATCHDOG: Duration = Duration::from_secs(40);

    #[derive(Clone, Copy, Debug, PartialEq, Eq, Hash)]
    pub enum Rk {
        Tokio,
        Sync,
    }

    impl Rk {
        fn name(self) -> &'static str {
            match self {
                Rk::Tokio => "tokio::spawn",
                Rk::Sync => "sync::spawn",
            }
        }
    }

    #[derive(Clone, Copy, Debug, PartialEq, Eq, Hash)]
    pub enum Origin {
        Plain,
        MtBlockOn,
        MtTask,
        Mt1Task,
        MtSpawnBlocking,
        MtLocalSet,
        MtEnter,
        CtBlockOn,
        CtTask,
        CtLocalSet,
        CtEnter,
    }

    impl Origin {
        const ALL: [Origin; 11] = [
            Origin::Plain,
            Origin::MtBlockOn,
            Origin::MtTask,
            Origin::Mt1Task,
            Origin::MtSpawnBlocking,
            Origin::MtLocalSet,
            Origin::MtEnter,
            Origin::CtBlockOn,
            Origin::CtTask,
            Origin::CtLocalSet,
            Origin::CtEnter,
        ];

        fn name(self) -> &'static str {
            match self {
                Origin::Plain => "plain-thread",
                Origin::MtBlockOn => "mt-block_on",
                Origin::MtTask => "mt-task",
                Origin::Mt1Task => "mt-1-worker-task",
                Origin::MtSpawnBlocking => "mt-spawn_blocking",
                Origin::MtLocalSet => "mt-localset",
                Origin::MtEnter => "mt-enter-guard",
                Origin::CtBlockOn => "current-thread",
                Origin::CtTask => "current-thread-task",
                Origin::CtLocalSet => "current-thread-localset",
                Origin::CtEnter => "current-thread-enter-guard",
            }
        }

        /// the body runs as a future on the runtime (it can await timers there)
        fn has_executor(self) -> bool {
            !matches!(self, Origin::Plain | Origin::MtSpawnBlocking | Origin::MtEnter | Origin::CtEnter)
        }

        fn has_runtime(self) -> bool {
            self != Origin::Plain
        }
    }

    #[derive(Clone, Copy, Debug, PartialEq, Eq, Hash)]
    pub enum Fate {
        /// no runtime to speak of (plain thread)
        NoRuntime,
        Drop,
        ShutdownBackground,
        ShutdownTimeout,
        /// the runtime object stays, nobody is inside `block_on`
        AliveIdle,
        /// the spawning context stays inside the runtime (awaiting) during the outside phase
        AliveBusy,
    }

    impl Fate {
        const OF_A_RUNTIME: [Fate; 5] = [Fate::Drop, Fate::ShutdownBackground, Fate::ShutdownTimeout, Fate::AliveIdle, Fate::AliveBusy];

        fn name(self) -> &'static str {
            match self {
                Fate::NoRuntime => "no-runtime",
                Fate::Drop => "runtime-dropped",
                Fate::ShutdownBackground => "runtime-shutdown_background",
                Fate::ShutdownTimeout => "runtime-shutdown_timeout",
                Fate::AliveIdle => "runtime-alive-driven-by-nobody",
                Fate::AliveBusy => "runtime-alive-busy",
            }
        }

        fn is_dropped(self) -> bool {
            matches!(self, Fate::Drop | Fate::ShutdownBackground | Fate::ShutdownTimeout)
        }

        /// for signatures
        fn when(self) -> &'static str {
            if self.is_dropped() {
                "after-the-spawning-runtime-was-dropped"
            } else if self == Fate::NoRuntime {
                "from-a-plain-thread"
            } else {
                "spawning-runtime-alive"
            }
        }
    }

    #[derive(Clone, Copy, Debug, PartialEq, Eq, Hash)]
    pub enum Flavour {
        Tokio,
        Sync,
    }

    impl Flavour {
        fn flush_name(self) -> &'static str {
            match self {
                Flavour::Tokio => "tokio::blocking_flush",
                Flavour::Sync => "sync::blocking_flush",
            }
        }

        fn send_name(self) -> &'static str {
            match self {
                Flavour::Tokio => "tokio::blocking_send",
                Flavour::Sync => "sync::blocking_send",
            }
        }

        fn flush(self, s: &Sender<Chan>, t: Duration) -> bool {
            match self {
                Flavour::Tokio => emit_batcher::tokio::blocking_flush(s, t),
                Flavour::Sync => emit_batcher::sync::blocking_flush(s, t),
            }
        }

        fn send(self, s: &Sender<Chan>, item: u64, t: Duration) -> Result<(), Option<u64>> {
            match self {
                Flavour::Tokio => emit_batcher::tokio::blocking_send(s, item, t),
                Flavour::Sync => emit_batcher::sync::blocking_send(s, item, t),
            }
            .map_err(|e| e.into_retryable())
        }
    }

    /// What is done inside the spawning context, right after the worker was spawned.
    #[derive(Clone, Copy, Debug, PartialEq, Eq, Hash)]
    pub enum Inside {
        Nothing,
        /// `tokio::send` + `tokio::flush`, awaited (contexts with an executor only)
        AsyncSendFlush,
        /// let the worker go idle, then block this thread in a flush
        BlockingFlush(Flavour),
        /// let the worker go idle, fill the queue, then block this thread in a send
        BlockingSend(Flavour),
    }

    impl Inside {
        const ALL: [Inside; 6] = [
            Inside::Nothing,
            Inside::AsyncSendFlush,
            Inside::BlockingFlush(Flavour::Tokio),
            Inside::BlockingSend(Flavour::Tokio),
            Inside::BlockingFlush(Flavour::Sync),
            Inside::BlockingSend(Flavour::Sync),
        ];

        fn name(self) -> &'static str {
            match self {
                Inside::Nothing => "nothing",
                Inside::AsyncSendFlush => "tokio::send+tokio::flush",
                Inside::BlockingFlush(f) => f.flush_name(),
                Inside::BlockingSend(f) => f.send_name(),
            }
        }
    }

    #[derive(Clone, Copy, Debug, PartialEq, Eq, Hash)]
    pub struct Cell {
        rk: Rk,
        from: Origin,
        fate: Fate,
        inside: Inside,
        /// tokio::spawn only: the processor's future awaits a (sub-millisecond) tokio timer
        timer_in_processor: bool,
    }

    impl Cell {
        fn json(&self, seed: u64) -> Json {
            json!({
                "section": "spawnctx", "seed": seed, "receiver": self.rk.name(), "spawned_from": self.from.name(), "then": self.fate.name(),
                "inside_the_spawning_context": self.inside.name(), "processor_awaits_a_tokio_timer": self.timer_in_processor, "timeout_ms": T.as_millis() as u64,
            })
        }
    }

    /// One blocking (or awaited) call and what it came back with.
    #[derive(Clone, Debug)]
    enum Obs {
        Flush { entry: &'static str, when: &'static str, ret: bool, waited: Duration, new: usize, delivered_new: usize },
        Send { entry: &'static str, when: &'static str, ok: bool, handed_back: Option<u64>, waited: Duration, queued_before: usize, delivered_of_those: usize, was_full: bool },
        Note(String),
    }

    struct Shared {
        delivered: Mutex<Vec<u64>>,
        /// what the context thread is doing (to name a panic)
        phase: Mutex<String>,
        handoff: Done<Result<Handoff, String>>,
    }

    impl Shared {
        fn phase(&self, p: &str) {
            *self.phase.lock().unwrap() = p.to_string();
        }

        fn count(&self, ids: &[u64]) -> usize {
            let d = self.delivered.lock().unwrap();
            ids.iter().filter(|id| d.contains(id)).count()
        }
    }

    struct Handoff {
        sender: Sender<Chan>,
        handle: thread::JoinHandle<()>,
        next: u64,
        sent: Vec<u64>,
        obs: Vec<Obs>,
    }

    fn spawn_worker(cell: Cell, receiver: emit_batcher::Receiver<Chan>, sh: Arc<Shared>) -> std::io::Result<thread::JoinHandle<()>> {
        // a healthy processor: never blocks on anything of the monitor's, never fails
        match cell.rk {
            Rk::Sync => emit_batcher::sync::spawn("c08_spawnctx", receiver, move |batch: Chan| {
                sh.delivered.lock().unwrap().extend(batch);
                Ok(())
            }),
            Rk::Tokio => {
                let timer = cell.timer_in_processor;
                emit_batcher::tokio::spawn("c08_spawnctx", receiver, move |batch: Chan| {
                    let sh = sh.clone();
                    async move {
                        if timer {
                            tokio::time::sleep(Duration::from_micros(300)).await;
                        } else {
                            tokio::task::yield_now().await;
                        }
                        sh.delivered.lock().unwrap().extend(batch);
                        Ok(())
                    }
                })
            }
        }
    }

    async fn nap(exec: bool, d: Duration) {
        if exec {
            tokio::time::sleep(d).await
        } else {
            thread::sleep(d)
        }
    }

    /// Runs inside the spawning context.
    async fn body(cell: Cell, sh: Arc<Shared>, exec: bool, stay: Option<tokio::sync::oneshot::Receiver<()>>) {
        const WHEN: &str = "inside-the-spawning-context";
        sh.phase(&format!("{} called from {}", cell.rk.name(), cell.from.name()));
        let cap = if matches!(cell.inside, Inside::BlockingSend(_)) { 4 } else { 1 << 16 };
        let (sender, receiver) = bounded::<Chan>(cap);
        let handle = match spawn_worker(cell, receiver, sh.clone()) {
            Ok(h) => h,
            Err(e) => {
                sh.handoff.set(Err(format!("io: {}", e)));
                return;
            }
        };
        let mut next = 1u64;
        let mut sent = Vec::new();
        let mut obs = Vec::new();
        match cell.inside {
            Inside::Nothing => {}
            Inside::AsyncSendFlush => {
                let mut new = Vec::new();
                for _ in 0..3 {
                    sh.phase("tokio::send awaited inside the spawning context");
                    let t0 = Instant::now();
                    let res = emit_batcher::tokio::send(&sender, next, T).await.map_err(|e| e.into_retryable());
                    obs.push(Obs::Send { entry: "tokio::send", when: WHEN, ok: res.is_ok(), handed_back: res.err().flatten(), waited: t0.elapsed(), queued_before: 0, delivered_of_those: 0, was_full: false });
                    if res.is_ok() {
                        new.push(next);
                    }
                    next += 1;
                }
                sh.phase("tokio::flush awaited inside the spawning context");
                let t0 = Instant::now();
                let ret = emit_batcher::tokio::flush(&sender, T).await;
                obs.push(Obs::Flush { entry: "tokio::flush", when: WHEN, ret, waited: t0.elapsed(), new: new.len(), delivered_new: sh.count(&new) });
                sent.extend(new);
            }
            Inside::BlockingFlush(_) | Inside::BlockingSend(_) => {
                // let the worker process something first, then sit in its idle back-off
                sh.phase("waiting for the worker to go idle (inside the spawning context)");
                sender.send(next);
                sent.push(next);
                let first = [next];
                next += 1;
                let t0 = Instant::now();
                while sh.count(&first) == 0 {
                    if t0.elapsed() > Duration::from_secs(5) {
                        obs.push(Obs::Note("the first item had not reached the processor 5 s after it was sent from inside the spawning context".into()));
                        break;
                    }
                    nap(exec, Duration::from_millis(1)).await;
                }
                let t0 = Instant::now();
                loop {
                    let snap = sender.verif_snapshot();
                    if (snap.pending_len == 0 && !snap.is_in_batch) || t0.elapsed() > Duration::from_secs(2) {
                        break;
                    }
                    nap(exec, Duration::from_millis(1)).await;
                }
                // (with the delay divisor of this section the idle waits are 0.1, 0.3, ... 50 ms: after 20 ms of
                // nothing to do the worker is inside a sleep of several milliseconds)
                nap(exec, Duration::from_millis(20)).await;
                match cell.inside {
                    Inside::BlockingFlush(fl) => {
                        let new: Vec<u64> = (0..3).map(|k| next + k).collect();
                        next += 3;
                        for id in &new {
                            sender.send(*id);
                        }
                        sh.phase(&format!("{} called inside the spawning context ({})", fl.flush_name(), cell.from.name()));
                        let t0 = Instant::now();
                        let ret = fl.flush(&sender, T);
                        obs.push(Obs::Flush { entry: fl.flush_name(), when: WHEN, ret, waited: t0.elapsed(), new: new.len(), delivered_new: sh.count(&new) });
                        sent.extend(new);
                    }
                    Inside::BlockingSend(fl) => {
                        let mut queued = Vec::new();
                        for _ in 0..cap {
                            if sender.try_send(next).is_ok() {
                                queued.push(next);
                            }
                            next += 1;
                        }
                        let was_full = sender.verif_snapshot().pending_len >= cap;
                        sh.phase(&format!("{} called inside the spawning context ({})", fl.send_name(), cell.from.name()));
                        let item = next;
                        next += 1;
                        let t0 = Instant::now();
                        let res = fl.send(&sender, item, T);
                        obs.push(Obs::Send {
                            entry: fl.send_name(),
                            when: WHEN,
                            ok: res.is_ok(),
                            handed_back: res.err().flatten(),
                            waited: t0.elapsed(),
                            queued_before: queued.len(),
                            delivered_of_those: sh.count(&queued),
                            was_full,
                        });
                        sent.extend(queued);
                        if res.is_ok() {
                            sent.push(item);
                        }
                    }
                    _ => unreachable!(),
                }
            }
        }
        sh.phase("handing the sender to a plain thread");
        sh.handoff.set(Ok(Handoff { sender, handle, next, sent, obs }));
        if let Some(stay) = stay {
            // the spawning context stays alive and busy: awaiting inside the runtime
            let _ = stay.await;
        }
        sh.phase("leaving the spawning context");
    }

    /// For contexts without an executor: the body never really suspends there.
    fn drive<F: Future>(fut: F) -> F::Output {
        let mut fut = Box::pin(fut);
        loop {
            if let Poll::Ready(v) = poll_once(fut.as_mut()) {
                return v;
            }
            thread::yield_now();
        }
    }

    fn joined<T>(res: Result<T, tokio::task::JoinError>) -> T {
        match res {
            Ok(v) => v,
            Err(e) if e.is_panic() => std::panic::resume_unwind(e.into_panic()),
            Err(e) => panic!("the task carrying the spawning context failed: {}", e),
        }
    }

    /// The context thread: build the runtime, run the body in the context, then let the runtime meet its fate.
    fn run_ctx(cell: Cell, sh: Arc<Shared>, stay: tokio::sync::oneshot::Receiver<()>, release: Done<()>, gone: Done<()>) {
        let mt = |n: usize| tokio::runtime::Builder::new_multi_thread().worker_threads(n).enable_all().build().unwrap();
        let ct = || tokio::runtime::Builder::new_current_thread().enable_all().build().unwrap();
        let exec = cell.from.has_executor();
        let stay = if exec && cell.fate == Fate::AliveBusy { Some(stay) } else { None };
        let fut = body(cell, sh.clone(), exec, stay);
        // (`Done::wait` takes the value: wait for the release only once)
        let mut released = false;
        let rt: Option<tokio::runtime::Runtime> = match cell.from {
            Origin::Plain => {
                drive(fut);
                None
            }
            Origin::MtBlockOn => {
                let rt = mt(2);
                rt.block_on(fut);
                Some(rt)
            }
            Origin::MtTask | Origin::Mt1Task => {
                let rt = mt(if cell.from == Origin::Mt1Task { 1 } else { 2 });
                rt.block_on(async move { joined(tokio::spawn(fut).await) });
                Some(rt)
            }
            Origin::MtSpawnBlocking => {
                let rt = mt(2);
                rt.block_on(async move { joined(tokio::task::spawn_blocking(move || drive(fut)).await) });
                Some(rt)
            }
            Origin::MtLocalSet | Origin::CtLocalSet => {
                let rt = if cell.from == Origin::MtLocalSet { mt(2) } else { ct() };
                let local = tokio::task::LocalSet::new();
                rt.block_on(local.run_until(async move { joined(tokio::task::spawn_local(fut).await) }));
                drop(local);
                Some(rt)
            }
            Origin::CtBlockOn => {
                let rt = ct();
                rt.block_on(fut);
                Some(rt)
            }
            Origin::CtTask => {
                let rt = ct();
                rt.block_on(async move { joined(tokio::spawn(fut).await) });
                Some(rt)
            }
            Origin::MtEnter | Origin::CtEnter => {
                let rt = if cell.from == Origin::MtEnter { mt(2) } else { ct() };
                {
                    let _guard = rt.enter();
                    drive(fut);
                    if !cell.fate.is_dropped() {
                        // the guard stays in place during the outside phase
                        let _ = release.wait(WATCHDOG + WATCHDOG);
                        released = true;
                    }
                }
                Some(rt)
            }
        };
        sh.phase(&format!("{} ({})", cell.fate.name(), cell.from.name()));
        match (cell.fate, rt) {
            (Fate::Drop, Some(rt)) => drop(rt),
            (Fate::ShutdownBackground, Some(rt)) => rt.shutdown_background(),
            (Fate::ShutdownTimeout, Some(rt)) => rt.shutdown_timeout(Duration::from_millis(50)),
            (_, rt) => {
                if !released {
                    let _ = release.wait(WATCHDOG + WATCHDOG);
                }
                drop(rt);
            }
        }
        gone.set(());
    }

    fn judge_obs(r: &mut Report, cell: &Cell, case: &Json, obs: &Obs) -> bool {
        let tail = format!("{}:from={}", cell.rk.name(), cell.from.name());
        match obs {
            Obs::Note(n) => {
                r.observe("spawnctx:set-up-notes", 1);
                let _ = n;
                true
            }
            Obs::Flush { entry, when, ret, waited, new, delivered_new } => {
                r.observe(&format!("spawnctx:{}:{}:{}", entry, when, if *ret { "true" } else { "false" }), 1);
                if *ret {
                    if delivered_new < new {
                        let mut c = case.clone();
                        c["call"] = json!({"entry": entry, "when": when, "items_sent_before": new, "of_those_processed_at_return": delivered_new});
                        r.violation(
                            &format!("C08:spawn-ctx:flush-true-but-items-not-processed:{}:{}", tail, when),
                            &format!("{} ({}) returned true but only {} of the {} items sent before it had reached the processor", entry, when, delivered_new, new),
                            c,
                        );
                        return false;
                    }
                    true
                } else if *delivered_new == 0 && *waited >= T {
                    let mut c = case.clone();
                    c["call"] = json!({"entry": entry, "when": when, "items_sent_before": new, "of_those_processed_at_return": 0, "waited_ms": waited.as_millis() as u64});
                    r.violation(
                        &format!("C08:spawn-ctx:flush-false-with-healthy-processor:{}:{}", tail, when),
                        &format!(
                            "a worker started with {} from {}: {} ({}) waited its whole timeout ({:?}) and returned false, and not one of the {} items sent before it reached the processor, which never blocks and never fails",
                            cell.rk.name(), cell.from.name(), entry, when, waited, new
                        ),
                        c,
                    );
                    false
                } else {
                    r.inconclusive(format!("spawnctx {} {}: {} returned false after {:?} with {} of {} items processed (load?)", tail, when, entry, waited, delivered_new, new));
                    false
                }
            }
            Obs::Send { entry, when, ok, handed_back, waited, queued_before, delivered_of_those, was_full } => {
                r.observe(&format!("spawnctx:{}:{}:{}", entry, when, if *ok { "ok" } else { "err" }), 1);
                if *was_full {
                    r.observe("spawnctx:blocking-send-on-a-full-queue-with-an-idle-worker", 1);
                }
                if *ok {
                    true
                } else if *delivered_of_those == 0 && *waited >= T {
                    let mut c = case.clone();
                    c["call"] = json!({"entry": entry, "when": when, "items_queued_before": queued_before, "of_those_processed_at_return": 0, "handed_back": handed_back, "waited_ms": waited.as_millis() as u64});
                    r.violation(
                        &format!("C08:spawn-ctx:send-err-with-healthy-processor:{}:{}", tail, when),
                        &format!(
                            "a worker started with {} from {}: {} ({}) on a full queue waited its whole timeout ({:?}) and gave the item back, and not one of the {} queued items reached the processor, which never blocks and never fails",
                            cell.rk.name(), cell.from.name(), entry, when, waited, queued_before
                        ),
                        c,
                    );
                    false
                } else {
                    r.inconclusive(format!("spawnctx {} {}: {} returned Err after {:?} with {} of {} queued items processed (load?)", tail, when, entry, waited, delivered_of_those, queued_before));
                    false
                }
            }
        }
    }

    pub fn run_cell(r: &mut Report, seed: u64, cell: Cell) {
        r.eval();
        let case = cell.json(seed);
        let tail = format!("{}:from={}", cell.rk.name(), cell.from.name());
        let sh = Arc::new(Shared { delivered: Mutex::new(Vec::new()), phase: Mutex::new(String::new()), handoff: Done::new() });
        let (stay_tx, stay_rx) = tokio::sync::oneshot::channel::<()>();
        let (release, gone): (Done<()>, Done<()>) = (Done::new(), Done::new());
        let ctx_end: Done<Result<(), String>> = Done::new();
        {
            let (sh, release, gone, ctx_end) = (sh.clone(), release.clone(), gone.clone(), ctx_end.clone());
            let spawned = thread::Builder::new().name("c08_spawn_from".into()).spawn(move || {
                let res = catch(|| run_ctx(cell, sh.clone(), stay_rx, release, gone));
                if let Err(msg) = &res {
                    // (nobody reads this if the hand-over already happened)
                    sh.handoff.set(Err(format!("panic: {}", msg)));
                }
                ctx_end.set(res);
            });
            if spawned.is_err() {
                r.inconclusive("spawnctx: could not start the context thread");
                return;
            }
        }
        let finish = |stay_tx: tokio::sync::oneshot::Sender<()>| {
            let _ = stay_tx.send(());
            release.set(());
        };
        let h = match sh.handoff.wait(WATCHDOG) {
            Some(Ok(h)) => h,
            Some(Err(e)) if e.starts_with("panic: ") => {
                let phase = sh.phase.lock().unwrap().clone();
                let mut c = case.clone();
                c["panicked_while"] = json!(phase);
                r.violation(
                    &format!("C08:spawn-ctx:panic:{}", tail),
                    &format!("a panic escaped inside the spawning context ({}) while: {}: {}", cell.from.name(), phase, &e[7..]),
                    c,
                );
                finish(stay_tx);
                return;
            }
            Some(Err(e)) => {
                r.inconclusive(format!("spawnctx {}: the worker could not be spawned: {}", tail, e));
                finish(stay_tx);
                return;
            }
            None => {
                r.inconclusive(format!("spawnctx {}: the spawning context had not handed the sender over within the watchdog (it was: {})", tail, sh.phase.lock().unwrap()));
                finish(stay_tx);
                return;
            }
        };
        let Handoff { sender, handle, mut next, mut sent, obs } = h;
        r.observe(&format!("spawnctx:spawned:{}:from={}", cell.rk.name(), cell.from.name()), 1);
        r.observe(&format!("spawnctx:then:{}", cell.fate.name()), 1);
        r.observe(&format!("spawnctx:inside:{}", cell.inside.name()), 1);
        r.nontrivial(&("spawnctx", cell));
        let mut go_on = true;
        for o in &obs {
            go_on &= judge_obs(r, &cell, &case, o);
        }
        // the spawning runtime meets its fate
        if cell.fate.is_dropped() {
            if gone.wait(WATCHDOG).is_none() {
                r.inconclusive(format!("spawnctx {}: {} had not returned within the watchdog", tail, cell.fate.name()));
                go_on = false;
            } else {
                r.observe("spawnctx:spawning-runtime-gone-while-the-sender-lives", 1);
            }
        }
        // ---- the outside phase: a plain thread (this one) keeps sending and flushing ----
        let when = cell.fate.when();
        let fired: Vec<Arc<AtomicU64>> = (0..3).map(|_| Arc::new(AtomicU64::new(0))).collect();
        let mut registered = 0usize;
        let mut panic_outside = None;
        for round in 0..3usize {
            if !go_on {
                break;
            }
            let fl = if (round + cell.from as usize) % 2 == 0 { Flavour::Tokio } else { Flavour::Sync };
            let new: Vec<u64> = (0..1 + round as u64).map(|k| next + k).collect();
            next += new.len() as u64;
            let res = catch(|| {
                for id in &new {
                    sender.send(*id);
                }
                let f = fired[round].clone();
                sender.when_flushed(move || {
                    f.fetch_add(1, Ordering::SeqCst);
                });
                let t0 = Instant::now();
                let ret = fl.flush(&sender, T);
                (ret, t0.elapsed())
            });
            registered = round + 1;
            match res {
                Err(msg) => {
                    panic_outside = Some((fl.flush_name(), msg));
                    go_on = false;
                }
                Ok((ret, waited)) => {
                    let o = Obs::Flush { entry: fl.flush_name(), when, ret, waited, new: new.len(), delivered_new: sh.count(&new) };
                    go_on &= judge_obs(r, &cell, &case, &o);
                    if ret && fired[round].load(Ordering::SeqCst) != 1 {
                        // the callback was registered before the flush's own: it rides the same or an earlier batch
                        let n = fired[round].load(Ordering::SeqCst);
                        r.violation(
                            &format!("C08:spawn-ctx:callback-fired-{}-times-at-flush:{}:{}", if n == 0 { "zero" } else { "several" }, tail, when),
                            &format!("a flush callback registered before {} ({}) had fired {} times when that flush returned true", fl.flush_name(), when, n),
                            case.clone(),
                        );
                        go_on = false;
                    }
                }
            }
            sent.extend(new);
        }
        if let Some((entry, msg)) = panic_outside {
            r.violation(
                &format!("C08:spawn-ctx:panic:{}:{}", tail, when),
                &format!("{} ({}) panicked on a channel whose worker was started with {} from {}: {}", entry, when, cell.rk.name(), cell.from.name(), msg),
                case.clone(),
            );
        }
        // ---- the worker lives as long as the sender does ----
        if handle.is_finished() {
            let how = match handle.join() {
                Ok(()) => "returned".to_string(),
                Err(p) => format!("panicked: {}", panic_message(&p)),
            };
            let sig = if cell.fate.is_dropped() {
                format!("C08:spawn-ctx:worker-died-after-spawning-runtime-was-dropped:{}", tail)
            } else {
                format!("C08:spawn-ctx:worker-died-while-the-sender-lives:{}", tail)
            };
            let mut c = case.clone();
            c["worker_thread"] = json!(how);
            r.violation(
                &sig,
                &format!(
                    "the worker thread started with {} from {} has ended ({}) although the sender is still alive and the receiver was never dropped ({})",
                    cell.rk.name(), cell.from.name(), how, cell.fate.name()
                ),
                c,
            );
            drop(sender);
            finish(stay_tx);
            let _ = ctx_end.wait(Duration::from_secs(20));
            return;
        }
        r.observe("spawnctx:worker-alive-while-the-sender-lives", 1);
        // ---- the sender goes: the worker delivers what is queued and ends ----
        let tail_items: Vec<u64> = (0..2).map(|k| next + k).collect();
        if go_on {
            for id in &tail_items {
                sender.send(*id);
            }
            sent.extend(tail_items.iter().copied());
        }
        drop(sender);
        match join_bounded(handle, if go_on { WATCHDOG } else { Duration::from_secs(5) }) {
            None => {
                if go_on {
                    r.inconclusive(format!("spawnctx {}: the worker had not terminated within the watchdog after the sender was dropped ({})", tail, cell.fate.name()));
                }
            }
            Some(Err(p)) => {
                r.violation(
                    &format!("C08:spawn-ctx:worker-thread-panicked:{}:{}", tail, when),
                    &format!("the worker thread started with {} from {} ended with a panic ({}): {}", cell.rk.name(), cell.from.name(), cell.fate.name(), panic_message(&p)),
                    case.clone(),
                );
            }
            Some(Ok(())) => {
                r.observe("spawnctx:worker-joined-after-sender-drop", 1);
                if go_on {
                    let missing = sent.len() - sh.count(&sent);
                    r.observe("spawnctx:items-delivered", (sent.len() - missing) as u64);
                    if missing > 0 {
                        r.violation(
                            &format!("C08:spawn-ctx:items-not-delivered-at-termination:{}:{}", tail, when),
                            &format!("the worker terminated but {} of the {} items accepted before the sender was dropped never reached the processor (no overflow happened)", missing, sent.len()),
                            case.clone(),
                        );
                    }
                    let dup = {
                        let d = sh.delivered.lock().unwrap();
                        let set: HashSet<u64> = d.iter().copied().collect();
                        d.len() - set.len()
                    };
                    if dup > 0 {
                        r.violation(
                            &format!("C08:spawn-ctx:items-delivered-twice:{}:{}", tail, when),
                            &format!("{} items reached the never-failing processor more than once", dup),
                            case.clone(),
                        );
                    }
                    for (k, f) in fired.iter().enumerate().take(registered) {
                        let n = f.load(Ordering::SeqCst);
                        if n != 1 {
                            r.violation(
                                &format!("C08:spawn-ctx:callback-fired-{}-times:{}:{}", if n == 0 { "zero" } else { "several" }, tail, when),
                                &format!("flush callback #{} had fired {} times by the time the worker had terminated", k, n),
                                case.clone(),
                            );
                        } else {
                            r.observe("spawnctx:flush-callbacks-fired-once", 1);
                        }
                    }
                }
            }
        }
        finish(stay_tx);
        // the context thread itself (dropping a runtime that is kept, a panic on the way out)
        match ctx_end.wait(Duration::from_secs(20)) {
            Some(Err(msg)) => {
                let phase = sh.phase.lock().unwrap().clone();
                r.violation(
                    &format!("C08:spawn-ctx:panic:{}", tail),
                    &format!("a panic escaped in the spawning context ({}) while: {}: {}", cell.from.name(), phase, msg),
                    case.clone(),
                );
            }
            Some(Ok(())) => {}
            None => r.inconclusive(format!("spawnctx {}: the context thread had not ended 20 s after it was released", tail)),
        }
        if r.wants_sample() && cell.rk == Rk::Tokio && cell.from == Origin::CtBlockOn && cell.fate.is_dropped() {
            let n = sh.delivered.lock().unwrap().len();
            let obs: Vec<String> = obs.iter().map(|o| format!("{:?}", o)).collect();
            r.sample(move || json!({"spawnctx": case, "calls_inside": obs, "items_processed": n}));
        }
    }

    pub fn cells(seed: u64) -> Vec<Cell> {
        let mut out = Vec::new();
        let mut k = seed as usize;
        for rk in [Rk::Tokio, Rk::Sync] {
            for from in Origin::ALL {
                let fates: &[Fate] = if from.has_runtime() { &Fate::OF_A_RUNTIME } else { &[Fate::NoRuntime] };
                for &fate in fates {
                    // what happens inside rotates with the cell and the seed ...
                    let mut inside = Inside::ALL[k % Inside::ALL.len()];
                    k += 1;
                    if inside == Inside::AsyncSendFlush && !from.has_executor() {
                        inside = Inside::Nothing;
                    }
                    out.push(Cell { rk, from, fate, inside, timer_in_processor: k % 2 == 0 });
                }
                // ... and every blocking entry point is called from inside every spawning context that stays alive
                for inside in Inside::ALL {
                    if inside == Inside::Nothing || (inside == Inside::AsyncSendFlush && !from.has_executor()) {
                        continue;
                    }
                    k += 1;
                    let fate = if !from.has_runtime() {
                        Fate::NoRuntime
                    } else if k % 3 == 0 {
                        Fate::Drop
                    } else {
                        Fate::AliveBusy
                    };
                    let c = Cell { rk, from, fate, inside, timer_in_processor: k % 2 == 1 };
                    if !out.contains(&c) {
                        out.push(c);
                    }
                }
            }
        }
        out
    }

    pub fn section(r: &mut Report, args: &Args) {
        // real sleeps between 0.1 and 50 ms in the worker's idle back-off (the logical state is untouched)
        emit_batcher::verif::set_delay_divisor(10);
        let rounds = args.n(1, 6);
        for round in 0..rounds {
            let cs = cells(args.seed.wrapping_add(round * 7919));
            let seed = args.seed;
            par_each(r, &cs, |c, r| run_cell(r, seed, *c));
        }
        emit_batcher::verif::set_delay_divisor(1000);
    }
}

// ---------------------------------------------------------------------------

fn main() {
    let args = Args::parse();
    let mut r = Report::new(
        "C08",
        &args,
        "vt: one evaluation = one seeded (outcome script, sender program) run of Receiver::exec under virtual time; non-trivial = distinct realized \
         per-call sequences (outcome kind, pending-first, first-attempt?) containing at least one failure outcome. ctx: one evaluation = one blocking call; \
         non-trivial = distinct (entry point, calling context, channel state). join: one evaluation = one spawned worker joined after sender drop. \
         spawnctx: one evaluation = one worker spawned from one context; non-trivial = distinct (receiver flavour, spawning context, fate of the spawning runtime, call made inside it)",
    );
    let seed = args.seed;
    let only = args.get("section").map(|s| s.to_string());
    let want = |s: &str| only.as_deref().map(|o| o == s).unwrap_or(true);

    // the hook only acts on a thread whose vt case armed a plan (thread-local); elsewhere it is a no-op
    emit_batcher::verif::set_hook(Some(vt_hook));

    if let Some(path) = &args.replay {
        let case = load_replay(path);
        let section = case.get("section").and_then(|v| v.as_str()).unwrap_or("vt").to_string();
        let cseed = case.get("seed").and_then(|v| v.as_u64()).unwrap_or(seed);
        match section.as_str() {
            "vt" => {
                let idx = case.get("case").and_then(|v| v.as_u64()).unwrap_or(0);
                for k in 0..3 {
                    vt_case(&mut r, cseed, idx + k);
                }
            }
            _ => {
                #[cfg(not(miri))]
                {
                    emit_batcher::verif::set_delay_divisor(1000);
                    let mut a = args.clone();
                    a.seed = cseed;
                    if section == "ctx" {
                        threads::matrix(&mut r, &a);
                    } else if section == "overstay" {
                        let cells = threads::overstay_start(&r, &a);
                        threads::overstay_collect(&mut r, cells);
                    } else if section == "spawnctx" {
                        #[cfg(feature = "tokio")]
                        spawnctx::section(&mut r, &a);
                    } else {
                        threads::termination(&mut r, &a);
                    }
                }
            }
        }
        std::process::exit(r.finish());
    }

    // Every section runs on a helper thread with its own report and a limit, so that nothing the
    // code under test does (a lock that is never released, …) can keep the monitor from ending
    // with a result.
    let sec_limit = Duration::from_secs(if args.thorough() { 1500 } else { 200 });

    // 1. virtual time (delay divisor untouched: the real durations are observed)
    if want("vt") {
        // Miri interprets ~1000x slower: its lane passes an absolute case count instead of a scale
        let n = if cfg!(miri) { args.get_u64("miri-cases", 16) } else { args.n(600_000, 12_000_000) };
        let chunk = 100_000u64;
        let mut start = 0u64;
        while start < n {
            let end = (start + chunk).min(n);
            let args2 = args.clone();
            let ok = bounded_section(&mut r, "vt", Duration::from_secs(if cfg!(miri) { 1400 } else { 75 }), move |r| {
                par_cases(r, &args2, end - start, |i, r| vt_case(r, seed, start + i));
            });
            if !ok {
                diagnose_stuck_vt(&mut r, seed);
                r.observe("vt:cases-completed-before-a-chunk-got-stuck", start);
                break;
            }
            start = end;
        }
        // leave room for a sample of the other sections
        r.samples.truncate(3);
        // the virtual-time verdicts must survive a later section that gets stuck on real threads until the lane
        // watchdog fires (e.g. a change that kills the receiver thread makes every real-thread case wait out its joins)
        let vt_violations = r.violation_count();
        r.checkpoint();
        if vt_violations > 0 {
            // the verdict is settled; the real-thread sections below would only wait out their bounded joins against a
            // receiver that the same defect has most likely killed (minutes per section)
            eprintln!("[c08] {} violations in the virtual-time section: the real-thread sections are skipped", vt_violations);
            std::process::exit(r.finish());
        }
    }

    #[cfg(not(miri))]
    {
        // worker threads sleep for real: scale the delays (the logical back-off state is untouched)
        emit_batcher::verif::set_delay_divisor(1000);
        // the overstay cells mostly sleep (T = 1.2 s each): they run next to the other sections
        let overstay = if want("overstay") { threads::overstay_start(&r, &args) } else { Vec::new() };
        if want("ctx") {
            let args2 = args.clone();
            bounded_section(&mut r, "ctx", sec_limit, move |r| threads::matrix(r, &args2));
        }
        if want("join") {
            let args2 = args.clone();
            bounded_section(&mut r, "join", sec_limit, move |r| threads::termination(r, &args2));
        }
        #[cfg(feature = "tokio")]
        if want("spawnctx") {
            let args2 = args.clone();
            let t0 = r.elapsed_s();
            bounded_section(&mut r, "spawnctx", sec_limit, move |r| spawnctx::section(r, &args2));
            r.set("spawnctx_section_wall_s", json!(r.elapsed_s() - t0));
        }
        if want("sampler") {
            let args2 = args.clone();
            bounded_section(&mut r, "sampler", sec_limit, move |r| {
                let n_s = args2.n(24, 600);
                par_cases(r, &args2, n_s, |i, r| chan_sampler::sampler_case(r, "C08", seed, i));
            });
        }
        threads::overstay_collect(&mut r, overstay);
        emit_batcher::verif::set_delay_divisor(1);
    }

    #[cfg(miri)]
    {
        // a few real worker threads under Miri's scheduler (sync::spawn only; no tokio under Miri)
        emit_batcher::verif::set_delay_divisor(1000);
        if want("join") {
            for i in 0..args.get_u64("miri-join", 2) {
                threads::termination_case(&mut r, seed, i);
            }
        }
        emit_batcher::verif::set_delay_divisor(1);
    }

    std::process::exit(r.finish());
}
