/*!
C02 — property lookup always agrees with enumeration: the first value for a key wins.

Oracle (written from the property statement, not from the implementations): a collection is
enumerated **once** with `for_each` into a list of `(key, value fingerprint)`. From that list the
first-wins map is derived and every other public entry point is compared against it:

* `get(k)` for every probe key (keys of the pool, every enumerated key, prefixes / extensions of
  enumerated keys, well-known keys, keys that are never present) must be the first enumerated
  value for `k` (Display + Debug text and typed casts equal) or `None` if `k` was never enumerated;
* `pull::<T>(k)` must equal `get(k).and_then(cast::<T>)` and the typed cast of the first value;
* `is_unique()` ⇒ no key is enumerated twice;
* `dedup()` yields every enumerated key exactly once with that first value (its order is not
  constrained, see U in the lane file);
* a visitor that returns `Break` at position `i` (every `i`) is never called again and `for_each`
  returns `Break`.

Every collection is checked as the value itself, behind `&`, through `&dyn ErasedProps`, through
`dedup()` (and its erased view) and through `as_map()`.

Workloads:
1. **dynamic trees**: seeded nestings of every collection the public API offers, every edge
   through `&dyn ErasedProps` (continuation-passing, so borrowed views such as ambient-context
   snapshots and `TraceparentCtxtProps` can sit anywhere in a tree);
2. **static shapes**: ~50 fully generic compositions (no erasure) over seeded entries;
3. **macro call sites**: fixed `props!` / `evt!` / `emit!` sites mixing plain, renamed, optional and
   cfg'd keys; besides the coherence checks the rendered message must interpolate every hole.
4. **ambient snapshots** with overridden typed ids (section 2b below).
5. **handed-on collections** (`../shared/c02_handed.rs`): the adapters emit itself wraps around props
   while handing them to a wrapped / erased / forwarded-to context, to filters and to emitters.
*/

use std::{
    cell::{Cell, RefCell},
    collections::{BTreeMap, BTreeSet, HashMap},
    ops::ControlFlow,
    sync::{
        atomic::{AtomicU64, Ordering},
        Arc,
    },
    time::Duration,
};

use emit::{
    platform::thread_local_ctxt::ThreadLocalCtxt, props::ErasedProps, value::ToValue, Ctxt, Emitter, Empty, Event,
    Extent, Frame, Metric, Path, Props, Span, SpanCtxt, SpanId, Str, Template, Timestamp, TraceId, Value,
};
use emit_traceparent::TraceparentCtxt;
use vcommon::*;

/// Section 2c: the collections emit itself hands on to wrapped contexts, filters and emitters.
#[path = "../shared/c02_handed.rs"]
mod c02_handed;

// ---------------------------------------------------------------------------
// model values and entries
// ---------------------------------------------------------------------------

#[derive(Clone, Debug, PartialEq)]
enum Val {
    I(i64),
    U(u64),
    W(u128),
    F(f64),
    B(bool),
    S(String),
    Null,
}

impl ToValue for Val {
    fn to_value(&self) -> Value<'_> {
        match self {
            Val::I(v) => v.to_value(),
            Val::U(v) => v.to_value(),
            Val::W(v) => v.to_value(),
            Val::F(v) => v.to_value(),
            Val::B(v) => v.to_value(),
            Val::S(v) => v.to_value(),
            Val::Null => Value::null(),
        }
    }
}

type Entry = (String, Val);

const POOL: &[&str] = &[
    "", "a", "ab", "abc", "b", "a.b", "a.b.c", "é", "éa", "日本", "日", "😀", " ", "a b", "{a}", "A", "z", "zz", "user.name",
    "k0", "k1", "k10", "\u{0}", "a\u{301}",
];

const WELL_KNOWN: &[&str] = &[
    "evt_kind",
    "span_name",
    "metric_name",
    "metric_agg",
    "metric_value",
    "ts",
    "ts_start",
    "trace_id",
    "span_id",
    "span_parent",
    "lvl",
];

const NEVER: &[&str] = &["never-present", "ts_", "a.", "\u{ffff}"];

/// One shared key buffer per case. When it is non-empty every key of the case is the text of a
/// sub-slice of it (prefixes that start at the same address such as the ancestors of a dotted
/// path, suffixes, infixes, repeated segments = equal text at different addresses), every
/// collection that borrows its keys borrows them from the buffer, and lookups are also made
/// with slices of the buffer. The model compares keys by content only.
#[derive(Clone, Debug, Default)]
struct Arena {
    buf: String,
}

impl Arena {
    fn new(g: &mut Rng) -> Arena {
        let n = 1 + g.usize(4);
        let segs: Vec<&str> = (0..n).map(|_| *g.pick(&["a", "b", "ab", "é", "日", "a", ""])).collect();
        Arena { buf: segs.join(".") }
    }

    fn aliased(&self) -> bool {
        !self.buf.is_empty()
    }

    fn boundaries(&self) -> Vec<usize> {
        self.buf.char_indices().map(|(i, _)| i).chain([self.buf.len()]).collect()
    }

    /// A seeded sub-slice, biased towards slices that start at the start of the buffer.
    fn slice(&self, g: &mut Rng) -> &str {
        let b = self.boundaries();
        let start = if g.chance(3, 5) { 0 } else { g.usize(b.len()) };
        let end = start + g.usize(b.len() - start);
        &self.buf[b[start]..b[end]]
    }

    /// The text of `key` as a slice of the buffer (the first occurrence for even salts, a seeded
    /// occurrence otherwise) or `key` itself if the buffer does not contain it.
    fn kref<'a>(&'a self, key: &'a str, salt: usize) -> &'a str {
        if self.buf.is_empty() {
            return key;
        }
        let n = self.buf.match_indices(key).count();
        if n == 0 {
            return key;
        }
        let nth = if salt % 2 == 0 { 0 } else { (salt / 2) % n };
        match self.buf.match_indices(key).nth(nth) {
            Some((at, _)) => &self.buf[at..at + key.len()],
            None => key,
        }
    }
}

struct Gen {
    g: Rng,
    keys: Vec<String>,
    next: i64,
    arena: Arena,
}

impl Gen {
    fn new(mut g: Rng) -> Gen {
        let nk = 1 + g.usize(6);
        let mut keys = Vec::new();
        let mut arena = Arena::default();
        if g.chance(1, 3) {
            arena = Arena::new(&mut g);
        }
        for _ in 0..nk {
            if arena.aliased() {
                keys.push(arena.slice(&mut g).to_string());
            } else if g.chance(1, 8) {
                keys.push(g.pick(WELL_KNOWN).to_string());
            } else {
                keys.push(g.pick(POOL).to_string());
            }
        }
        Gen { g, keys, next: 0, arena }
    }

    fn key(&mut self) -> String {
        self.g.pick(&self.keys).clone()
    }

    fn val(&mut self) -> Val {
        self.next += 1;
        let g = &mut self.g;
        match g.below(14) {
            // mostly values that are unique within the case, so a wrong entry is visible
            0..=4 => Val::I(1000 + self.next),
            5 => Val::I(*g.pick(&[0, -1, i64::MIN, i64::MAX, 42])),
            6 => Val::U(u64::MAX - g.below(4)),
            7 => Val::W(u128::MAX - g.below(4) as u128),
            8 => Val::F(*g.pick(&[0.5, -0.0, f64::NAN, f64::INFINITY, 1e300, 42.0])),
            9 => Val::B(g.bool()),
            10 | 11 => Val::S(format!("s{}{}", self.next, g.pick(&["", "é", " 日", "😀", "{x}"]))),
            12 => Val::S(
                g.pick(&["", "42", "true", "0000000000000000000000000000002a", "000000000000002a", "info"])
                    .to_string(),
            ),
            _ => Val::Null,
        }
    }

    fn entries(&mut self, max: usize) -> Vec<Entry> {
        let n = self.g.usize(max + 1);
        (0..n).map(|_| (self.key(), self.val())).collect()
    }

    fn distinct_entries(&mut self, max: usize) -> Vec<Entry> {
        let mut seen = BTreeSet::new();
        self.entries(max).into_iter().filter(|(k, _)| seen.insert(k.clone())).collect()
    }
}

// ---------------------------------------------------------------------------
// dynamic collection trees
// ---------------------------------------------------------------------------

#[derive(Clone, Debug)]
enum Node {
    Empty,
    /// 0: `(&str, &Val)`, 1: `(String, Val)`, 2: `(Str, Value)`
    Pair(u8, Entry),
    /// `[(&str, &Val); N]`, N <= 4
    Array(Vec<Entry>),
    /// `&[(String, Val)]`
    Slice(Vec<Entry>),
    /// `Vec<(Str, Value)>` viewed through `&v[..]`
    VecSlice(Vec<Entry>),
    /// 0: `BTreeMap<String, Val>`, 1: `BTreeMap<&str, &Val>`, 2: `BTreeMap<Str, Value>`
    BTree(u8, Vec<Entry>),
    Hash(u8, Vec<Entry>),
    /// `__PrivateMacroProps` (what `props!` builds): distinct keys in any order, optional values
    Macro(Vec<(String, Option<Val>)>),
    Extent(u64, Option<u64>),
    SpanCtxt(Option<u128>, Option<u64>, Option<u64>),
    /// snapshot of a `ThreadLocalCtxt` after pushing these frames (first one optionally as root)
    Frame(bool, Vec<Vec<Entry>>),
    /// `TraceparentCtxtProps` over a `ThreadLocalCtxt`
    Traceparent {
        sampled: bool,
        trace: u128,
        span: u64,
        with_ids_in_inner: bool,
        frames: Vec<Vec<Entry>>,
    },
    OptSome(Box<Node>),
    OptNone,
    /// an outer container of 0..=2 elements that are collections themselves (and may repeat keys):
    /// 0: `[&dyn ErasedProps; N]`, 1: `&[&dyn ErasedProps]`, 2: `Vec<Box<dyn ErasedProps>>` as a slice
    ArrayOf(u8, Vec<Node>),
    And(Box<Node>, Box<Node>),
    /// false: `Box<&dyn ErasedProps>`, true: `Box<dyn ErasedProps>`
    Boxed(bool, Box<Node>),
    Arced(bool, Box<Node>),
    Ref(Box<Node>),
    Dedup(Box<Node>),
    AsMap(Box<Node>),
    Span(String, Box<Node>),
    Metric(String, String, Val, Box<Node>),
    /// `Event::props()` as an emitter sees it after `emit()` appended the ambient context;
    /// view 0: `props()`, 1: `by_ref().props()`, 2: `erase().props()`
    Event {
        own: Box<Node>,
        ambient: Vec<Vec<Entry>>,
        traceparent: bool,
        view: u8,
    },
}

impl Node {
    fn tag(&self) -> &'static str {
        match self {
            Node::Empty => "Empty",
            Node::Pair(0, _) => "PairRef",
            Node::Pair(1, _) => "PairOwned",
            Node::Pair(..) => "PairStrValue",
            Node::Array(_) => "Array",
            Node::Slice(_) => "Slice",
            Node::VecSlice(_) => "VecSlice",
            Node::BTree(..) => "BTreeMap",
            Node::Hash(..) => "HashMap",
            Node::Macro(_) => "MacroProps",
            Node::Extent(..) => "Extent",
            Node::SpanCtxt(..) => "SpanCtxt",
            Node::Frame(..) => "ThreadLocalFrame",
            Node::Traceparent { .. } => "TraceparentCtxtProps",
            Node::OptSome(_) => "Some",
            Node::OptNone => "None",
            Node::ArrayOf(0, _) => "ArrayOfProps",
            Node::ArrayOf(1, _) => "SliceOfProps",
            Node::ArrayOf(..) => "VecOfBoxedProps",
            Node::And(..) => "And",
            Node::Boxed(false, _) => "Box",
            Node::Boxed(true, _) => "BoxDyn",
            Node::Arced(false, _) => "Arc",
            Node::Arced(true, _) => "ArcDyn",
            Node::Ref(_) => "Ref",
            Node::Dedup(_) => "Dedup",
            Node::AsMap(_) => "AsMap",
            Node::Span(..) => "Span",
            Node::Metric(..) => "Metric",
            Node::Event { view: 0, .. } => "EventProps",
            Node::Event { view: 1, .. } => "EventByRefProps",
            Node::Event { .. } => "EventErasedProps",
        }
    }

    fn children(&self) -> Vec<&Node> {
        match self {
            Node::OptSome(a)
            | Node::Boxed(_, a)
            | Node::Arced(_, a)
            | Node::Ref(a)
            | Node::Dedup(a)
            | Node::AsMap(a)
            | Node::Span(_, a)
            | Node::Metric(_, _, _, a) => vec![a],
            Node::Event { own, .. } => vec![own],
            Node::And(a, b) => vec![a, b],
            Node::ArrayOf(_, cs) => cs.iter().collect(),
            _ => vec![],
        }
    }

    /// Structure with sizes but without keys / values: what "distinct shape" means.
    fn shape(&self, out: &mut String) {
        out.push_str(self.tag());
        match self {
            Node::Array(e) | Node::Slice(e) | Node::VecSlice(e) | Node::BTree(_, e) | Node::Hash(_, e) => {
                out.push_str(&e.len().to_string())
            }
            Node::Macro(e) => out.push_str(&e.len().to_string()),
            Node::Frame(_, f) => out.push_str(&f.len().to_string()),
            Node::ArrayOf(_, cs) => out.push_str(&cs.len().to_string()),
            _ => {}
        }
        let ch = self.children();
        if !ch.is_empty() {
            out.push('(');
            for (i, c) in ch.iter().enumerate() {
                if i > 0 {
                    out.push(',');
                }
                c.shape(out);
            }
            out.push(')');
        }
    }
}

fn gen_leaf(x: &mut Gen) -> Node {
    match x.g.below(22) {
        0 => Node::Empty,
        1 | 2 => {
            let k = x.g.below(3) as u8;
            Node::Pair(k, (x.key(), x.val()))
        }
        3..=5 => Node::Array(x.entries(4)),
        6 | 7 => Node::Slice(x.entries(5)),
        8 => Node::VecSlice(x.entries(5)),
        9 | 10 => Node::BTree(x.g.below(3) as u8, x.entries(5)),
        11 | 12 => Node::Hash(x.g.below(3) as u8, x.entries(5)),
        13..=15 => {
            let mut e: Vec<(String, Option<Val>)> = x
                .distinct_entries(4)
                .into_iter()
                .map(|(k, v)| (k, if x.g.chance(1, 4) { None } else { Some(v) }))
                .collect();
            x.g.shuffle(&mut e);
            Node::Macro(e)
        }
        16 => {
            let a = x.g.below(4_000_000_000_000_000_000);
            if x.g.bool() {
                Node::Extent(a, None)
            } else {
                Node::Extent(a, Some(a + x.g.below(1_000_000_000_000)))
            }
        }
        17 => Node::SpanCtxt(
            x.g.bool().then(|| 1 + x.g.below(1 << 40) as u128),
            x.g.bool().then(|| 1 + x.g.below(1 << 40)),
            x.g.bool().then(|| 1 + x.g.below(1 << 40)),
        ),
        18 | 19 => {
            let n = 1 + x.g.usize(3);
            Node::Frame(x.g.bool(), (0..n).map(|_| x.distinct_entries(3)).collect())
        }
        20 => {
            let n = x.g.usize(3);
            Node::Traceparent {
                sampled: x.g.chance(3, 4),
                trace: 1 + x.g.below(1 << 40) as u128,
                span: 1 + x.g.below(1 << 40),
                with_ids_in_inner: x.g.chance(1, 3),
                frames: (0..n).map(|_| x.distinct_entries(3)).collect(),
            }
        }
        _ => Node::OptNone,
    }
}

fn gen_node(x: &mut Gen, depth: u32) -> Node {
    let leaf_odds = match depth {
        0 => 1,
        1 => 3,
        2 => 5,
        _ => 10,
    };
    if x.g.below(10) < leaf_odds {
        return gen_leaf(x);
    }
    let d = depth + 1;
    match x.g.below(23) {
        20..=22 => {
            // short outer containers: length 1 most of the time
            let n = *x.g.pick(&[0usize, 1, 1, 1, 2]);
            let kind = x.g.below(3) as u8;
            Node::ArrayOf(kind, (0..n).map(|_| gen_node(x, d)).collect())
        }
        0..=5 => Node::And(Box::new(gen_node(x, d)), Box::new(gen_node(x, d))),
        6 => Node::OptSome(Box::new(gen_node(x, d))),
        7 | 8 => Node::Boxed(x.g.bool(), Box::new(gen_node(x, d))),
        9 | 10 => Node::Arced(x.g.bool(), Box::new(gen_node(x, d))),
        11 => Node::Ref(Box::new(gen_node(x, d))),
        12 | 13 => Node::Dedup(Box::new(gen_node(x, d))),
        14 => Node::AsMap(Box::new(gen_node(x, d))),
        15 => Node::Span(x.key(), Box::new(gen_node(x, d))),
        16 => Node::Metric(x.key(), x.key(), x.val(), Box::new(gen_node(x, d))),
        _ => {
            let n = x.g.usize(3);
            Node::Event {
                own: Box::new(gen_node(x, d)),
                ambient: (0..n).map(|_| x.distinct_entries(3)).collect(),
                traceparent: x.g.chance(1, 3),
                view: x.g.below(3) as u8,
            }
        }
    }
}

thread_local! {
    static TL: ThreadLocalCtxt = ThreadLocalCtxt::new();
}

fn tl() -> ThreadLocalCtxt {
    TL.with(|c| *c)
}

fn ts(nanos: u64) -> Timestamp {
    vcommon::rec::ts_from_nanos(nanos)
}

fn extent_of(a: u64, b: Option<u64>) -> Extent {
    match b {
        None => Extent::point(ts(a)),
        Some(b) => Extent::range(ts(a)..ts(b)),
    }
}

fn span_ctxt_of(t: Option<u128>, p: Option<u64>, s: Option<u64>) -> SpanCtxt {
    SpanCtxt::new(
        t.and_then(TraceId::from_u128),
        p.and_then(SpanId::from_u64),
        s.and_then(SpanId::from_u64),
    )
}

type K<'k> = &'k mut dyn FnMut(&dyn ErasedProps);

/// Push `frames` one inside the other on `ctxt`, then run `k` in the innermost scope.
fn in_frames<C: Ctxt + Copy>(ctxt: C, root_first: bool, frames: &[Vec<Entry>], k: &mut dyn FnMut()) {
    match frames.split_first() {
        None => k(),
        Some((f, rest)) => {
            let frame = if root_first {
                Frame::root(ctxt, &f[..])
            } else {
                Frame::push(ctxt, &f[..])
            };
            frame.call(|| in_frames(ctxt, false, rest, k))
        }
    }
}

struct KEmitter<'a, 'b> {
    k: RefCell<&'a mut (dyn FnMut(&dyn ErasedProps) + 'b)>,
    view: u8,
}

impl<'a, 'b> Emitter for KEmitter<'a, 'b> {
    fn emit<E: emit::event::ToEvent>(&self, evt: E) {
        let evt = evt.to_event();
        let mut k = self.k.borrow_mut();
        match self.view {
            0 => (*k)(evt.props()),
            1 => (*k)(evt.by_ref().props()),
            _ => (*k)(evt.erase().props()),
        }
    }

    fn blocking_flush(&self, _: Duration) -> bool {
        true
    }
}

const MDL: Path<'static> = Path::new_raw("c02");

/// Build the collection `node` describes and hand it to `k` (exactly once).
fn with_node(node: &Node, ar: &Arena, k: K<'_>) {
    match node {
        Node::Empty => k(&Empty),
        Node::Pair(0, (key, val)) => k(&(ar.kref(key, key.len()), val)),
        Node::Pair(1, (key, val)) => k(&(key.clone(), val.clone())),
        Node::Pair(_, (key, val)) if ar.aliased() => k(&(Str::new_ref(ar.kref(key, key.len() + 1)), val.to_value())),
        Node::Pair(_, (key, val)) => k(&(Str::new_owned(key.clone()), val.to_value())),
        Node::Array(es) => {
            let p = |i: usize| (ar.kref(&es[i].0, i), &es[i].1);
            match es.len() {
                0 => k(&([] as [(&str, &Val); 0])),
                1 => k(&[p(0)]),
                2 => k(&[p(0), p(1)]),
                3 => k(&[p(0), p(1), p(2)]),
                _ => k(&[p(0), p(1), p(2), p(3)]),
            }
        }
        Node::Slice(es) => {
            let s: &[(String, Val)] = &es[..];
            k(&s)
        }
        Node::VecSlice(es) => {
            let v: Vec<(Str, Value)> = es.iter().enumerate().map(|(i, (key, val))| (Str::new_ref(ar.kref(key, i + 1)), val.to_value())).collect();
            k(&&v[..])
        }
        Node::BTree(0, es) => k(&es.iter().cloned().collect::<BTreeMap<String, Val>>()),
        Node::BTree(1, es) => k(&es.iter().enumerate().map(|(i, (a, b))| (ar.kref(a, i), b)).collect::<BTreeMap<&str, &Val>>()),
        Node::BTree(_, es) => k(&es
            .iter()
            .enumerate()
            .map(|(i, (a, b))| (Str::new_ref(ar.kref(a, i + 1)), b.to_value()))
            .collect::<BTreeMap<Str, Value>>()),
        Node::Hash(0, es) => k(&es.iter().cloned().collect::<HashMap<String, Val>>()),
        Node::Hash(1, es) => k(&es.iter().enumerate().map(|(i, (a, b))| (ar.kref(a, i), b)).collect::<HashMap<&str, &Val>>()),
        Node::Hash(_, es) => k(&es
            .iter()
            .enumerate()
            .map(|(i, (a, b))| (Str::new_ref(ar.kref(a, i + 1)), b.to_value()))
            .collect::<HashMap<Str, Value>>()),
        Node::Macro(es) => {
            use emit::__private::__PrivateMacroProps as M;
            let p = |i: usize| (Str::new_ref(ar.kref(&es[i].0, i)), es[i].1.as_ref().map(|v| v.to_value()));
            match es.len() {
                0 => k(&M::from_array([])),
                1 => k(&M::from_array([p(0)])),
                2 => k(&M::from_array([p(0), p(1)])),
                3 => k(&M::from_array([p(0), p(1), p(2)])),
                _ => k(&M::from_array([p(0), p(1), p(2), p(3)])),
            }
        }
        Node::Extent(a, b) => k(&extent_of(*a, *b)),
        Node::SpanCtxt(t, p, s) => k(&span_ctxt_of(*t, *p, *s)),
        Node::Frame(root_first, frames) => {
            let ctxt = tl();
            in_frames(ctxt, *root_first, frames, &mut || ctxt.with_current(|cur| k(cur)));
        }
        Node::Traceparent {
            sampled,
            trace,
            span,
            with_ids_in_inner,
            frames,
        } => {
            let ctxt = TraceparentCtxt::new(tl());
            let sc = span_ctxt_of(Some(*trace), None, Some(*span));
            // ids pushed straight into the inner context are enumerated a second time
            let direct = [("trace_id", "from-inner"), ("span_id", "from-inner")];
            let inner = if *with_ids_in_inner {
                Some(Frame::push(tl(), direct))
            } else {
                None
            };
            let mut body = || {
                let outer = if *sampled {
                    Frame::push(ctxt, sc)
                } else {
                    Frame::disabled(ctxt, sc)
                };
                outer.call(|| in_frames(ctxt, false, frames, &mut || ctxt.with_current(|cur| k(cur))))
            };
            match inner {
                Some(f) => f.call(body),
                None => body(),
            }
        }
        Node::OptSome(a) => with_node(a, ar, &mut |p| k(&Some(p))),
        Node::OptNone => k(&None::<(&str, &Val)>),
        Node::ArrayOf(kind, cs) => {
            let kind = *kind;
            match &cs[..] {
                [] => match kind {
                    0 => k(&([] as [&dyn ErasedProps; 0])),
                    1 => {
                        let s: &[&dyn ErasedProps] = &[];
                        k(&s)
                    }
                    _ => k(&Vec::<Box<dyn ErasedProps>>::new().into_boxed_slice()),
                },
                [a] => with_node(a, ar, &mut |pa| match kind {
                    0 => k(&[pa]),
                    1 => {
                        let arr = [pa];
                        let s: &[&dyn ErasedProps] = &arr;
                        k(&s)
                    }
                    _ => {
                        let v: Vec<Box<dyn ErasedProps + '_>> = vec![Box::new(pa)];
                        k(&&v[..])
                    }
                }),
                [a, b, ..] => with_node(a, ar, &mut |pa| {
                    with_node(b, ar, &mut |pb| match kind {
                        0 => k(&[pa, pb]),
                        1 => {
                            let arr = [pa, pb];
                            let s: &[&dyn ErasedProps] = &arr;
                            k(&s)
                        }
                        _ => {
                            let v: Vec<Box<dyn ErasedProps + '_>> = vec![Box::new(pa), Box::new(pb)];
                            k(&&v[..])
                        }
                    })
                }),
            }
        }
        Node::And(a, b) => with_node(a, ar, &mut |pa| with_node(b, ar, &mut |pb| k(&pa.and_props(pb)))),
        Node::Boxed(false, a) => with_node(a, ar, &mut |p| k(&Box::new(p))),
        Node::Boxed(true, a) => with_node(a, ar, &mut |p| {
            let b: Box<dyn ErasedProps + '_> = Box::new(p);
            k(&b)
        }),
        Node::Arced(false, a) => with_node(a, ar, &mut |p| k(&Arc::new(p))),
        Node::Arced(true, a) => with_node(a, ar, &mut |p| {
            let b: Arc<dyn ErasedProps + '_> = Arc::new(p);
            k(&b)
        }),
        Node::Ref(a) => with_node(a, ar, &mut |p| k(&&p)),
        Node::Dedup(a) => with_node(a, ar, &mut |p| k(Props::dedup(&p))),
        Node::AsMap(a) => with_node(a, ar, &mut |p| k(Props::as_map(&p))),
        Node::Span(name, a) => with_node(a, ar, &mut |p| k(&Span::new(MDL, ar.kref(name, 1), Empty, p))),
        Node::Metric(name, agg, val, a) => with_node(a, ar, &mut |p| {
            k(&Metric::new(MDL, ar.kref(name, 0), ar.kref(agg, 3), Empty, val.to_value(), p))
        }),
        Node::Event {
            own,
            ambient,
            traceparent,
            view,
        } => with_node(own, ar, &mut |po| {
            let evt = Event::new(MDL, Template::literal("c02"), Empty, po);
            if *traceparent {
                let ctxt = TraceparentCtxt::new(tl());
                let sc = span_ctxt_of(Some(7), None, Some(9));
                Frame::push(ctxt, sc).call(|| {
                    in_frames(ctxt, false, ambient, &mut || {
                        let em = KEmitter {
                            k: RefCell::new(&mut *k),
                            view: *view,
                        };
                        emit::emit(&em, Empty, ctxt, Empty, &evt);
                    })
                });
            } else {
                let ctxt = tl();
                in_frames(ctxt, false, ambient, &mut || {
                    let em = KEmitter {
                        k: RefCell::new(&mut *k),
                        view: *view,
                    };
                    emit::emit(&em, Empty, ctxt, Empty, &evt);
                });
            }
        }),
    }
}

// ---------------------------------------------------------------------------
// the oracle
// ---------------------------------------------------------------------------

/// Everything observable about a value that the comparison uses.
#[derive(Clone, Debug, PartialEq)]
struct Fp {
    disp: String,
    dbg: String,
    i: Option<i64>,
    f: Option<u64>,
    b: Option<bool>,
    s: Option<String>,
    /// representation: 1 = a typed `TraceId`, 2 = a typed `SpanId`, 0 = anything else
    tag: u8,
}

fn fp(v: &Value) -> Fp {
    Fp {
        tag: if v.downcast_ref::<TraceId>().is_some() {
            1
        } else if v.downcast_ref::<SpanId>().is_some() {
            2
        } else {
            0
        },
        disp: v.to_string(),
        dbg: format!("{:?}", v),
        i: v.by_ref().cast::<i64>(),
        f: v.by_ref().cast::<f64>().map(f64::to_bits),
        b: v.by_ref().cast::<bool>(),
        s: v.by_ref().cast::<String>(),
    }
}

struct Cx<'a> {
    /// what the violation signature names: root constructor / static shape / call site
    kind: &'a str,
    probes: &'a [String],
    /// the case's shared key buffer ("" if keys are independent allocations)
    buf: &'a str,
    case: &'a dyn Fn() -> Json,
}

fn char_prefix(s: &str) -> Option<&str> {
    let mut it = s.char_indices();
    it.next_back().map(|(i, _)| &s[..i])
}

fn probe_keys(cx: &Cx, list: &[(String, Fp)]) -> Vec<String> {
    let mut set: BTreeSet<String> = cx.probes.iter().cloned().collect();
    // under Miri: one neighbourhood instead of six
    let mut derived = if tiny() { 5 } else { 0 };
    for (k, _) in list {
        // neighbours (extensions, prefixes) of the first few enumerated keys
        if set.insert(k.clone()) && derived < 6 {
            derived += 1;
            set.insert(format!("{}x", k));
            set.insert(format!("{}\u{0}", k));
            if let Some(p) = char_prefix(k) {
                set.insert(p.to_string());
            }
        }
    }
    set.into_iter().collect()
}

fn viol(r: &mut Report, cx: &Cx, what: &str, view: &str, detail: String) {
    let mut case = (cx.case)();
    if let Some(o) = case.as_object_mut() {
        o.insert("view".into(), json!(view));
        o.insert("detail".into(), json!(detail.clone()));
    }
    // ambient snapshots: the signature also names the class of the key that was looked up
    let class = KEY_CLASS.with(|c| c.get());
    if cx.kind.starts_with("ambient-snapshot") && !class.is_empty() {
        r.violation(&format!("C02:{}:{}:{}:{}", what, view, cx.kind, class), &detail, case);
    } else {
        r.violation(&format!("C02:{}:{}:{}", what, view, cx.kind), &detail, case);
    }
}

thread_local! {
    static KEY_CLASS: Cell<&'static str> = const { Cell::new("") };
}

const ID_KEYS: [&str; 3] = ["trace_id", "span_id", "span_parent"];

/// The coherence check of one view of one collection. Returns what enumeration yielded.
fn check_view<P: Props + ?Sized>(r: &mut Report, cx: &Cx, p: &P, view: &str) -> Vec<(String, Fp)> {
    r.observe("views-checked", 1);

    // 1. enumerate once
    let mut list: Vec<(String, Fp)> = Vec::new();
    let mut handed: Vec<Str> = Vec::new();
    let _ = p.for_each(|k, v| {
        list.push((k.get().to_string(), fp(&v)));
        handed.push(k);
        ControlFlow::Continue(())
    });
    r.observe("entries-enumerated", list.len() as u64);
    let mut first: BTreeMap<&str, usize> = BTreeMap::new();
    let mut dup: Option<&str> = None;
    for (i, (k, _)) in list.iter().enumerate() {
        if first.contains_key(k.as_str()) {
            dup = Some(k);
        } else {
            first.insert(k, i);
        }
    }

    // 2. a collection that claims uniqueness never enumerates a key twice
    if p.is_unique() {
        r.observe("unique-claims", 1);
        if let Some(k) = dup {
            viol(
                r,
                cx,
                "unique-but-key-enumerated-twice",
                view,
                format!("is_unique() is true but key {:?} was enumerated more than once: {:?}", k, keys_of(&list)),
            );
        }
    }

    // 3. lookups
    let probes = probe_keys(cx, &list);
    let ambient = cx.kind.starts_with("ambient-snapshot");
    // what a context implementation reads from the props it is handed: the typed ids too
    let typed_pulls = ambient || cx.kind.starts_with("props-handed-to-");
    for (n, k) in probes.iter().enumerate() {
        if ambient {
            KEY_CLASS.with(|c| c.set(if ID_KEYS.contains(&k.as_str()) { "id-key" } else { "ordinary-key" }));
        }
        let want = first.get(k.as_str()).map(|i| &list[*i].1);
        let got = match n % 3 {
            0 => p.get(k.as_str()),
            1 => p.get(Str::new_ref(k)),
            _ => p.get(k),
        }
        .map(|v| fp(&v));
        match (want, &got) {
            (Some(_), Some(_)) | (Some(_), None) => r.observe("lookups-of-present-keys", 1),
            _ => r.observe("lookups-of-absent-keys", 1),
        }
        let get_agrees = want == got.as_ref();
        match (want, &got) {
            (None, None) => {}
            (Some(w), Some(g)) if w == g => {}
            (Some(w), Some(g)) => viol(
                r,
                cx,
                "get-is-not-first-enumerated",
                view,
                format!("get({:?}) = {} but the first enumerated value is {} (enumerated: {:?})", k, g.dbg, w.dbg, show(&list)),
            ),
            (Some(w), None) => viol(
                r,
                cx,
                "get-none-but-enumerated",
                view,
                format!("get({:?}) = None but enumeration yields {} (enumerated: {:?})", k, w.dbg, show(&list)),
            ),
            (None, Some(g)) => viol(
                r,
                cx,
                "get-some-but-never-enumerated",
                view,
                format!("get({:?}) = {} but enumeration never yields that key (enumerated: {:?})", k, g.dbg, show(&list)),
            ),
        }

        // typed pulls: present keys and a few absent ones
        if get_agrees && (want.is_some() || n % 4 == 0) {
            r.observe("pulls", 5);
            let key = k.as_str();
            let mut bad: Vec<String> = Vec::new();
            {
                let pulled = p.pull::<i64, _>(key);
                let via = p.get(key).and_then(|v| v.cast::<i64>());
                if pulled != via || pulled != want.and_then(|w| w.i) {
                    bad.push(format!("i64: pull {:?}, get().cast() {:?}, first enumerated {:?}", pulled, via, want.and_then(|w| w.i)));
                }
            }
            if !tiny() {
                {
                    let pulled = p.pull::<f64, _>(key).map(f64::to_bits);
                    let via = p.get(key).and_then(|v| v.cast::<f64>()).map(f64::to_bits);
                    if pulled != via || pulled != want.and_then(|w| w.f) {
                        bad.push(format!("f64 bits: pull {:?}, get().cast() {:?}, first enumerated {:?}", pulled, via, want.and_then(|w| w.f)));
                    }
                }
                {
                    let pulled = p.pull::<bool, _>(key);
                    let via = p.get(key).and_then(|v| v.cast::<bool>());
                    if pulled != via || pulled != want.and_then(|w| w.b) {
                        bad.push(format!("bool: pull {:?}, get().cast() {:?}, first enumerated {:?}", pulled, via, want.and_then(|w| w.b)));
                    }
                }
                {
                    let pulled = p.pull::<String, _>(key);
                    let via = p.get(key).and_then(|v| v.cast::<String>());
                    if pulled != via || pulled != want.and_then(|w| w.s.clone()) {
                        bad.push(format!("String: pull {:?}, get().cast() {:?}, first enumerated {:?}", pulled, via, want.and_then(|w| w.s.clone())));
                    }
                }
            }
            if typed_pulls {
                // what span machinery reads from a snapshot
                r.observe("pulls", 4);
                let pulled = p.pull::<TraceId, _>(key);
                let via = p.get(key).and_then(|v| v.cast::<TraceId>());
                if pulled != via {
                    bad.push(format!("TraceId: pull {:?}, get().cast() {:?}", pulled, via));
                }
                let pulled = p.pull::<SpanId, _>(key);
                let via = p.get(key).and_then(|v| v.cast::<SpanId>());
                if pulled != via {
                    bad.push(format!("SpanId: pull {:?}, get().cast() {:?}", pulled, via));
                }
                let pulled = p.pull::<u64, _>(key);
                let via = p.get(key).and_then(|v| v.cast::<u64>());
                if pulled != via {
                    bad.push(format!("u64: pull {:?}, get().cast() {:?}", pulled, via));
                }
                let pulled = p.pull::<&str, _>(key);
                let via = p.get(key).and_then(|v| v.cast::<&str>());
                if pulled != via {
                    bad.push(format!("&str: pull {:?}, get().cast() {:?}", pulled, via));
                }
            }
            {
                let pulled = p.pull::<Value, _>(key).map(|v| fp(&v));
                if pulled.as_ref() != want {
                    bad.push(format!("Value: pull {:?}, first enumerated {:?}", pulled.map(|f| f.dbg), want.map(|w| &w.dbg)));
                }
            }
            if !bad.is_empty() {
                viol(
                    r,
                    cx,
                    "pull-differs",
                    view,
                    format!("pull({:?}) disagrees: {} (enumerated: {:?})", k, bad.join("; "), show(&list)),
                );
            }
        }
    }

    KEY_CLASS.with(|c| c.set(""));

    // 3b. lookups with keys that share storage with the collection's own keys: the `Str`s the
    // visitor was handed, and (when the case has a shared key buffer) every occurrence of the
    // probe's text inside that buffer. Keys are compared by content in the model.
    {
        let alias_lookup = |r: &mut Report, how: &str, key: Str, text: &str| {
            let want = first.get(text).map(|i| &list[*i].1);
            let got = p.get(key).map(|v| fp(&v));
            r.observe("lookups-with-aliased-keys", 1);
            if want != got.as_ref() {
                viol(
                    r,
                    cx,
                    "get-with-aliased-key-is-not-first-enumerated",
                    view,
                    format!(
                        "get({:?}) with {} = {:?} but the first enumerated value for that text is {:?} (enumerated: {:?}, key buffer {:?})",
                        text,
                        how,
                        got.map(|g| g.dbg),
                        want.map(|w| &w.dbg),
                        show(&list),
                        cx.buf
                    ),
                );
            }
        };
        let max_handed = if cx.buf.is_empty() { 4 } else { 12 };
        let mut seen: BTreeSet<(usize, usize)> = BTreeSet::new();
        for (i, k) in handed.iter().enumerate() {
            // distinct (address, length) only
            if seen.len() >= max_handed || !seen.insert((k.get().as_ptr() as usize, k.get().len())) {
                continue;
            }
            alias_lookup(r, "the Str the visitor was handed", k.by_ref(), &list[i].0);
        }
        if !cx.buf.is_empty() && !tiny() {
            for k in probes.iter() {
                let n = cx.buf.match_indices(k.as_str()).count();
                for nth in [0, n.saturating_sub(1)] {
                    if let Some((at, _)) = cx.buf.match_indices(k.as_str()).nth(nth) {
                        let slice = &cx.buf[at..at + k.len()];
                        alias_lookup(r, "a slice of the shared key buffer", Str::new_ref(slice), k);
                    }
                    if n <= 1 {
                        break;
                    }
                }
            }
        }
    }

    // 4. enumeration stops as soon as the visitor asks it to
    for i in 0..list.len() {
        let mut calls = 0usize;
        let flow = p.for_each(|_, _| {
            calls += 1;
            if calls == i + 1 {
                ControlFlow::Break(())
            } else {
                ControlFlow::Continue(())
            }
        });
        r.observe("break-runs", 1);
        if calls > i + 1 {
            viol(
                r,
                cx,
                "visitor-called-after-break",
                view,
                format!("visitor returned Break at position {} of {} and was called {} more time(s)", i, list.len(), calls - i - 1),
            );
        } else if calls == i + 1 && flow.is_continue() {
            viol(
                r,
                cx,
                "for_each-continue-after-break",
                view,
                format!("visitor returned Break at position {} of {} but for_each returned Continue", i, list.len()),
            );
        } else if calls < i + 1 {
            r.inconclusive(format!(
                "a second enumeration of a {} yielded fewer entries than the first; break positions beyond it were not exercised",
                cx.kind
            ));
        }
    }

    list
}

fn keys_of(list: &[(String, Fp)]) -> Vec<&str> {
    list.iter().map(|(k, _)| k.as_str()).collect()
}

fn show(list: &[(String, Fp)]) -> Vec<(&str, &str)> {
    list.iter().map(|(k, v)| (k.as_str(), v.dbg.as_str())).collect()
}

/// `dedup()` of a collection against the first-wins map of the collection itself.
fn check_dedup(r: &mut Report, cx: &Cx, list: &[(String, Fp)], dl: &[(String, Fp)], view: &str) {
    r.observe("dedup-views", 1);
    let mut first: BTreeMap<&str, &Fp> = BTreeMap::new();
    for (k, v) in list {
        first.entry(k).or_insert(v);
    }
    let mut seen: BTreeSet<&str> = BTreeSet::new();
    for (k, v) in dl {
        if !seen.insert(k) {
            viol(r, cx, "dedup-yields-key-twice", view, format!("dedup() yields {:?} twice: {:?} (source: {:?})", k, show(dl), show(list)));
        }
        match first.get(k.as_str()) {
            None => viol(r, cx, "dedup-invents-key", view, format!("dedup() yields {:?} which the source never enumerates", k)),
            Some(w) if *w != v => viol(
                r,
                cx,
                "dedup-non-first-value",
                view,
                format!("dedup() yields {:?} = {} but the first value is {} (source: {:?})", k, v.dbg, w.dbg, show(list)),
            ),
            _ => {}
        }
    }
    for k in first.keys() {
        if !seen.contains(k) {
            viol(r, cx, "dedup-misses-key", view, format!("dedup() never yields {:?}: {:?} (source: {:?})", k, show(dl), show(list)));
        }
    }
}

struct Facts {
    entries: usize,
    has_dup: bool,
}

/// All views of one sized collection. Once a view has failed the remaining views of the same
/// collection are skipped (they would repeat the same finding under other signatures).
fn check_all<P: Props>(r: &mut Report, cx: &Cx, p: &P) -> Facts {
    let before = r.violation_count();
    let list = check_view(r, cx, p, "value");
    let mut seen = BTreeSet::new();
    let has_dup = list.iter().any(|(k, _)| !seen.insert(k.as_str()));
    let facts = Facts {
        entries: list.len(),
        has_dup,
    };
    if r.violation_count() != before {
        return facts;
    }
    check_view::<&P>(r, cx, &p, "ref");
    if r.violation_count() != before {
        return facts;
    }
    check_view::<dyn ErasedProps>(r, cx, p as &dyn ErasedProps, "erased");
    if r.violation_count() != before {
        return facts;
    }
    let d = p.dedup();
    let dl = check_view(r, cx, d, "dedup");
    check_dedup(r, cx, &list, &dl, "dedup");
    if r.violation_count() != before {
        return facts;
    }
    let dl = check_view::<dyn ErasedProps>(r, cx, d as &dyn ErasedProps, "dedup-erased");
    check_dedup(r, cx, &list, &dl, "dedup-erased");
    if r.violation_count() != before {
        return facts;
    }
    check_view(r, cx, p.as_map(), "as_map");
    facts
}

fn note_facts(r: &mut Report, f: &Facts, shape: &str) {
    r.observe("collections", 1);
    if f.entries >= 2 {
        r.observe("collections-with-2+-entries", 1);
    }
    if f.has_dup {
        r.observe("collections-with-duplicate-keys", 1);
    }
    if f.entries >= 2 && f.has_dup && r.distinct_nontrivial() < 250_000 {
        // (bounded per worker so the thorough tier's hash set stays small)
        r.nontrivial(shape);
    }
}

/// Check a dynamic tree; violations are reported against the smallest failing subtree.
fn check_tree(r: &mut Report, node: &Node, ar: &Arena, probes: &[String], case: &dyn Fn() -> Json) {
    r.eval();
    let mut scratch = r.child();
    let facts = run_tree(&mut scratch, node, ar, probes, case);
    if ar.aliased() {
        scratch.observe("collections-with-keys-borrowed-from-one-buffer", 1);
    }
    fn short_container(n: &Node) -> bool {
        matches!(n, Node::ArrayOf(_, cs) if cs.len() <= 1) || n.children().iter().any(|c| short_container(c))
    }
    if short_container(node) {
        scratch.observe("trees-with-a-0-or-1-element-container-of-collections", 1);
    }
    if scratch.violations.is_empty() {
        let mut shape = String::new();
        node.shape(&mut shape);
        if let Some(f) = &facts {
            note_facts(&mut scratch, f, &shape);
            if scratch.wants_sample() && f.entries >= 3 && f.has_dup {
                let c = case();
                scratch.sample(move || c);
            }
        }
        r.merge(scratch);
        return;
    }
    // localise: descend while some child fails on its own
    let mut culprit = node;
    let mut report = scratch;
    'descend: loop {
        for c in culprit.children() {
            let mut s = r.child();
            run_tree(&mut s, c, ar, probes, case);
            if !s.violations.is_empty() {
                culprit = c;
                report = s;
                continue 'descend;
            }
        }
        break;
    }
    r.merge(report);
}

fn run_tree(r: &mut Report, node: &Node, ar: &Arena, probes: &[String], case: &dyn Fn() -> Json) -> Option<Facts> {
    let kind = node.tag();
    let sub = format!("{:?}", node);
    let case2 = || {
        let mut c = case();
        if let Some(o) = c.as_object_mut() {
            o.insert("failing_subtree".into(), json!(sub));
        }
        c
    };
    let cx = Cx {
        kind,
        probes,
        buf: &ar.buf,
        case: &case2,
    };
    let mut facts = None;
    let mut calls = 0;
    let res = catch(|| {
        with_node(node, ar, &mut |p| {
            calls += 1;
            // `p` is `&dyn ErasedProps`: check the unsized view, then every view of the reference
            check_view::<dyn ErasedProps>(r, &cx, p, "dyn");
            facts = Some(check_all(r, &cx, &p));
        })
    });
    match res {
        Err(msg) => viol(r, &cx, "panic", "any", format!("panicked: {}", msg)),
        Ok(()) if calls != 1 => r.inconclusive(format!("a {} tree handed {} collections to the oracle instead of 1", kind, calls)),
        Ok(()) => {}
    }
    facts
}

// ---------------------------------------------------------------------------
// sub-sampling of the fixed sections (Miri interprets ~10^4 x slower than the optimised build)
// ---------------------------------------------------------------------------

static STRIDE: AtomicU64 = AtomicU64::new(1);
static OFFSET: AtomicU64 = AtomicU64::new(0);
static COUNTER: AtomicU64 = AtomicU64::new(0);

/// Every `stride`-th fixed shape / call site is run (all of them when the stride is 1).
fn pick() -> bool {
    let stride = STRIDE.load(Ordering::Relaxed);
    stride <= 1 || COUNTER.fetch_add(1, Ordering::Relaxed) % stride == OFFSET.load(Ordering::Relaxed) % stride
}

fn set_stride(stride: u64, offset: u64) {
    STRIDE.store(stride, Ordering::Relaxed);
    OFFSET.store(offset, Ordering::Relaxed);
    COUNTER.store(0, Ordering::Relaxed);
}

fn tiny() -> bool {
    STRIDE.load(Ordering::Relaxed) > 1
}

// ---------------------------------------------------------------------------
// static generic shapes
// ---------------------------------------------------------------------------

struct Env {
    e: Vec<Entry>,
    dk: Vec<String>,
    bt: BTreeMap<String, Val>,
    hm: HashMap<String, Val>,
    ext_p: Extent,
    ext_r: Extent,
    sc: SpanCtxt,
    frames: Vec<Vec<Entry>>,
    dup_sig: Vec<usize>,
    /// the shared key buffer of the aliased shapes and eight (start, end) key ranges into it
    arena: Arena,
    ak: Vec<(usize, usize)>,
}

impl Env {
    fn new(g: Rng) -> Env {
        let mut x = Gen::new(g);
        // eight entries over a small key set (duplicates are the point)
        while x.keys.len() < 3 {
            let k = x.g.pick(POOL).to_string();
            x.keys.push(k);
        }
        let e: Vec<Entry> = (0..8).map(|_| (x.key(), x.val())).collect();
        let mut dk: Vec<String> = Vec::new();
        for k in x.keys.iter().map(|k| k.as_str()).chain(POOL.iter().copied()) {
            if !dk.iter().any(|d| d == k) {
                dk.push(k.to_string());
            }
            if dk.len() == 4 {
                break;
            }
        }
        x.g.shuffle(&mut dk);
        let bt = x.entries(4).into_iter().collect();
        let hm = x.entries(4).into_iter().collect();
        let a = x.g.below(4_000_000_000_000_000_000);
        let frames = (0..2).map(|_| x.distinct_entries(3)).collect();
        // which positions repeat an earlier key: part of the distinct-shape signature
        let dup_sig = (0..e.len()).map(|i| e[..i].iter().position(|p| p.0 == e[i].0).unwrap_or(i)).collect();
        // keys that are slices of one buffer: the ancestors of a dotted path first (all start at
        // the same address), then seeded prefixes / suffixes / infixes
        let mut arena = Arena::new(&mut x.g);
        while arena.buf.len() < 3 {
            arena.buf.push_str(".ab");
        }
        let b = arena.boundaries();
        let mut ak: Vec<(usize, usize)> = vec![(0, 0), (0, b[1]), (0, arena.buf.find('.').unwrap_or(b[1])), (0, arena.buf.len())];
        while ak.len() < 8 {
            let start = if x.g.chance(1, 2) { 0 } else { x.g.usize(b.len()) };
            let end = start + x.g.usize(b.len() - start);
            ak.push((b[start], b[end]));
        }
        x.g.shuffle(&mut ak);
        Env {
            arena,
            ak,
            sc: span_ctxt_of(
                x.g.bool().then_some(5),
                x.g.bool().then_some(6),
                x.g.bool().then_some(7),
            ),
            e,
            dk,
            bt,
            hm,
            ext_p: Extent::point(ts(a)),
            ext_r: Extent::range(ts(a)..ts(a + 5)),
            frames,
            dup_sig,
        }
    }

    fn p(&self, i: usize) -> (&str, &Val) {
        (self.e[i].0.as_str(), &self.e[i].1)
    }

    fn v(&self, i: usize) -> &Val {
        &self.e[i].1
    }

    /// The i-th aliased key: a slice of the shared buffer.
    fn a(&self, i: usize) -> &str {
        let (s, e) = self.ak[i];
        &self.arena.buf[s..e]
    }

    fn ap(&self, i: usize) -> (&str, &Val) {
        (self.a(i), &self.e[i].1)
    }

    fn probes(&self) -> Vec<String> {
        let (wk, nv) = if tiny() { (3, 1) } else { (WELL_KNOWN.len(), NEVER.len()) };
        self.e
            .iter()
            .map(|(k, _)| k.clone())
            .chain(self.dk.iter().cloned())
            .chain((0..self.ak.len()).map(|i| self.a(i).to_string()))
            .chain(WELL_KNOWN.iter().rev().take(wk).map(|s| s.to_string()))
            .chain(NEVER.iter().take(nv).map(|s| s.to_string()))
            .collect()
    }
}

/// An emitter that runs the generic (un-erased) check on the event it is handed.
struct CheckEmitter<'a, 'b> {
    r: RefCell<&'a mut Report>,
    cx: &'a Cx<'b>,
    shape: String,
    called: Cell<u32>,
}

impl<'a, 'b> Emitter for CheckEmitter<'a, 'b> {
    fn emit<E: emit::event::ToEvent>(&self, evt: E) {
        let evt = evt.to_event();
        self.called.set(self.called.get() + 1);
        let mut r = self.r.borrow_mut();
        let f = check_all(&mut **r, self.cx, evt.props());
        note_facts(&mut **r, &f, &self.shape);
        let by_ref = evt.by_ref();
        check_all(&mut **r, self.cx, by_ref.props());
        let erased = evt.erase();
        check_all(&mut **r, self.cx, erased.props());
    }

    fn blocking_flush(&self, _: Duration) -> bool {
        true
    }
}

fn static_shapes(r: &mut Report, e: &Env, only: Option<&str>, case: &dyn Fn() -> Json) {
    let probes = e.probes();
    use emit::__private::__PrivateMacroProps as M;

    macro_rules! sh {
        ($name:literal, $v:expr) => {
            if only.map(|o| o == $name).unwrap_or(true) && pick() {
                let name: &str = $name;
                let case2 = || {
                    let mut c = case();
                    if let Some(o) = c.as_object_mut() {
                        o.insert("shape".into(), json!(name));
                    }
                    c
                };
                let cx = Cx {
                    kind: name,
                    probes: &probes,
                    buf: &e.arena.buf,
                    case: &case2,
                };
                r.eval();
                let res = catch(|| {
                    let v = $v;
                    check_all(r, &cx, &v)
                });
                if name.starts_with("aliased-") {
                    r.observe("collections-with-keys-borrowed-from-one-buffer", 1);
                }
                match res {
                    Ok(f) => note_facts(r, &f, &format!("{}:{:?}", name, e.dup_sig)),
                    Err(msg) => viol(r, &cx, "panic", "any", format!("panicked: {}", msg)),
                }
            }
        };
    }

    sh!("pair-ref", e.p(0));
    sh!("pair-owned", (e.e[0].0.clone(), e.v(0).clone()));
    sh!("pair-str-value", (Str::new_ref(&e.e[1].0), e.v(1).to_value()));
    sh!("array-0", [] as [(&str, &Val); 0]);
    sh!("array-3", [e.p(0), e.p(1), e.p(2)]);
    sh!("array-8", [e.p(0), e.p(1), e.p(2), e.p(3), e.p(4), e.p(5), e.p(6), e.p(7)]);
    sh!("slice", &e.e[..]);
    sh!("subslice", &e.e[1..5]);
    sh!("vec-slice", {
        let v: Vec<(Str, Value)> = e.e.iter().map(|(k, v)| (Str::new_ref(k), v.to_value())).collect();
        v.into_boxed_slice()
    });
    sh!("btreemap", e.bt.clone());
    sh!("hashmap-ref", &e.hm);
    sh!("some-pair", Some(e.p(0)));
    sh!("none", None::<(&str, &Val)>);
    sh!("some-array", Some([e.p(0), e.p(1), e.p(2)]));
    sh!("and-pairs", e.p(0).and_props(e.p(1)));
    sh!("and-chain-4", e.p(0).and_props(e.p(1)).and_props(e.p(2)).and_props(e.p(3)));
    sh!("and-right-nested", e.p(0).and_props(e.p(1).and_props(e.p(2).and_props(e.p(3)))));
    sh!("array-and-btree", [e.p(0), e.p(1)].and_props(&e.bt));
    sh!("btree-and-array", (&e.bt).and_props([e.p(0), e.p(1), e.p(2)]));
    sh!("hash-and-btree", (&e.hm).and_props(&e.bt));
    sh!("box-array", Box::new([e.p(0), e.p(1), e.p(2)]));
    sh!("arc-and", Arc::new(e.p(0).and_props(&e.e[..])));
    sh!("box-arc-some-btree", Box::new(Arc::new(Some(&e.bt))));
    sh!("box-dyn", {
        let b: Box<dyn ErasedProps + '_> = Box::new([e.p(0), e.p(1), e.p(2)]);
        b
    });
    sh!("arc-dyn", {
        let b: Arc<dyn ErasedProps + '_> = Arc::new((&e.bt).and_props(e.p(0)));
        b
    });
    sh!("and-of-dyn", {
        let a: &dyn ErasedProps = &e.bt;
        let arr = [e.p(0), e.p(1)];
        let b: Box<dyn ErasedProps + '_> = Box::new(arr);
        a.and_props(b)
    });
    sh!("span-array", Span::new(MDL, "span name", e.ext_r.clone(), [e.p(0), e.p(1), e.p(2)]));
    sh!("span-and", Span::new(MDL, e.e[2].0.as_str(), Empty, (&e.bt).and_props(e.p(3))));
    sh!("span-in-and", [e.p(0)].and_props(Span::new(MDL, "s", Empty, [e.p(1), e.p(2)])));
    sh!("metric-array", Metric::new(MDL, "m", "count", e.ext_p.clone(), 42, [e.p(0), e.p(1)]));
    sh!("metric-hash", Metric::new(MDL, e.e[0].0.as_str(), "last", Empty, e.v(0).to_value(), &e.hm));
    {
        let m = Metric::new(MDL, "m", "sum", Empty, 1.5, [e.p(0), e.p(1), e.p(2)]);
        sh!("metric-erase-view", m.erase());
    }
    {
        let evt = Event::new(MDL, Template::literal("c02"), Empty, [e.p(0), e.p(1), e.p(2)]);
        sh!("event-props-ref", evt.props());
        sh!("event-by-ref-props", {
            let b = evt.by_ref();
            *b.props()
        });
        sh!("event-erase-props", {
            let b = evt.erase();
            *b.props()
        });
    }
    sh!("extent-point", e.ext_p.clone());
    sh!("extent-range", e.ext_r.clone());
    sh!("span-ctxt", e.sc);
    sh!("span-ctxt-and-extent-and-array", e.sc.and_props(e.ext_r.clone()).and_props([e.p(0), e.p(1)]));
    sh!("array-of-options", [Some(e.p(0)), None, Some(e.p(1)), Some(e.p(2))]);
    sh!("array-of-arrays", [[e.p(0), e.p(1)], [e.p(2), e.p(3)], [e.p(4), e.p(5)]]);
    sh!("array-of-ands", [e.p(0).and_props(e.p(1)), e.p(2).and_props(e.p(3))]);

    // short outer containers whose single element is a collection that repeats keys
    // (`e.e` has eight entries over at most six keys, so the slices below do)
    sh!("array0-of-slices", [] as [&[Entry]; 0]);
    sh!("array1-of-dup-slice", [&e.e[..]]);
    sh!("array2-of-dup-slices", [&e.e[..4], &e.e[4..]]);
    sh!("array1-of-overlapping-and", [e.p(0).and_props((e.e[0].0.as_str(), e.v(1)))]);
    sh!("array1-of-array2-same-key", [[e.p(0), (e.e[0].0.as_str(), e.v(1))]]);
    sh!("array1-of-array1-of-dup-slice", [[&e.e[..]]]);
    sh!("array1-of-unique-btree", [&e.bt]);
    sh!("array1-of-pair", [e.p(0)]);
    {
        let inner = [[e.p(0), (e.e[0].0.as_str(), e.v(1)), e.p(2)]];
        sh!("slice1-of-dup-arrays", &inner[..]);
        sh!("slice0-of-arrays", &inner[..0]);
        let dyns: [&dyn ErasedProps; 1] = [&inner];
        sh!("array1-of-dyn", dyns);
        sh!("slice1-of-dyn", &dyns[..]);
    }
    sh!("vec1-of-dup-slices", vec![&e.e[..]].into_boxed_slice());
    sh!("vec1-of-vec-of-pairs", {
        let inner: Vec<(&str, &Val)> = vec![e.p(0), (e.e[0].0.as_str(), e.v(1))];
        vec![inner.into_boxed_slice()].into_boxed_slice()
    });
    sh!("box-array1-of-dup-slice", Box::new([&e.e[..]]));
    sh!("some-array1-of-dup-slice", Some([&e.e[..]]));
    sh!("array1-of-dup-slice-and-pair", [&e.e[..]].and_props(e.p(0)));
    sh!("span-over-array1-of-dup-slice", Span::new(MDL, "s", Empty, [&e.e[..]]));

    // keys borrowed from one shared buffer (same start address with different lengths, suffixes,
    // infixes, the same text at different addresses); lookups also use slices of that buffer
    sh!("aliased-pair", e.ap(0));
    sh!("aliased-pair-str", (Str::new_ref(e.a(1)), e.v(1).to_value()));
    sh!("aliased-array-8", [e.ap(0), e.ap(1), e.ap(2), e.ap(3), e.ap(4), e.ap(5), e.ap(6), e.ap(7)]);
    sh!("aliased-array-reversed", [e.ap(7), e.ap(6), e.ap(5), e.ap(4), e.ap(3), e.ap(2), e.ap(1), e.ap(0)]);
    sh!("aliased-vec-slice-of-str-value", {
        let v: Vec<(Str, Value)> = (0..8).map(|i| (Str::new_ref(e.a(i)), e.v(i).to_value())).collect();
        v.into_boxed_slice()
    });
    sh!("aliased-and-chain", e.ap(0).and_props(e.ap(1)).and_props(e.ap(2)).and_props(e.ap(3)));
    sh!("aliased-and-right-nested", e.ap(4).and_props(e.ap(5).and_props(e.ap(6).and_props(e.ap(7)))));
    sh!("aliased-btreemap-str-keys", (0..8).map(|i| e.ap(i)).collect::<BTreeMap<&str, &Val>>());
    sh!("aliased-btreemap-Str-keys", (0..8).map(|i| (Str::new_ref(e.a(i)), e.v(i).to_value())).collect::<BTreeMap<Str, Value>>());
    sh!("aliased-hashmap-str-keys", (0..8).map(|i| e.ap(i)).collect::<HashMap<&str, &Val>>());
    sh!("aliased-hashmap-Str-keys", (0..8).map(|i| (Str::new_ref(e.a(i)), e.v(i).to_value())).collect::<HashMap<Str, Value>>());
    sh!("aliased-array-and-owned-slice", [e.ap(0), e.ap(1), e.ap(2)].and_props(&e.e[..]));
    sh!("aliased-owned-copies-then-array", {
        // the same texts once in independent allocations, once as slices of the buffer
        let owned: Vec<(String, &Val)> = (4..8).map(|i| (e.a(i).to_string(), e.v(i))).collect();
        owned.into_boxed_slice().and_props([e.ap(0), e.ap(1), e.ap(2), e.ap(3)])
    });
    sh!("aliased-box-dyn", {
        let b: Box<dyn ErasedProps + '_> = Box::new([e.ap(0), e.ap(1), e.ap(2), e.ap(3)]);
        b
    });
    sh!("aliased-arc-some", Arc::new(Some([e.ap(3), e.ap(2), e.ap(1)])));
    sh!("aliased-span-named-by-slice", Span::new(MDL, e.a(1), Empty, [e.ap(0), e.ap(1), e.ap(2)]));
    sh!("aliased-metric-named-by-slices", Metric::new(MDL, e.a(2), e.a(3), Empty, 1, [e.ap(2), e.ap(3)]));
    sh!("aliased-array1-of-slice", {
        let inner: Vec<(&str, &Val)> = (0..8).map(|i| e.ap(i)).collect();
        [inner.into_boxed_slice()]
    });
    {
        // macro-built collections need distinct names: the distinct texts among the aliased keys
        let mut idx: Vec<usize> = Vec::new();
        for i in 0..8 {
            if !idx.iter().any(|j| e.a(*j) == e.a(i)) {
                idx.push(i);
            }
        }
        let m = |i: usize| (Str::new_ref(e.a(idx[i % idx.len()])), Some(e.v(i).to_value()));
        match idx.len() {
            1 => sh!("aliased-macro-props", M::from_array([m(0)])),
            2 => sh!("aliased-macro-props", M::from_array([m(0), m(1)])),
            3 => sh!("aliased-macro-props", M::from_array([m(0), m(1), m(2)])),
            _ => sh!("aliased-macro-props", M::from_array([m(3), m(0), m(2), m(1)])),
        }
    }
    {
        let a = [e.ap(0), e.ap(1), e.ap(2), e.ap(3), e.ap(4)];
        sh!("aliased-dedup-and-pair", a.dedup().and_props(e.ap(5)));
        sh!("aliased-as-map", a.as_map().and_props(e.ap(6)));
    }
    sh!("slice-of-btrees", vec![e.bt.clone(), e.bt.clone()].into_boxed_slice());
    sh!(
        "macro-props-3",
        M::from_array([
            (Str::new_ref(&e.dk[0]), Some(e.v(0).to_value())),
            (Str::new_ref(&e.dk[1]), None),
            (Str::new_ref(&e.dk[2]), Some(e.v(2).to_value())),
        ])
    );
    sh!(
        "macro-props-4-and-btree",
        M::from_array([
            (Str::new_ref(&e.dk[0]), Some(e.v(0).to_value())),
            (Str::new_ref(&e.dk[1]), Some(e.v(1).to_value())),
            (Str::new_ref(&e.dk[2]), None),
            (Str::new_ref(&e.dk[3]), Some(e.v(3).to_value())),
        ])
        .and_props(&e.bt)
    );
    {
        let a = [e.p(0), e.p(1), e.p(2), e.p(3)];
        let b = e.p(4).and_props(&e.bt);
        sh!("dedup-and-pair", a.dedup().and_props(e.p(4)));
        sh!("pair-and-dedup", e.p(4).and_props(a.dedup()));
        sh!("as-map-and-dedup", a.as_map().and_props(b.dedup()));
        sh!("dedup-of-dedup", a.dedup().dedup());
        sh!("dedup-of-as-map", a.as_map().dedup());
        sh!("span-over-dedup", Span::new(MDL, "s", Empty, a.dedup()));
        sh!("box-of-dedup-ref", Box::new(b.dedup()));
    }
    // ambient snapshots and emitted events
    let ctxt = tl();
    in_frames(ctxt, true, &e.frames, &mut || {
        let frame = ctxt.with_current(|cur| cur.clone());
        sh!("tl-frame", frame.clone());
        sh!("array-and-tl-frame", [e.p(0), e.p(1)].and_props(&frame));
        sh!("tl-frame-and-array", (&frame).and_props([e.p(0), e.p(1)]));
        ctxt.with_current(|cur| {
            sh!("tl-current-ref", cur);
        });
        let tp = TraceparentCtxt::new(ctxt);
        Frame::push(tp, span_ctxt_of(Some(11), None, Some(12))).call(|| {
            tp.with_current(|cur| {
                sh!("traceparent-current-ref", cur);
                sh!("array-and-traceparent-current", [e.p(0), e.p(1)].and_props(cur));
            })
        });
        macro_rules! emitted {
            ($name:literal, $ctxt:expr, $props:expr) => {
                if only.map(|o| o == $name).unwrap_or(true) && pick() {
                    let name: &str = $name;
                    let case2 = || {
                        let mut c = case();
                        if let Some(o) = c.as_object_mut() {
                            o.insert("shape".into(), json!(name));
                        }
                        c
                    };
                    let cx = Cx {
                        kind: name,
                        probes: &probes,
                        buf: &e.arena.buf,
                        case: &case2,
                    };
                    r.eval();
                    let mut called = 0;
                    let res = catch(|| {
                        let em = CheckEmitter {
                            r: RefCell::new(&mut *r),
                            cx: &cx,
                            shape: format!("{}:{:?}", name, e.dup_sig),
                            called: Cell::new(0),
                        };
                        emit::emit(&em, Empty, $ctxt, Empty, Event::new(MDL, Template::literal("c02"), Empty, $props));
                        called = em.called.get();
                    });
                    match res {
                        Err(msg) => viol(r, &cx, "panic", "any", format!("panicked: {}", msg)),
                        Ok(()) if called != 1 => r.inconclusive(format!("emit() called the emitter {} times for {}", called, name)),
                        Ok(()) => {}
                    }
                }
            };
        }
        emitted!("emitted-array-tl", ctxt, [e.p(0), e.p(1), e.p(2)]);
        emitted!("emitted-btree-tl", ctxt, &e.bt);
        emitted!(
            "emitted-macro-props-tl",
            ctxt,
            M::from_array([
                (Str::new_ref(&e.dk[1]), Some(e.v(0).to_value())),
                (Str::new_ref(&e.dk[0]), Some(e.v(1).to_value())),
            ])
        );
        emitted!("emitted-array-empty-ctxt", Empty, [e.p(0), e.p(1), e.p(2)]);
        Frame::push(tp, span_ctxt_of(Some(11), None, Some(12))).call(|| {
            emitted!("emitted-array-traceparent", tp, [e.p(0), e.p(1), ("trace_id", e.v(2))]);
        });
        // erased context: `Ctxt::Current` is the lifetime-erased `ErasedCurrent`
        {
            let erased: &dyn emit::ctxt::ErasedCtxt = &ctxt;
            emitted!("emitted-array-erased-ctxt", erased, [e.p(0), e.p(1), e.p(2)]);
            erased.with_current(|cur| {
                sh!("erased-current-ref", cur);
            });
        }
    });
}

// ---------------------------------------------------------------------------
// macro call sites
// ---------------------------------------------------------------------------

#[derive(Clone, Copy)]
struct Site {
    name: &'static str,
    /// first-wins contents that must be present: final key -> Display text
    expect: &'static [(&'static str, &'static str)],
    /// whether `expect` lists every key the collection may enumerate
    exact: bool,
    absent: &'static [&'static str],
}

fn site_props<P: Props>(r: &mut Report, site: &Site, p: &P) -> Vec<(String, Fp)> {
    r.eval();
    r.observe("macro-call-sites", 1);
    let probes: Vec<String> = site
        .expect
        .iter()
        .map(|(k, _)| k.to_string())
        .chain(site.absent.iter().map(|k| k.to_string()))
        .chain(NEVER.iter().map(|k| k.to_string()))
        .collect();
    let name = site.name;
    let case = || json!({"section": "sites", "site": name});
    let kind = format!("site:{}", name);
    let cx = Cx {
        kind: &kind,
        probes: &probes,
        buf: "",
        case: &case,
    };
    let f = check_all(r, &cx, p);
    note_facts(r, &f, &kind);
    // what the call site says the collection holds
    let mut list = Vec::new();
    let _ = p.for_each(|k, v| {
        list.push((k.get().to_string(), fp(&v)));
        ControlFlow::Continue(())
    });
    for (k, want) in site.expect {
        let first = list.iter().find(|(lk, _)| lk == k).map(|(_, v)| v.disp.as_str());
        let got = p.get(*k).map(|v| v.to_string());
        if first != Some(*want) || got.as_deref() != Some(*want) {
            viol(
                r,
                &cx,
                "site-key-not-found",
                "value",
                format!("key {:?} of the call site: enumeration yields {:?}, get {:?}, written value {:?} (enumerated: {:?})", k, first, got, want, show(&list)),
            );
        }
    }
    for k in site.absent {
        let first = list.iter().find(|(lk, _)| lk == k).map(|(_, v)| v.disp.as_str());
        let got = p.get(*k).map(|v| v.to_string());
        if first.is_some() || got.is_some() {
            viol(
                r,
                &cx,
                "site-absent-key-found",
                "value",
                format!("key {:?} must not be part of the call site's collection: enumeration yields {:?}, get {:?}", k, first, got),
            );
        }
    }
    if site.exact {
        for (k, _) in &list {
            if !site.expect.iter().any(|(e, _)| e == k) {
                viol(r, &cx, "site-unexpected-key", "value", format!("call site enumerates {:?} which it never wrote: {:?}", k, show(&list)));
            }
        }
    }
    list
}

/// Reference rendering of an event's template over what its properties enumerate.
fn site_event<P: Props>(r: &mut Report, site: &Site, evt: &Event<P>, msg: &str, holes: &[&str]) {
    let list = site_props(r, site, evt.props());
    r.observe("macro-call-site-messages", 1);
    let kind = format!("site:{}", site.name);
    let name = site.name;
    let case = || json!({"section": "sites", "site": name});
    let cx = Cx {
        kind: &kind,
        probes: &[],
        buf: "",
        case: &case,
    };
    let mut want = String::new();
    let mut labels = Vec::new();
    for part in evt.tpl().parts() {
        if let Some(t) = part.as_text() {
            want.push_str(t.get());
        } else if let Some(l) = part.label() {
            labels.push(l.get().to_string());
            match list.iter().find(|(k, _)| k == l.get()) {
                Some((_, v)) => want.push_str(&v.disp),
                None => {
                    want.push('{');
                    want.push_str(l.get());
                    want.push('}');
                }
            }
        }
    }
    let got = evt.msg().to_string();
    if got != want {
        viol(
            r,
            &cx,
            "msg-differs-from-enumerated-props",
            "value",
            format!("msg() = {:?} but the template {:?} over the enumerated properties {:?} reads {:?}", got, evt.tpl().to_string(), show(&list), want),
        );
    }
    if got != msg {
        viol(
            r,
            &cx,
            "msg-does-not-interpolate-every-hole",
            "value",
            format!("msg() = {:?}, the call site reads {:?} (template {:?}, properties {:?})", got, msg, evt.tpl().to_string(), show(&list)),
        );
    }
    if labels.iter().map(|s| s.as_str()).collect::<Vec<_>>() != holes {
        viol(
            r,
            &cx,
            "template-hole-labels",
            "value",
            format!("template holes are {:?}, the call site's final key names are {:?}", labels, holes),
        );
    }
}

/// The emitter behind the `emit!` sites: checks the event it is handed.
struct SiteEmitter<'a> {
    r: RefCell<&'a mut Report>,
    site: Cell<Option<(Site, &'static str, &'static [&'static str])>>,
    called: Cell<u32>,
}

impl<'a> Emitter for SiteEmitter<'a> {
    fn emit<E: emit::event::ToEvent>(&self, evt: E) {
        let evt = evt.to_event();
        self.called.set(self.called.get() + 1);
        if let Some((site, msg, holes)) = self.site.get() {
            let mut r = self.r.borrow_mut();
            site_event(&mut **r, &site, &evt, msg, holes);
        }
    }

    fn blocking_flush(&self, _: Duration) -> bool {
        true
    }
}

fn macro_sites(r: &mut Report) {
    macro_rules! props_site {
        ($name:literal, { $($body:tt)* }, expect: $expect:expr, absent: $absent:expr) => {if pick() {
            let site = Site { name: $name, expect: &$expect, exact: true, absent: &$absent };
            let res = catch(|| match emit::props! { $($body)* } {
                props => {
                    site_props(r, &site, &props);
                }
            });
            if let Err(msg) = res {
                r.violation(&format!("C02:panic:any:site:{}", $name), &format!("call site panicked: {}", msg), json!({"section": "sites", "site": $name}));
            }
        }};
    }

    // ---- props! ----
    props_site!("props-plain", { a: 1, b: "x", c: true },
        expect: [("a", "1"), ("b", "x"), ("c", "true")], absent: ["d", ""]);
    props_site!("props-plain-unsorted", { zz: 1, aa: 2, mm: 3 },
        expect: [("zz", "1"), ("aa", "2"), ("mm", "3")], absent: ["a", "z"]);
    props_site!("props-renamed-sorts-after", { #[emit::key("zzz")] aaa: 1, bbb: 2 },
        expect: [("zzz", "1"), ("bbb", "2")], absent: ["aaa"]);
    props_site!("props-renamed-sorts-before", { #[emit::key("aaa")] zzz: 1, bbb: 2, ccc: 3 },
        expect: [("aaa", "1"), ("bbb", "2"), ("ccc", "3")], absent: ["zzz"]);
    props_site!("props-renamed-dotted", { #[emit::key("user.name")] user: "Rust", #[emit::key("user.id")] id: 42 },
        expect: [("user.name", "Rust"), ("user.id", "42")], absent: ["user", "id", "user."]);
    props_site!("props-renamed-crossed", { #[emit::key("b")] a: 1, #[emit::key("a")] b: 2 },
        expect: [("b", "1"), ("a", "2")], absent: ["c"]);
    props_site!("props-renamed-exotic", { #[emit::key("")] e: 1, #[emit::key("é 日")] x: 2, #[emit::key("{braces}")] y: 3, #[emit::key("😀")] a: 4 },
        expect: [("", "1"), ("é 日", "2"), ("{braces}", "3"), ("😀", "4")], absent: ["e", "x", "y", "a", "braces"]);
    props_site!("props-renamed-middle-of-many",
        { a: 1, b: 2, #[emit::key("zz.c")] c: 3, d: 4, e: 5, #[emit::key("0.f")] f: 6, g: 7, h: 8 },
        expect: [("a", "1"), ("b", "2"), ("zz.c", "3"), ("d", "4"), ("e", "5"), ("0.f", "6"), ("g", "7"), ("h", "8")], absent: ["c", "f"]);
    props_site!("props-renamed-all-reversed",
        { #[emit::key("f")] a: 1, #[emit::key("e")] b: 2, #[emit::key("d")] c: 3, #[emit::key("c")] d: 4, #[emit::key("b")] e: 5, #[emit::key("a")] f: 6 },
        expect: [("f", "1"), ("e", "2"), ("d", "3"), ("c", "4"), ("b", "5"), ("a", "6")], absent: ["g"]);
    props_site!("props-renamed-single", { #[emit::key("only")] x: 1 },
        expect: [("only", "1")], absent: ["x"]);
    props_site!("props-renamed-upper-lower", { #[emit::key("Zed")] a: 1, #[emit::key("alpha")] z: 2, m: 3 },
        expect: [("Zed", "1"), ("alpha", "2"), ("m", "3")], absent: ["a", "z", "zed"]);
    props_site!("props-optional", { #[emit::optional] s: Some(&1), #[emit::optional] n: None::<&i32>, p: 3 },
        expect: [("s", "1"), ("p", "3")], absent: ["n"]);
    props_site!("props-optional-all-none", { #[emit::optional] a: None::<&i32>, #[emit::optional] b: None::<&str> },
        expect: [], absent: ["a", "b"]);
    props_site!("props-optional-renamed",
        { #[emit::key("opt.some")] #[emit::optional] s: Some(&"v"), #[emit::key("a.none")] #[emit::optional] n: None::<&str>, #[emit::optional] #[emit::key("zz.some")] a: Some(&7) },
        expect: [("opt.some", "v"), ("zz.some", "7")], absent: ["s", "n", "a", "a.none"]);
    props_site!("props-cfg", { #[cfg(all())] on: 1, #[cfg(any())] off: 2, z: 3 },
        expect: [("on", "1"), ("z", "3")], absent: ["off"]);
    props_site!("props-cfg-renamed",
        { #[cfg(all())] #[emit::key("zz.on")] a: 1, #[cfg(any())] #[emit::key("aa.off")] b: 2, m: 3, #[cfg(all())] #[emit::key("0.on")] y: 4 },
        expect: [("zz.on", "1"), ("m", "3"), ("0.on", "4")], absent: ["a", "b", "y", "aa.off"]);
    props_site!("props-cfg-all-off", { #[cfg(any())] a: 1, #[cfg(any())] b: 2 },
        expect: [], absent: ["a", "b"]);
    props_site!("props-mixed",
        { plain: 1, #[emit::key("z.renamed")] early: 2, #[emit::optional] some: Some(&3), #[emit::optional] none: None::<&i32>,
          #[cfg(all())] on: 5, #[cfg(any())] off: 6, #[emit::key("a.renamed")] #[emit::optional] late: Some(&7), #[cfg(all())] #[emit::key("mid")] zed: 8 },
        expect: [("plain", "1"), ("z.renamed", "2"), ("some", "3"), ("on", "5"), ("a.renamed", "7"), ("mid", "8")],
        absent: ["early", "none", "off", "late", "zed"]);
    props_site!("props-prefix-keys", { a: 1, ab: 2, abc: 3, #[emit::key("abcd")] z: 4, #[emit::key("")] y: 5 },
        expect: [("a", "1"), ("ab", "2"), ("abc", "3"), ("abcd", "4"), ("", "5")], absent: ["abcde", "z", "y"]);
    props_site!("props-raw-idents", { r#type: 1, #[emit::key("fn")] r#match: 2 },
        expect: [("type", "1"), ("fn", "2")], absent: ["match", "r#type"]);
    props_site!("props-empty", { }, expect: [], absent: ["a"]);
    {
        let x = 5;
        let user = "u";
        props_site!("props-shorthand", { x, #[emit::key("the.user")] user },
            expect: [("x", "5"), ("the.user", "u")], absent: ["user"]);
    }
    props_site!("props-twelve",
        { l: 12, #[emit::key("zk")] k: 11, j: 10, #[emit::key("0i")] i: 9, h: 8, g: 7, #[emit::key("m.f")] f: 6, e: 5, d: 4, #[emit::key("C")] c: 3, b: 2, #[emit::key("~a")] a: 1 },
        expect: [("l", "12"), ("zk", "11"), ("j", "10"), ("0i", "9"), ("h", "8"), ("g", "7"), ("m.f", "6"), ("e", "5"), ("d", "4"), ("C", "3"), ("b", "2"), ("~a", "1")],
        absent: ["k", "i", "f", "c", "a"]);

    // ---- evt! ----
    macro_rules! evt_site {
        ($name:literal, ( $($body:tt)* ), msg: $msg:expr, holes: $holes:expr, expect: $expect:expr, absent: $absent:expr) => {if pick() {
            let site = Site { name: $name, expect: &$expect, exact: true, absent: &$absent };
            let res = catch(|| match emit::evt!( $($body)* ) {
                evt => {
                    site_event(r, &site, &evt, $msg, &$holes);
                }
            });
            if let Err(msg) = res {
                r.violation(&format!("C02:panic:any:site:{}", $name), &format!("call site panicked: {}", msg), json!({"section": "sites", "site": $name}));
            }
        }};
    }

    evt_site!("evt-plain", ("plain {a} and {b}", a: 1, b: "two"),
        msg: "plain 1 and two", holes: ["a", "b"], expect: [("a", "1"), ("b", "two")], absent: ["c"]);
    evt_site!("evt-renamed-dotted", ("hi {user}", #[emit::key("user.name")] user: "Rust"),
        msg: "hi Rust", holes: ["user.name"], expect: [("user.name", "Rust")], absent: ["user"]);
    evt_site!("evt-renamed-sorts-after", ("{aaa}-{bbb}", #[emit::key("zzz")] aaa: 1, bbb: 2),
        msg: "1-2", holes: ["zzz", "bbb"], expect: [("zzz", "1"), ("bbb", "2")], absent: ["aaa"]);
    evt_site!("evt-renamed-sorts-before", ("{zzz}-{bbb}-{ccc}", #[emit::key("aaa")] zzz: 1, bbb: 2, ccc: 3),
        msg: "1-2-3", holes: ["aaa", "bbb", "ccc"], expect: [("aaa", "1"), ("bbb", "2"), ("ccc", "3")], absent: ["zzz"]);
    evt_site!("evt-renamed-extras", ("{b}", #[emit::key("a.renamed")] z: 0, b: 1, #[emit::key("zz")] a: 2),
        msg: "1", holes: ["b"], expect: [("a.renamed", "0"), ("b", "1"), ("zz", "2")], absent: ["z", "a"]);
    evt_site!("evt-renamed-crossed", ("{a}{b}{c}", #[emit::key("c")] a: 1, #[emit::key("a")] b: 2, #[emit::key("b")] c: 3),
        msg: "123", holes: ["c", "a", "b"], expect: [("c", "1"), ("a", "2"), ("b", "3")], absent: ["d"]);
    evt_site!("evt-renamed-inside-hole", ("hi {#[emit::key(\"user.name\")] user: \"Rust\"} {b}", b: 2),
        msg: "hi Rust 2", holes: ["user.name", "b"], expect: [("user.name", "Rust"), ("b", "2")], absent: ["user"]);
    evt_site!("evt-optional-some", ("v={v}", #[emit::optional] v: Some(&5)),
        msg: "v=5", holes: ["v"], expect: [("v", "5")], absent: []);
    evt_site!("evt-optional-none", ("v={v} w={w}", #[emit::optional] v: None::<&i32>, w: 1),
        msg: "v={v} w=1", holes: ["v", "w"], expect: [("w", "1")], absent: ["v"]);
    evt_site!("evt-optional-renamed", ("{a} {b}", #[emit::optional] #[emit::key("z.a")] a: Some(&1), #[emit::optional] #[emit::key("0.b")] b: None::<&i32>),
        msg: "1 {0.b}", holes: ["z.a", "0.b"], expect: [("z.a", "1")], absent: ["a", "b", "0.b"]);
    evt_site!("evt-cfg", ("x {on} {off} y", #[cfg(all())] on: 1, #[cfg(any())] off: 2),
        msg: "x 1  y", holes: ["on"], expect: [("on", "1")], absent: ["off"]);
    evt_site!("evt-cfg-renamed", ("{a}|{b}|{c}", #[cfg(all())] #[emit::key("zz")] a: 1, #[cfg(any())] #[emit::key("yy")] b: 2, #[emit::key("0c")] c: 3),
        msg: "1||3", holes: ["zz", "0c"], expect: [("zz", "1"), ("0c", "3")], absent: ["a", "b", "c", "yy"]);
    evt_site!("evt-inline-values", ("{a: 1} {b: 2.5} {c: true}"),
        msg: "1 2.5 true", holes: ["a", "b", "c"], expect: [("a", "1"), ("b", "2.5"), ("c", "true")], absent: []);
    evt_site!("evt-hole-is-prefix-of-renamed", ("{a} {b} {ab}", a: 1, #[emit::key("a.b")] b: 2, #[emit::key("a")] ab: 3, #[emit::key("ab")] a: 1),
        msg: "1 2 3", holes: ["ab", "a.b", "a"], expect: [("ab", "1"), ("a.b", "2"), ("a", "3")], absent: ["b"]);
    evt_site!("evt-non-ascii-text", ("é日 {a} 😀 {b}", a: 1, #[emit::key("日")] b: "é"),
        msg: "é日 1 😀 é", holes: ["a", "日"], expect: [("a", "1"), ("日", "é")], absent: ["b"]);
    evt_site!("evt-escaped-braces", ("{{a}} {a} }}{{", a: 1),
        msg: "{a} 1 }{", holes: ["a"], expect: [("a", "1")], absent: []);
    evt_site!("evt-holes-unsorted", ("{c}{a}{b}", c: 3, a: 1, b: 2),
        msg: "312", holes: ["c", "a", "b"], expect: [("c", "3"), ("a", "1"), ("b", "2")], absent: []);
    evt_site!("evt-no-holes-extra-props", ("just text", #[emit::key("z")] a: 1, #[emit::key("a")] z: 2),
        msg: "just text", holes: [], expect: [("z", "1"), ("a", "2")], absent: []);
    if pick() {
        let base = emit::props! { #[emit::key("zz")] a: "base", b: "base-b", c: "base-c" };
        let site = Site {
            name: "evt-base-props",
            expect: &[("b", "evt"), ("0x", "1"), ("zz", "base"), ("c", "base-c")],
            exact: true,
            absent: &["a", "x"],
        };
        match emit::evt!(props: &base, "t {b} {x}", b: "evt", #[emit::key("0x")] x: 1) {
            evt => site_event(r, &site, &evt, "t evt 1", &["b", "0x"]),
        }
    }
    if pick() {
        let a = 1;
        let user = String::from("u");
        let site = Site {
            name: "evt-captured-from-scope",
            expect: &[("a", "1"), ("the.user", "u")],
            exact: true,
            absent: &["user"],
        };
        match emit::evt!("{a} {user}", #[emit::key("the.user")] user) {
            evt => site_event(r, &site, &evt, "1 u", &["a", "the.user"]),
        }
    }

    // ---- emit! through a runtime with a recording emitter and an ambient context ----
    let ctxt = tl();
    let ambient = [("a", "amb-a"), ("user.name", "amb-user"), ("v", "amb-v"), ("amb", "only-ambient")];
    Frame::root(ctxt, ambient).call(|| {
        let em = SiteEmitter {
            r: RefCell::new(&mut *r),
            site: Cell::new(None),
            called: Cell::new(0),
        };
        let rt = emit::runtime::Runtime::build(&em, Empty, ctxt, Empty, Empty);
        let mut expected_calls = 0;
        macro_rules! emit_site {
            ($name:literal, $mac:ident ( $($body:tt)* ), msg: $msg:expr, holes: $holes:expr, expect: $expect:expr, absent: $absent:expr) => {if pick() {
                let site = Site { name: $name, expect: &$expect, exact: false, absent: &$absent };
                let holes: &'static [&'static str] = &$holes;
                em.site.set(Some((site, $msg, holes)));
                expected_calls += 1;
                let res = catch(|| emit::$mac!(rt, $($body)*));
                em.site.set(None);
                if let Err(msg) = res {
                    em.r.borrow_mut().violation(&format!("C02:panic:any:site:{}", $name), &format!("call site panicked: {}", msg), json!({"section": "sites", "site": $name}));
                }
            }};
        }
        emit_site!("emit-plain-shadows-ambient", emit("e {a}", a: 1),
            msg: "e 1", holes: ["a"], expect: [("a", "1"), ("amb", "only-ambient"), ("v", "amb-v")], absent: ["b"]);
        emit_site!("emit-renamed-shadows-ambient", emit("e {user}", #[emit::key("user.name")] user: "Rust"),
            msg: "e Rust", holes: ["user.name"], expect: [("user.name", "Rust"), ("a", "amb-a")], absent: ["user"]);
        emit_site!("emit-renamed-sorts-after", emit("{aaa}-{bbb}", #[emit::key("zzz")] aaa: 1, bbb: 2),
            msg: "1-2", holes: ["zzz", "bbb"], expect: [("zzz", "1"), ("bbb", "2"), ("a", "amb-a")], absent: ["aaa"]);
        emit_site!("emit-optional-none-falls-to-ambient", emit("v={v}", #[emit::optional] v: None::<&i32>),
            msg: "v=amb-v", holes: ["v"], expect: [("v", "amb-v")], absent: []);
        emit_site!("emit-optional-some-shadows-ambient", emit("v={v}", #[emit::optional] v: Some(&9)),
            msg: "v=9", holes: ["v"], expect: [("v", "9")], absent: []);
        emit_site!("emit-cfg-renamed", emit("{x}|{y}", #[cfg(all())] #[emit::key("zz.x")] x: 1, #[cfg(any())] #[emit::key("a")] y: 2),
            msg: "1|", holes: ["zz.x"], expect: [("zz.x", "1"), ("a", "amb-a")], absent: ["x", "y"]);
        emit_site!("emit-info-level", info("i {n}", #[emit::key("0.n")] n: 1, z: 2),
            msg: "i 1", holes: ["0.n"], expect: [("0.n", "1"), ("z", "2"), ("lvl", "info"), ("amb", "only-ambient")], absent: ["n"]);
        emit_site!("emit-warn-level-no-props", warn("w"),
            msg: "w", holes: [], expect: [("lvl", "warn"), ("a", "amb-a")], absent: []);
        {
            let base = emit::props! { #[emit::key("zz")] k: "base", a: "base-a" };
            emit_site!("emit-base-props", emit(props: &base, "{k2} {a}", #[emit::key("k.2")] k2: 2, a: "own"),
                msg: "2 own", holes: ["k.2", "a"], expect: [("k.2", "2"), ("a", "own"), ("zz", "base"), ("amb", "only-ambient")], absent: ["k", "k2"]);
        }
        emit_site!("emit-when-true", emit(when: emit::filter::from_fn(|_| true), "f {a}", #[emit::key("z.a")] a: 1),
            msg: "f 1", holes: ["z.a"], expect: [("z.a", "1"), ("a", "amb-a")], absent: []);
        if em.called.get() != expected_calls {
            let n = em.called.get();
            em.r.borrow_mut().inconclusive(format!("the emit! sites reached the emitter {} times, expected {}", n, expected_calls));
        }
    });
}

// ---------------------------------------------------------------------------
// ambient-context snapshots whose keys are overridden by nested frames in another representation
// ---------------------------------------------------------------------------

/// A value as a frame is handed it: the ids as the TYPED values every active span pushes, or as
/// any other representation the id parsers accept (hex text, integers, a Display value), or junk.
#[derive(Clone, Debug)]
enum AVal {
    Trace(TraceId),
    Span(SpanId),
    Text(String),
    Shown(String),
    U128(u128),
    U64(u64),
    Plain(Val),
}

impl ToValue for AVal {
    fn to_value(&self) -> Value<'_> {
        match self {
            AVal::Trace(v) => v.to_value(),
            AVal::Span(v) => v.to_value(),
            AVal::Text(v) => v.to_value(),
            AVal::Shown(v) => Value::from_display(v),
            AVal::U128(v) => v.to_value(),
            AVal::U64(v) => v.to_value(),
            AVal::Plain(v) => v.to_value(),
        }
    }
}

#[derive(Clone, Copy, Debug, PartialEq)]
enum LevelKind {
    Push,
    Root,
    Disabled,
    /// `SpanCtxt::current(ctxt).new_child(rng).push(ctxt)`: the frame a span opens
    SpanCtxtPush,
    /// a real `#[emit::span]` function on the shared context
    MacroSpan,
}

#[derive(Clone, Debug)]
struct Level {
    kind: LevelKind,
    entries: Vec<(String, AVal)>,
}

struct AmbRng;

static AMB_RNG: AtomicU64 = AtomicU64::new(1);

impl emit::Rng for AmbRng {
    fn fill<A: AsMut<[u8]>>(&self, mut arr: A) -> Option<A> {
        let n = AMB_RNG.fetch_add(1, Ordering::Relaxed) | 1;
        for (i, b) in arr.as_mut().iter_mut().enumerate() {
            *b = n.to_le_bytes()[i % 8];
        }
        Some(arr)
    }
}

static AMB_RT: emit::runtime::Runtime<Empty, Empty, ThreadLocalCtxt, Empty, AmbRng> =
    emit::runtime::Runtime::build(Empty, Empty, ThreadLocalCtxt::shared(), Empty, AmbRng);

#[emit::span(rt: AMB_RT, "ambient span {n}")]
fn in_real_span(n: i32, body: &mut dyn FnMut()) {
    body()
}

const ORDINARY: [&str; 5] = ["a", "user", "k.1", "lvl", ""];

fn gen_aval(g: &mut Rng, key: &str, next: &mut i64) -> AVal {
    *next += 1;
    let n: u64 = *g.pick(&[1, 2, 0x2a, 0xdead_beef_0000_0001]);
    if ID_KEYS.contains(&key) {
        let trace = key == "trace_id";
        return match g.below(12) {
            0..=3 if trace => AVal::Trace(TraceId::from_u128(n as u128).unwrap()),
            0..=3 => AVal::Span(SpanId::from_u64(n).unwrap()),
            // the same id (often the very same text as a typed value elsewhere) as hex text
            4 | 5 if trace => AVal::Text(format!("{:032x}", n)),
            4 | 5 => AVal::Text(format!("{:016x}", n)),
            6 if trace => AVal::U128(n as u128),
            6 => AVal::U64(n),
            7 if trace => AVal::Shown(format!("{:032X}", n)),
            7 => AVal::Shown(format!("{:016x}", n)),
            // the other id's width, or not an id at all
            8 if trace => AVal::Text(format!("{:016x}", n)),
            8 => AVal::Text(format!("{:032x}", n)),
            9 => AVal::Text(g.pick(&["not-an-id", "", "0000000000000000", "zz"]).to_string()),
            10 if trace => AVal::Span(SpanId::from_u64(n).unwrap()),
            10 => AVal::Trace(TraceId::from_u128(n as u128).unwrap()),
            _ => AVal::Plain(g.pick(&[Val::Null, Val::B(true), Val::I(-1), Val::F(0.5)]).clone()),
        };
    }
    match g.below(6) {
        0 | 1 => AVal::Plain(Val::I(1000 + *next)),
        2 => AVal::Plain(Val::S(format!("s{}", next))),
        3 => AVal::Text(format!("{}", 1000 + *next - 1)),
        4 => AVal::Plain(g.pick(&[Val::B(false), Val::F(1.5), Val::Null, Val::U(u64::MAX)]).clone()),
        _ => AVal::Shown(format!("shown{}", next)),
    }
}

fn gen_levels(g: &mut Rng, shared: bool) -> Vec<Level> {
    let n = 1 + g.usize(4);
    let mut next = 0;
    (0..n)
        .map(|_| {
            let kind = match g.below(10) {
                0..=4 => LevelKind::Push,
                5 => LevelKind::Root,
                6 => LevelKind::Disabled,
                7 | 8 => LevelKind::SpanCtxtPush,
                _ if shared => LevelKind::MacroSpan,
                _ => LevelKind::Push,
            };
            let m = if kind == LevelKind::MacroSpan { 0 } else { g.usize(4) };
            let mut entries: Vec<(String, AVal)> = Vec::new();
            for _ in 0..m {
                let key = if g.chance(3, 5) { *g.pick(&ID_KEYS) } else { *g.pick(&ORDINARY) };
                if !entries.iter().any(|(k, _)| k == key) {
                    entries.push((key.to_string(), gen_aval(g, key, &mut next)));
                }
            }
            Level { kind, entries }
        })
        .collect()
}

/// Whether some key holds a typed id at one level and another representation at a later one.
fn overrides_typed(levels: &[Level]) -> bool {
    let mut typed: BTreeSet<&str> = BTreeSet::new();
    for l in levels {
        match l.kind {
            LevelKind::Root => typed.clear(),
            LevelKind::Disabled => continue,
            LevelKind::SpanCtxtPush | LevelKind::MacroSpan => {
                typed.insert("trace_id");
                typed.insert("span_id");
            }
            LevelKind::Push => {}
        }
        for (k, v) in &l.entries {
            match v {
                AVal::Trace(_) | AVal::Span(_) => {
                    typed.insert(k);
                }
                _ if typed.contains(k.as_str()) => return true,
                _ => {}
            }
        }
    }
    false
}

fn in_levels<C: Ctxt + Copy>(ctxt: C, levels: &[Level], k: &mut dyn FnMut()) {
    let Some((l, rest)) = levels.split_first() else {
        return k();
    };
    let mut next = || in_levels(ctxt, rest, k);
    match l.kind {
        LevelKind::Push => Frame::push(ctxt, &l.entries[..]).call(next),
        LevelKind::Root => Frame::root(ctxt, &l.entries[..]).call(next),
        LevelKind::Disabled => Frame::disabled(ctxt, &l.entries[..]).call(next),
        LevelKind::SpanCtxtPush => {
            let sc = SpanCtxt::current(ctxt).new_child(AmbRng);
            sc.push(ctxt).call(|| {
                if l.entries.is_empty() {
                    next()
                } else {
                    Frame::push(ctxt, &l.entries[..]).call(next)
                }
            })
        }
        LevelKind::MacroSpan => in_real_span(rest.len() as i32, &mut next),
    }
}

struct AmbCase<'a> {
    probes: &'a [String],
    text: &'a str,
    seed: u64,
    index: u64,
    shape: &'a str,
}

fn ambient_check<P: Props>(r: &mut Report, a: &AmbCase, form: &str, cur: &P) {
    r.eval();
    r.observe("ambient-snapshots", 1);
    let (mut typed, mut other_ids) = (0, 0);
    let _ = cur.for_each(|k, v| {
        if v.downcast_ref::<TraceId>().is_some() || v.downcast_ref::<SpanId>().is_some() {
            typed += 1;
        } else if ID_KEYS.contains(&k.get()) {
            other_ids += 1;
        }
        ControlFlow::Continue(())
    });
    if typed > 0 {
        r.observe("ambient-snapshots-holding-typed-ids", 1);
    }
    if other_ids > 0 {
        r.observe("ambient-snapshots-holding-an-id-key-in-another-representation", 1);
    }
    let kind = format!("ambient-snapshot:{}", form);
    let case = || json!({"section": "ambient", "seed": a.seed, "index": a.index, "form": form, "levels": a.text});
    let cx = Cx {
        kind: &kind,
        probes: a.probes,
        buf: "",
        case: &case,
    };
    match catch(|| check_all(r, &cx, cur)) {
        Ok(f) => note_facts(r, &f, &format!("{}:{}", form, a.shape)),
        Err(msg) => viol(r, &cx, "panic", "any", format!("panicked: {}", msg)),
    }
}

/// The snapshot forms every context offers: live inside `with_current`, and a captured
/// `Frame::current` entered after every scope that built it has been left.
fn ambient_forms<C: Ctxt + Copy>(r: &mut Report, a: &AmbCase, ctxt: C, which: &str, levels: &[Level])
where
    C::Current: Sized,
{
    in_levels(ctxt, levels, &mut || ctxt.with_current(|cur| ambient_check(r, a, &format!("live-with_current-{}", which), cur)));
    let mut captured: Option<Frame<C>> = None;
    in_levels(ctxt, levels, &mut || captured = Some(Frame::current(ctxt)));
    if let Some(mut f) = captured {
        f.with(|cur| ambient_check(r, a, &format!("captured-frame-with-{}", which), cur));
        let _entered = f.enter();
        ctxt.with_current(|cur| ambient_check(r, a, &format!("captured-frame-entered-later-{}", which), cur));
    }
}

fn ambient_case(r: &mut Report, seed: u64, i: u64) {
    let mut g = Rng::stream(seed, &[2, 3, i]);
    let which = g.below(4);
    let levels = gen_levels(&mut g, which == 1);
    let text = format!("{:?}", levels);
    let mut probes: Vec<String> = ID_KEYS.iter().chain(ORDINARY.iter()).chain(NEVER.iter().take(2)).map(|s| s.to_string()).collect();
    probes.extend(["evt_kind", "span_name"].iter().map(|s| s.to_string()));
    let shape = format!("{:?}", levels.iter().map(|l| (l.kind, l.entries.iter().map(|(k, v)| (ID_KEYS.contains(&k.as_str()), std::mem::discriminant(v))).collect::<Vec<_>>())).collect::<Vec<_>>());
    let a = AmbCase {
        probes: &probes,
        text: &text,
        seed,
        index: i,
        shape: &shape,
    };
    r.observe("ambient-scenarios", 1);
    if overrides_typed(&levels) {
        r.observe("ambient-scenarios-overriding-a-typed-id-with-another-representation", 1);
    }
    let own = tl();
    match which {
        0 => ambient_forms(r, &a, own, "own", &levels),
        1 => ambient_forms(r, &a, ThreadLocalCtxt::shared(), "shared", &levels),
        2 => {
            let erased: &dyn emit::ctxt::ErasedCtxt = &own;
            ambient_forms(r, &a, erased, "erased", &levels)
        }
        _ => {
            // a captured frame carried to another thread, and the frame itself as a collection
            let mut captured: Option<Frame<ThreadLocalCtxt>> = None;
            in_levels(own, &levels, &mut || captured = Some(Frame::current(own)));
            if let Some(f) = captured {
                ambient_check(r, &a, "captured-frame-inner-own", f.inner());
                let mut child = r.child();
                std::thread::scope(|s| {
                    let child = &mut child;
                    let a = &a;
                    let _ = s
                        .spawn(move || f.call(|| own.with_current(|cur| ambient_check(child, a, "captured-frame-on-another-thread-own", cur))))
                        .join();
                });
                r.merge(child);
            }
        }
    }
}

// ---------------------------------------------------------------------------
// main
// ---------------------------------------------------------------------------

/// AddressSanitizer interns one stack trace per distinct allocation *path*; the recursive,
/// continuation-passing builders above make those paths combinatorial (its stack depot grew by
/// ~60 KB per evaluation, tens of GB at thorough sizes). Short allocation contexts bound the depot;
/// the access stack of a report is unaffected. Defaults only: `ASAN_OPTIONS` still overrides, and
/// the symbol is simply unused in non-sanitizer builds.
#[no_mangle]
pub extern "C" fn __asan_default_options() -> *const std::os::raw::c_char {
    b"malloc_context_size=6\0".as_ptr() as *const std::os::raw::c_char
}

fn dynamic_case(r: &mut Report, seed: u64, i: u64) {
    let mut x = Gen::new(Rng::stream(seed, &[2, 1, i]));
    let node = gen_node(&mut x, 0);
    let (wk, nv, extra) = if tiny() { (2, 1, 1) } else { (WELL_KNOWN.len(), NEVER.len(), 3) };
    let skip = x.g.usize(WELL_KNOWN.len() - wk + 1);
    let probes: Vec<String> = x
        .keys
        .iter()
        .cloned()
        .chain(WELL_KNOWN.iter().skip(skip).take(wk).map(|s| s.to_string()))
        .chain(NEVER.iter().take(nv).map(|s| s.to_string()))
        .chain((0..extra).map(|_| x.g.pick(POOL).to_string()))
        .collect();
    let text = format!("{:?}", node);
    let arena = x.arena.clone();
    // with a shared key buffer: also probe the ancestors of the dotted path and a few more slices
    let mut probes = probes;
    if arena.aliased() {
        for (at, _) in arena.buf.match_indices('.') {
            probes.push(arena.buf[..at].to_string());
        }
        probes.push(arena.buf.clone());
        probes.push(String::new());
        for _ in 0..3 {
            probes.push(arena.slice(&mut x.g).to_string());
        }
    }
    let case = || json!({"section": "dynamic", "seed": seed, "index": i, "tree": text, "key_buffer": arena.buf});
    check_tree(r, &node, &arena, &probes, &case);
}

fn static_case(r: &mut Report, seed: u64, i: u64, only: Option<&str>) {
    let env = Env::new(Rng::stream(seed, &[2, 2, i]));
    let entries = format!("{:?}", env.e);
    let case = || json!({"section": "static", "seed": seed, "index": i, "entries": entries});
    static_shapes(r, &env, only, &case);
}

fn main() {
    let args = Args::parse();
    let mut r = Report::new(
        "C02",
        &args,
        "one evaluation = one collection (a dynamic tree, a static generic shape over seeded entries, or a macro call site) checked through \
         all its views (value, &, dyn ErasedProps, dedup(), as_map()); non-trivial = distinct collection shapes (constructor tree with sizes / \
         static shape with its duplicate pattern / call site) that enumerated at least 2 entries and at least one key twice",
    );

    if let Some(path) = &args.replay {
        let case = load_replay(path);
        let seed = case.get("seed").and_then(|v| v.as_u64()).unwrap_or(args.seed);
        let index = case.get("index").and_then(|v| v.as_u64()).unwrap_or(0);
        match case.get("section").and_then(|v| v.as_str()) {
            Some("dynamic") => dynamic_case(&mut r, seed, index),
            Some("static") => static_case(&mut r, seed, index, case.get("shape").and_then(|v| v.as_str())),
            Some("ambient") => ambient_case(&mut r, seed, index),
            Some("handed") => c02_handed::handed_case(&mut r, seed, index),
            _ => macro_sites(&mut r),
        }
        std::process::exit(r.finish());
    }

    // the real-span level of the ambient section must really push typed ids
    {
        let mut typed = false;
        in_real_span(0, &mut || {
            ThreadLocalCtxt::shared().with_current(|cur| typed = cur.get("span_id").map(|v| v.downcast_ref::<SpanId>().is_some()).unwrap_or(false))
        });
        if !typed {
            r.inconclusive("an #[emit::span] function on the monitor's runtime did not push a typed span_id: the ambient section lacks its real-span frames");
        }
    }

    let seed = args.seed;
    // Miri interprets ~10^4 x slower than the optimised build: sizes there are absolute (times
    // --scale) and the fixed sections are sub-sampled by seed (`--tiny 1` does the same natively)
    let miri = cfg!(miri) || args.get("tiny").is_some();

    // 1. macro call sites (fixed)
    if miri {
        set_stride(8, seed);
    }
    macro_sites(&mut r);

    // 2. static generic shapes over seeded entries
    if miri {
        set_stride(16, seed);
    }
    let n_static = if miri { 1 } else { args.n(1_000, 30_000) };
    par_cases(&mut r, &args, n_static, |i, r| static_case(r, seed, i, None));

    // 2b. ambient snapshots with overridden (typed) ids
    let n_amb = if miri { (3 * args.scale / 100).max(1) } else { args.n(12_000, 400_000) };
    par_cases(&mut r, &args, n_amb, |i, r| ambient_case(r, seed, i));

    // 2c. what emit itself hands on: to a wrapped / erased / forwarded-to context in `open_*`, and to
    // filters and emitters after `and_props(ctxt)`, over every composition of the workspace's wrappers
    let n_handed = if miri { (2 * args.scale / 100).max(1) } else { args.n(8_000, 250_000) };
    par_cases(&mut r, &args, n_handed, |i, r| c02_handed::handed_case(r, seed, i));
    if !miri && r.observed.get("props-handed-on-by-emit-with-entries").copied().unwrap_or(0) == 0 {
        r.inconclusive("no non-empty property collection was handed on to the recording context / filter / emitter: the 'handed' section observed nothing");
    }

    // 3. dynamic trees
    let n_dyn = if miri { (5 * args.scale / 100).max(1) } else { args.n(130_000, 5_400_000) };
    par_cases(&mut r, &args, n_dyn, |i, r| dynamic_case(r, seed, i));

    std::process::exit(r.finish());
}
