/*!
C06 — the batching channel neither loses, duplicates nor reorders accepted items.

Drives the real `emit_batcher` channel with seeded scenarios (see `shared/chan.rs`) and
evaluates an offline history checker after sender drop and receiver exit:

1. no invention / no duplication over first-attempt batches;
2. a retry is handed exactly the remainder the processor returned (or, once the retry budget
   measured at start-up is exhausted, a fresh batch);
3. delivery order never contradicts the real-time order of sends (return stamp < call stamp);
4. conservation: accepted = delivered ⊎ truncated, every truncation removes exactly a full
   queue, contiguous per sender, and is counted by `queue_full_truncated`; items pending at
   teardown are tolerated only when the scenario dropped the receiver early;
5. sequential histories are compared step by step with a queue model through `verif_snapshot()`.
*/

#[path = "../shared/chan.rs"]
mod chan;
#[cfg(not(miri))]
#[allow(dead_code)]
#[path = "../shared/chanvt.rs"]
mod chanvt;
#[cfg(not(miri))]
#[path = "../shared/chan_sampler.rs"]
mod chan_sampler;

use chan::*;
use vcommon::*;

fn main() {
    let args = Args::parse();
    let mut r = Report::new(
        "C06",
        &args,
        "one evaluation = one scenario history (scripted senders / flushers / watchers, one receiver flavour, scripted processor) judged by the offline checker; \
         non-trivial = distinct interleaving signatures (hash of the first 64 (actor role, scheduling point) pairs in stamp order, from the first non-receiver point) \
         of histories in which at least two actors alternate inside that window",
    );
    let cfg = GenCfg::from_args(&args, Focus::Items);
    let budget = calibrate_retry_budget();
    match budget {
        Some(b) => r.set("retry_budget_measured", json!(b)),
        None => r.inconclusive("retry budget could not be measured (no give-up within 64 attempts): early give-ups are not judged"),
    }
    let seed = args.seed;
    let run_case = |i: u64, r: &mut Report| {
        if lane_poisoned() {
            r.inconclusive("receiver threads did not exit after the sender was dropped (left behind); the remaining histories of this lane were skipped");
            return;
        }
        let plan = gen_plan(seed, 6, i, &cfg);
        let h = run_plan(&plan, cfg.delays);
        r.eval();
        observe_history(&h, r);
        let seen = check_c06(&h, budget, r);
        if seen.truncation {
            r.observe("histories:exercised-truncation", 1);
        }
        if seen.retry {
            r.observe("histories:exercised-retry", 1);
        }
        if seen.exhausted {
            r.observe("histories:exhausted-retry-budget", 1);
        }
        if seen.panic {
            r.observe("histories:exercised-processor-panic", 1);
        }
        if h.early_drop() {
            r.observe("histories:receiver-dropped-early", 1);
        }
        if !cfg!(miri) && r.wants_sample() && h.batches.len() >= 3 && h.sends.len() >= 8 && h.sends.len() <= 80 && (seen.truncation || seen.retry) {
            r.sample(|| sample_json(&h));
        }
    };

    if let Some(path) = &args.replay {
        let case = load_replay(path);
        let i = case.get("case").and_then(|v| v.as_u64()).unwrap_or(0);
        let reps = if cfg!(miri) { 1 } else { 300 };
        for _ in 0..reps {
            run_case(i, &mut r);
        }
        r.set("distinct_batch_partitions", json!(partitions_seen()));
        std::process::exit(r.finish());
    }

    let n = args.get_u64("histories", args.n(3_000, 200_000));
    par_cases(&mut r, &args, n, run_case);
    // metrics sampled next to a live channel: slow, panicking and re-entrant samplers must not cost an accepted item
    #[cfg(not(miri))]
    if args.lane != "tsan" {
        let n_s = args.n(24, 600);
        // receiver threads sleep for real between polls: scale the delays (the logical back-off state is untouched)
        emit_batcher::verif::set_delay_divisor(1000);
        par_cases(&mut r, &args, n_s, |i, r| chan_sampler::sampler_case(r, "C06", seed, i));
        emit_batcher::verif::set_delay_divisor(1);
    }
    r.set("distinct_batch_partitions", json!(partitions_seen()));
    std::process::exit(r.finish());
}
