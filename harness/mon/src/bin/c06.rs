/*!
C06 — the batching channel neither loses, duplicates nor reorders accepted items.

Drives the real `emit_batcher` channel with seeded scenarios (see `shared/chan.rs`) and
evaluates an offline history checker after sender drop and receiver exit:

1. no invention / no duplication over first-attempt batches;
2. a retry is handed exactly the remainder the processor returned (or, once the retry budget
   measured at start-up is exhausted, a fresh batch);
3. delivery order never contradicts the real-time order of sends (return stamp < call stamp);
4. conservation: accepted = delivered ⊎ truncated, every truncation removes exactly a full
   queue, contiguous per sender, and is counted by `queue_full_truncated`; items pending at
   teardown are tolerated only when the scenario dropped the receiver early;
5. sequential histories are compared step by step with a queue model through `verif_snapshot()`.

`stress` section (native only, tiny under the sanitizer lane): the truncation accounting while several
senders truncate AT THE SAME TIME. Capacity 1-8, 2-16 sender threads doing nothing but plain sends
(10^4-10^5 each), so nearly every send truncates; (a) the receiver never runs while they send and,
at quiescence, `sent == queue_full_truncated x capacity + queue_length` through the public
`metric_source()`, then the queue is drained and its own account of the `clear()` calls compared;
(b) a slow receiver thread runs next to the senders and, with ids, `sent == delivered +
queue_full_truncated x capacity`, lost == exactly what the truncations removed, each a whole-queue run.

How the remainder is EXPRESSED: in two thirds of the failing `on_batch` calls of every history the scripted
processor does not build its `Err` with `BatchError::retry` / `no_retry` directly but derives it, like a
layered processor, from an inner "transport" error through the rest of the public `BatchError` API
(`map_retryable` in all four directions, two maps in a row, `try_into_retryable`, `into_retryable`,
`BatchError<()>` / `BatchError<Vec<_>>` inner errors; table `VIA_RETRY` / `VIA_NO_RETRY` in `shared/chan.rs`,
own seeded stream, the plans are unchanged). The offline checker is the same: the next call is exactly the
remainder the processor ended up expressing (signature suffix `:expressed-through=..:from=..`), and a failure
expressed as non-retryable is never followed by its own items. `combinators` section: the same API judged on
its own against the model `Option<remainder>`: `e.map_retryable(f)` holds `f(current)`, `f` runs exactly once
and sees `current`, for current in {None, Some(x)} and every kind of `f`, also twice in a row and across
element types; `try_into_retryable` / `into_retryable` give back exactly `current`.
*/

#[path = "../shared/chan.rs"]
mod chan;
#[cfg(not(miri))]
#[allow(dead_code)]
#[path = "../shared/chanvt.rs"]
mod chanvt;
#[cfg(not(miri))]
#[path = "../shared/chan_sampler.rs"]
mod chan_sampler;

use chan::*;
use vcommon::*;

type Rm = Option<Vec<u32>>;

fn rm_name(c: &Rm) -> &'static str {
    if c.is_some() { "some" } else { "none" }
}

const F_KINDS: [&str; 6] = ["always-none", "always-some", "identity", "trim-or-none", "upgrade-none-keep-some", "swap"];

/// one closure a layer may pass to `map_retryable`, as a pure function (used by the model and, wrapped, by the real call)
fn f_apply(kind: usize, y: &[u32], c: Rm) -> Rm {
    match kind {
        0 => None,
        1 => Some(y.to_vec()),
        2 => c,
        3 => c.map(|v| v[v.len() / 2..].to_vec()),
        4 => Some(c.unwrap_or_else(|| y.to_vec())),
        _ => match c {
            Some(_) => None,
            None => Some(y.to_vec()),
        },
    }
}

fn be_build(c: &Rm) -> emit_batcher::BatchError<Vec<u32>> {
    match c {
        Some(v) => emit_batcher::BatchError::retry(TransportErr, v.clone()),
        None => emit_batcher::BatchError::no_retry(TransportErr),
    }
}

/// `BatchError` against the model `Option<remainder>`; returns the number of violations it reported
fn combinator_case(r: &mut Report, seed: u64, i: u64) -> u64 {
    use std::cell::RefCell;
    let mut g = Rng::stream(seed, &[6, 40, i]);
    let gen_v = |g: &mut Rng| -> Vec<u32> { (0..g.range(0, 6)).map(|_| g.below(1000) as u32).collect() };
    // every (current, f) pair is covered in the first 12 cases; the values are seeded
    let cur: Rm = if i % 2 == 0 { None } else { Some(gen_v(&mut g)) };
    let k1 = ((i / 2) % 6) as usize;
    let k2 = g.usize(6);
    let (y1, y2) = (gen_v(&mut g), gen_v(&mut g));
    let before = r.violation_count();
    let case = |what: &str, got: &Rm, want: &Rm| json!({"section": "combinators", "seed": seed, "case": i, "current": cur, "f": F_KINDS[k1], "f2": F_KINDS[k2], "y": y1, "y2": y2, "step": what, "got": got, "model": want});
    r.observe("batch-error-combinator-cases", 1);

    // constructors + into_retryable / try_into_retryable
    let got = be_build(&cur).into_retryable();
    if got != cur {
        r.violation(&format!("C06:batch-error:into_retryable:from={}:gives-{}", rm_name(&cur), rm_name(&got)), "into_retryable() does not give back the remainder the error was built with", case("into_retryable", &got, &cur));
    }
    let got = match be_build(&cur).try_into_retryable() {
        Ok(v) => Some(v),
        Err(e) => {
            let inner = e.into_retryable();
            if inner.is_some() {
                r.violation(&format!("C06:batch-error:try_into_retryable:from={}:err-still-retryable", rm_name(&cur)), "try_into_retryable() returned Err with an error that carries a remainder", case("try_into_retryable", &inner, &None));
            }
            None
        }
    };
    if got != cur {
        r.violation(&format!("C06:batch-error:try_into_retryable:from={}:gives-{}", rm_name(&cur), rm_name(&got)), "try_into_retryable() is not Ok(remainder) exactly when the error carries one", case("try_into_retryable", &got, &cur));
    }

    // one map, then a second one on its result
    let mut model = cur.clone();
    let mut e = be_build(&cur);
    for (step, (k, y)) in [(k1, &y1), (k2, &y2)].into_iter().enumerate() {
        let name = if step == 0 { "map_retryable" } else { "map_retryable-twice" };
        let want = f_apply(k, y, model.clone());
        let seen: RefCell<Vec<Rm>> = RefCell::new(Vec::new());
        let mapped = e.map_retryable(|c| {
            seen.borrow_mut().push(c.clone());
            f_apply(k, y, c)
        });
        let seen = seen.into_inner();
        if seen.len() != 1 {
            r.violation(&format!("C06:batch-error:{}:closure-ran-{}-times:from={}", name, seen.len().min(2), rm_name(&model)), "map_retryable must hand the current remainder (or None) to the closure exactly once", case(name, &None, &want));
        } else if seen[0] != model {
            r.violation(&format!("C06:batch-error:{}:closure-saw-{}:from={}", name, rm_name(&seen[0]), rm_name(&model)), "the closure given to map_retryable did not see the current remainder", case(name, &seen[0], &model));
        }
        // read the result without losing it: rebuild from what it held
        let got = mapped.into_retryable();
        if got != want {
            let how = match (&got, &want) {
                (None, Some(_)) => "remainder-dropped",
                (Some(_), None) => "remainder-invented",
                _ => "other-remainder",
            };
            r.violation(
                &format!("C06:batch-error:{}:{}:from={}:f={}", name, how, rm_name(&model), F_KINDS[k]),
                &format!("e.map_retryable(f) must hold f(current): current is {}, f(current) is {}, the result holds {}", rm_name(&model), rm_name(&want), rm_name(&got)),
                case(name, &got, &want),
            );
        }
        model = want;
        e = be_build(&got);
    }

    // across element types: T -> () -> T
    let unit = be_build(&cur).map_retryable(|c| c.map(|_| ()));
    let want_u = cur.as_ref().map(|_| ());
    let back = unit.map_retryable(|c| {
        if c != want_u {
            None
        } else {
            f_apply(k1, &y1, c.map(|()| y2.clone()))
        }
    });
    let want = f_apply(k1, &y1, cur.as_ref().map(|_| y2.clone()));
    let got = back.into_retryable();
    if got != want {
        r.violation(&format!("C06:batch-error:map_retryable-through-unit:from={}:f={}", rm_name(&cur), F_KINDS[k1]), "BatchError<T> -> BatchError<()> -> BatchError<T> through map_retryable does not hold what the closures returned", case("through-unit", &got, &want));
    }
    r.violation_count() - before
}

fn main() {
    let args = Args::parse();
    let mut r = Report::new(
        "C06",
        &args,
        "one evaluation = one scenario history (scripted senders / flushers / watchers, one receiver flavour, scripted processor) judged by the offline checker; \
         non-trivial = distinct interleaving signatures (hash of the first 64 (actor role, scheduling point) pairs in stamp order, from the first non-receiver point) \
         of histories in which at least two actors alternate inside that window",
    );
    let cfg = GenCfg::from_args(&args, Focus::Items);
    let budget = calibrate_retry_budget();
    match budget {
        Some(b) => r.set("retry_budget_measured", json!(b)),
        None => r.inconclusive("retry budget could not be measured (no give-up within 64 attempts): early give-ups are not judged"),
    }
    let seed = args.seed;
    // after the calibration (which must measure the budget with directly built errors)
    set_express_through_combinators(args.get("express").map(|v| v != "0").unwrap_or(true));
    let run_case = |i: u64, r: &mut Report| {
        if lane_poisoned() {
            r.inconclusive("receiver threads did not exit after the sender was dropped (left behind); the remaining histories of this lane were skipped");
            return;
        }
        let plan = gen_plan(seed, 6, i, &cfg);
        let h = run_plan(&plan, cfg.delays);
        r.eval();
        observe_history(&h, r);
        for b in &h.batches {
            if b.via != 0 {
                match b.out {
                    Out::Retry => r.observe(&format!("on_batch-retry-expressed-through:{}:from={}", VIA_RETRY[b.via as usize].0, VIA_RETRY[b.via as usize].1), 1),
                    Out::NoRetry => r.observe(&format!("on_batch-no-retry-expressed-through:{}:from={}", VIA_NO_RETRY[b.via as usize].0, VIA_NO_RETRY[b.via as usize].1), 1),
                    _ => {}
                }
            }
        }
        let seen = check_c06(&h, budget, r);
        if seen.truncation {
            r.observe("histories:exercised-truncation", 1);
        }
        if seen.retry {
            r.observe("histories:exercised-retry", 1);
        }
        if seen.exhausted {
            r.observe("histories:exhausted-retry-budget", 1);
        }
        if seen.panic {
            r.observe("histories:exercised-processor-panic", 1);
        }
        if h.early_drop() {
            r.observe("histories:receiver-dropped-early", 1);
        }
        if !cfg!(miri) && r.wants_sample() && h.batches.len() >= 3 && h.sends.len() >= 8 && h.sends.len() <= 80 && (seen.truncation || seen.retry) {
            r.sample(|| sample_json(&h));
        }
    };

    // 0 = sanitizer lane (tiny), 1 = quick, 2 = thorough
    let stress_size: u8 = if args.lane == "tsan" { 0 } else if args.thorough() { 2 } else { 1 };

    if let Some(path) = &args.replay {
        let case = load_replay(path);
        #[cfg(not(miri))]
        if case.get("section").and_then(|v| v.as_str()) == Some("stress") {
            let cseed = case.get("seed").and_then(|v| v.as_u64()).unwrap_or(seed);
            let round = case.get("round").and_then(|v| v.as_u64()).unwrap_or(0);
            emit_batcher::verif::set_delay_divisor(1000);
            for _ in 0..8 {
                stress_round(&mut r, "C06", &gen_stress(cseed, round, stress_size));
            }
            emit_batcher::verif::set_delay_divisor(1);
            std::process::exit(r.finish());
        }
        let i = case.get("case").and_then(|v| v.as_u64()).unwrap_or(0);
        let reps = if cfg!(miri) { 1 } else { 300 };
        for _ in 0..reps {
            run_case(i, &mut r);
        }
        r.set("distinct_batch_partitions", json!(partitions_seen()));
        std::process::exit(r.finish());
    }

    let n = args.get_u64("histories", args.n(3_000, 200_000));
    par_cases(&mut r, &args, n, run_case);
    // the BatchError combinators on their own (model = Option<remainder>)
    {
        let n_c = args.get_u64("combinator-cases", if cfg!(miri) { 24 } else { args.n(4_000, 100_000) });
        let mut bad = 0u64;
        for i in 0..n_c {
            bad += combinator_case(&mut r, seed, i);
            if bad >= 8 {
                break;
            }
        }
        r.set("batch_error_combinator_cases", json!(n_c));
    }
    // the truncation accounting under concurrent truncations: the rounds run one after the other, each owns the machine
    #[cfg(not(miri))]
    if args.get("stress").map(|v| v != "0").unwrap_or(true) {
        emit_batcher::verif::set_delay_divisor(1000);
        let rounds = args.get_u64("stress-rounds", match stress_size {
            0 => 6,
            1 => 24,
            _ => 150,
        });
        let (mut trunc, mut overlapping) = (0u64, 0u64);
        for k in 0..rounds {
            let seen = stress_round(&mut r, "C06", &gen_stress(seed, k, stress_size));
            trunc += seen.truncations;
            overlapping += seen.overlapping;
        }
        r.set("stress_rounds", json!({"rounds": rounds, "truncations": trunc, "truncations_overlapping_other_sends": overlapping}));
        emit_batcher::verif::set_delay_divisor(1);
    }
    // metrics sampled next to a live channel: slow, panicking and re-entrant samplers must not cost an accepted item
    #[cfg(not(miri))]
    if args.lane != "tsan" {
        let n_s = args.n(24, 600);
        // receiver threads sleep for real between polls: scale the delays (the logical back-off state is untouched)
        emit_batcher::verif::set_delay_divisor(1000);
        par_cases(&mut r, &args, n_s, |i, r| chan_sampler::sampler_case(r, "C06", seed, i));
        emit_batcher::verif::set_delay_divisor(1);
    }
    r.set("distinct_batch_partitions", json!(partitions_seen()));
    std::process::exit(r.finish());
}
