/*!
C06 — the batching channel neither loses, duplicates nor reorders accepted items.

Drives the real `emit_batcher` channel with seeded scenarios (see `shared/chan.rs`) and
evaluates an offline history checker after sender drop and receiver exit:

1. no invention / no duplication over first-attempt batches;
2. a retry is handed exactly the remainder the processor returned (or, once the retry budget
   measured at start-up is exhausted, a fresh batch);
3. delivery order never contradicts the real-time order of sends (return stamp < call stamp);
4. conservation: accepted = delivered ⊎ truncated, every truncation removes exactly a full
   queue, contiguous per sender, and is counted by `queue_full_truncated`; items pending at
   teardown are tolerated only when the scenario dropped the receiver early;
5. sequential histories are compared step by step with a queue model through `verif_snapshot()`.

`stress` section (native only, tiny under the sanitizer lane): the truncation accounting while several
senders truncate AT THE SAME TIME. Capacity 1-8, 2-16 sender threads doing nothing but plain sends
(10^4-10^5 each), so nearly every send truncates; (a) the receiver never runs while they send and,
at quiescence, `sent == queue_full_truncated x capacity + queue_length` through the public
`metric_source()`, then the queue is drained and its own account of the `clear()` calls compared;
(b) a slow receiver thread runs next to the senders and, with ids, `sent == delivered +
queue_full_truncated x capacity`, lost == exactly what the truncations removed, each a whole-queue run.
*/

#[path = "../shared/chan.rs"]
mod chan;
#[cfg(not(miri))]
#[allow(dead_code)]
#[path = "../shared/chanvt.rs"]
mod chanvt;
#[cfg(not(miri))]
#[path = "../shared/chan_sampler.rs"]
mod chan_sampler;

use chan::*;
use vcommon::*;

fn main() {
    let args = Args::parse();
    let mut r = Report::new(
        "C06",
        &args,
        "one evaluation = one scenario history (scripted senders / flushers / watchers, one receiver flavour, scripted processor) judged by the offline checker; \
         non-trivial = distinct interleaving signatures (hash of the first 64 (actor role, scheduling point) pairs in stamp order, from the first non-receiver point) \
         of histories in which at least two actors alternate inside that window",
    );
    let cfg = GenCfg::from_args(&args, Focus::Items);
    let budget = calibrate_retry_budget();
    match budget {
        Some(b) => r.set("retry_budget_measured", json!(b)),
        None => r.inconclusive("retry budget could not be measured (no give-up within 64 attempts): early give-ups are not judged"),
    }
    let seed = args.seed;
    let run_case = |i: u64, r: &mut Report| {
        if lane_poisoned() {
            r.inconclusive("receiver threads did not exit after the sender was dropped (left behind); the remaining histories of this lane were skipped");
            return;
        }
        let plan = gen_plan(seed, 6, i, &cfg);
        let h = run_plan(&plan, cfg.delays);
        r.eval();
        observe_history(&h, r);
        let seen = check_c06(&h, budget, r);
        if seen.truncation {
            r.observe("histories:exercised-truncation", 1);
        }
        if seen.retry {
            r.observe("histories:exercised-retry", 1);
        }
        if seen.exhausted {
            r.observe("histories:exhausted-retry-budget", 1);
        }
        if seen.panic {
            r.observe("histories:exercised-processor-panic", 1);
        }
        if h.early_drop() {
            r.observe("histories:receiver-dropped-early", 1);
        }
        if !cfg!(miri) && r.wants_sample() && h.batches.len() >= 3 && h.sends.len() >= 8 && h.sends.len() <= 80 && (seen.truncation || seen.retry) {
            r.sample(|| sample_json(&h));
        }
    };

    // 0 = sanitizer lane (tiny), 1 = quick, 2 = thorough
    let stress_size: u8 = if args.lane == "tsan" { 0 } else if args.thorough() { 2 } else { 1 };

    if let Some(path) = &args.replay {
        let case = load_replay(path);
        #[cfg(not(miri))]
        if case.get("section").and_then(|v| v.as_str()) == Some("stress") {
            let cseed = case.get("seed").and_then(|v| v.as_u64()).unwrap_or(seed);
            let round = case.get("round").and_then(|v| v.as_u64()).unwrap_or(0);
            emit_batcher::verif::set_delay_divisor(1000);
            for _ in 0..8 {
                stress_round(&mut r, "C06", &gen_stress(cseed, round, stress_size));
            }
            emit_batcher::verif::set_delay_divisor(1);
            std::process::exit(r.finish());
        }
        let i = case.get("case").and_then(|v| v.as_u64()).unwrap_or(0);
        let reps = if cfg!(miri) { 1 } else { 300 };
        for _ in 0..reps {
            run_case(i, &mut r);
        }
        r.set("distinct_batch_partitions", json!(partitions_seen()));
        std::process::exit(r.finish());
    }

    let n = args.get_u64("histories", args.n(3_000, 200_000));
    par_cases(&mut r, &args, n, run_case);
    // the truncation accounting under concurrent truncations: the rounds run one after the other, each owns the machine
    #[cfg(not(miri))]
    if args.get("stress").map(|v| v != "0").unwrap_or(true) {
        emit_batcher::verif::set_delay_divisor(1000);
        let rounds = args.get_u64("stress-rounds", match stress_size {
            0 => 6,
            1 => 24,
            _ => 150,
        });
        let (mut trunc, mut overlapping) = (0u64, 0u64);
        for k in 0..rounds {
            let seen = stress_round(&mut r, "C06", &gen_stress(seed, k, stress_size));
            trunc += seen.truncations;
            overlapping += seen.overlapping;
        }
        r.set("stress_rounds", json!({"rounds": rounds, "truncations": trunc, "truncations_overlapping_other_sends": overlapping}));
        emit_batcher::verif::set_delay_divisor(1);
    }
    // metrics sampled next to a live channel: slow, panicking and re-entrant samplers must not cost an accepted item
    #[cfg(not(miri))]
    if args.lane != "tsan" {
        let n_s = args.n(24, 600);
        // receiver threads sleep for real between polls: scale the delays (the logical back-off state is untouched)
        emit_batcher::verif::set_delay_divisor(1000);
        par_cases(&mut r, &args, n_s, |i, r| chan_sampler::sampler_case(r, "C06", seed, i));
        emit_batcher::verif::set_delay_divisor(1);
    }
    r.set("distinct_batch_partitions", json!(partitions_seen()));
    std::process::exit(r.finish());
}
