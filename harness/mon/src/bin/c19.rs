/*!
C19 — captured values keep their type and structure from call site to sink.

Workload: hand-written macro call sites (`emit::evt!`, `emit::props!`, `emit::emit!(rt: ..)`), one
per capture attribute × value class, driven with seeded [`ModelValue`]s (primitives at their
extremes, hostile strings, nested structs / enums / options / sequences / maps, error chains).

Every captured value is read back on these paths and compared with the *original*:

* `direct`   – `evt.props()` of the concrete macro-built props type
* `erased`   – through `evt.erase()` (`&dyn ErasedProps`)
* `props`    – the same capture through `emit::props!`
* `emitter`  – inside a recording emitter reached through `emit::emit!(rt: ..)` (macro → runtime →
               filter → emitter) with the value read on the emitter side
* `owned` / `shared` – `Value::to_owned()` / `to_shared()` then `by_ref()`
* `ctxt`     – buffered through `Frame::push(ThreadLocalCtxt, props)` and read in `with_current`
* `thread`   – the owned value moved to another thread and read there

Oracle (from the property statement): typed pulls return the original (bit-exact floats incl.
NaN-ness and −0), Display / Debug text equal the original's, serde_json / sval_json of a value
captured by serde / sval equal direct serialisation of the original by that consumer, error chains
keep their `source()` messages, `None` adds no key. On the buffered paths only numbers, booleans,
strings and structured values are constrained (the statement lists only those).
*/

use std::{
    sync::{Arc, Mutex},
    time::Duration,
};

use emit::{Emitter, Props, Value};
use vcommon::{
    model::{Framework, ModelError, ModelValue as M, *},
    rec::{CountingRng, FakeClock},
    *,
};

const KNOWN_SEQ: &str = "C19:sval-captured-seq:via-serde:malformed";

// ---------------------------------------------------------------------------
// observations
// ---------------------------------------------------------------------------

#[derive(Clone, Debug, Default)]
struct Typed {
    bool_: Option<bool>,
    i8_: Option<i8>,
    i16_: Option<i16>,
    i32_: Option<i32>,
    i64_: Option<i64>,
    i128_: Option<i128>,
    isize_: Option<isize>,
    u8_: Option<u8>,
    u16_: Option<u16>,
    u32_: Option<u32>,
    u64_: Option<u64>,
    u128_: Option<u128>,
    usize_: Option<usize>,
    f64_: Option<f64>,
    string: Option<String>,
    cow: Option<String>,
    borrowed: Option<String>,
}

thread_local! {
    /// the FINAL key of the property under test (`val`, or what `#[emit::key("…")]` renamed it to)
    static KEY: std::cell::Cell<&'static str> = const { std::cell::Cell::new("val") };
}

fn key() -> &'static str {
    KEY.with(|k| k.get())
}

/// Every typed conversion of one value (`get(..).cast::<T>()`).
fn typed_of_value(v: &Value) -> Typed {
    Typed {
        bool_: v.by_ref().cast(),
        i8_: v.by_ref().cast(),
        i16_: v.by_ref().cast(),
        i32_: v.by_ref().cast(),
        i64_: v.by_ref().cast(),
        i128_: v.by_ref().cast(),
        isize_: v.by_ref().cast(),
        u8_: v.by_ref().cast(),
        u16_: v.by_ref().cast(),
        u32_: v.by_ref().cast(),
        u64_: v.by_ref().cast(),
        u128_: v.by_ref().cast(),
        usize_: v.by_ref().cast(),
        f64_: v.by_ref().cast(),
        string: v.by_ref().cast::<String>(),
        cow: v.to_cow_str().map(|c| c.into_owned()),
        borrowed: v.to_borrowed_str().map(|s| s.to_string()),
    }
}

/// Every typed pull of `val` straight off a property set (`Props::pull::<T>`).
fn typed_of_props<P: Props + ?Sized>(p: &P) -> Typed {
    Typed {
        bool_: p.pull::<bool, _>(key()),
        i8_: p.pull::<i8, _>(key()),
        i16_: p.pull::<i16, _>(key()),
        i32_: p.pull::<i32, _>(key()),
        i64_: p.pull::<i64, _>(key()),
        i128_: p.pull::<i128, _>(key()),
        isize_: p.pull::<isize, _>(key()),
        u8_: p.pull::<u8, _>(key()),
        u16_: p.pull::<u16, _>(key()),
        u32_: p.pull::<u32, _>(key()),
        u64_: p.pull::<u64, _>(key()),
        u128_: p.pull::<u128, _>(key()),
        usize_: p.pull::<usize, _>(key()),
        f64_: p.pull::<f64, _>(key()),
        string: p.pull::<String, _>(key()),
        cow: p.pull::<std::borrow::Cow<str>, _>(key()).map(|c| c.into_owned()),
        borrowed: p.pull::<&str, _>(key()).map(|s| s.to_string()),
    }
}

/// The first requested type on which two sets of typed reads differ.
fn typed_diff(a: &Typed, b: &Typed, with_borrowed: bool) -> Option<(&'static str, String)> {
    macro_rules! cmp {
        ($f:ident, $name:literal) => {
            if a.$f != b.$f {
                return Some(($name, format!("{:?} vs {:?}", a.$f, b.$f)));
            }
        };
    }
    cmp!(bool_, "bool");
    cmp!(i8_, "i8");
    cmp!(i16_, "i16");
    cmp!(i32_, "i32");
    cmp!(i64_, "i64");
    cmp!(i128_, "i128");
    cmp!(isize_, "isize");
    cmp!(u8_, "u8");
    cmp!(u16_, "u16");
    cmp!(u32_, "u32");
    cmp!(u64_, "u64");
    cmp!(u128_, "u128");
    cmp!(usize_, "usize");
    match (a.f64_, b.f64_) {
        (Some(x), Some(y)) if f64_same(x, y) => {}
        (None, None) => {}
        (x, y) => return Some(("f64", format!("{:?} vs {:?}", x, y))),
    }
    cmp!(string, "String");
    cmp!(cow, "Cow<str>");
    if with_borrowed {
        cmp!(borrowed, "&str");
    }
    None
}

/// What the emitter sees of `val` when a lower-precedence set of the event holds the same key.
#[derive(Clone, Debug)]
struct ShadowObs {
    /// (path name, typed reads); the first is the concrete event's `Props::pull`
    paths: Vec<(&'static str, Option<Typed>)>,
}

/// What the emitter sees of a WIDE event (33..100 properties over call site, base props and
/// ambient frames, unsorted keys, shadowed keys) through the de-duplicating views.
#[derive(Clone, Debug, Default)]
struct WideObs {
    total: usize,
    /// first occurrence of every key in plain enumeration order: key -> `{:?}` of the value
    first: Vec<(String, String)>,
    /// `props().dedup()` on the concrete event and on its erased form: (key, `{:?}`) as enumerated
    dedup_concrete: Vec<(String, String)>,
    dedup_erased: Vec<(String, String)>,
    /// typed reads of `val`: first occurrence in enumeration, through both dedup views, and `get`
    val_first: Option<Typed>,
    val_dedup_concrete: Option<Typed>,
    val_dedup_erased: Option<Typed>,
    val_get: Option<Typed>,
}

fn observe_wide<P: Props>(evt: &emit::Event<P>) -> WideObs {
    let mut o = WideObs::default();
    let _ = evt.props().for_each(|k, v| {
        o.total += 1;
        if !o.first.iter().any(|(k2, _)| k2 == k.get()) {
            if k == key() {
                o.val_first = Some(typed_of_value(&v));
            }
            o.first.push((k.get().to_string(), format!("{:?}", v)));
        }
        std::ops::ControlFlow::Continue(())
    });
    let _ = evt.props().dedup().for_each(|k, v| {
        if k == key() {
            o.val_dedup_concrete = Some(typed_of_value(&v));
        }
        o.dedup_concrete.push((k.get().to_string(), format!("{:?}", v)));
        std::ops::ControlFlow::Continue(())
    });
    let erased = evt.erase();
    let _ = erased.props().dedup().for_each(|k, v| {
        if k == key() {
            o.val_dedup_erased = Some(typed_of_value(&v));
        }
        o.dedup_erased.push((k.get().to_string(), format!("{:?}", v)));
        std::ops::ControlFlow::Continue(())
    });
    o.val_get = evt.props().get(key()).map(|v| typed_of_value(&v));
    o
}

/// The lower-precedence sets of a wide event: base `props:` and three ambient frames (outermost first).
struct WidePlan {
    class: &'static str,
    base: Vec<(String, ShadowVal)>,
    frames: [Vec<(String, ShadowVal)>; 3],
}

/// A value of another primitive type that shadows `val` from base props / the ambient context.
#[derive(Clone, Copy, Debug, PartialEq)]
enum ShadowVal {
    I32(i32),
    Str(&'static str),
    Bool(bool),
    F64(f64),
    U64(u64),
}

const SHADOWS: &[ShadowVal] = &[ShadowVal::I32(3), ShadowVal::Str("third"), ShadowVal::Bool(true), ShadowVal::F64(2.5), ShadowVal::U64(u64::MAX), ShadowVal::Str("7"), ShadowVal::I32(-1)];

impl ShadowVal {
    fn value(self) -> Value<'static> {
        match self {
            ShadowVal::I32(x) => Value::from(x),
            ShadowVal::Str(x) => Value::from(x),
            ShadowVal::Bool(x) => Value::from(x),
            ShadowVal::F64(x) => Value::from(x),
            ShadowVal::U64(x) => Value::from(x),
        }
    }

    fn kind(self) -> &'static str {
        match self {
            ShadowVal::I32(_) | ShadowVal::U64(_) => "int",
            ShadowVal::Str(_) => "str",
            ShadowVal::Bool(_) => "bool",
            ShadowVal::F64(_) => "float",
        }
    }
}

fn model_kind(m: &M) -> &'static str {
    match m {
        M::Bool(_) => "bool",
        M::F32(_) | M::F64(_) => "float",
        M::Str(_) | M::Char(_) => "str",
        other if other.as_int().is_some() => "int",
        _ => "other",
    }
}

/// Everything one read of a value shows, as owned data.
#[derive(Clone, Debug)]
struct Obs {
    null: bool,
    display: String,
    debug: String,
    debug_alt: String,
    serde: Result<String, String>,
    sval: Result<String, String>,
    typed: Typed,
    chain: Option<Vec<String>>,
}

fn observe(v: Value) -> Obs {
    let chain = v.to_borrowed_error().map(|e| {
        let mut out = vec![e.to_string()];
        let mut cur = e.source();
        while let Some(s) = cur {
            out.push(s.to_string());
            cur = s.source();
        }
        out
    });
    Obs {
        null: v.is_null(),
        display: v.to_string(),
        debug: format!("{:?}", v),
        debug_alt: format!("{:#?}", v),
        serde: serde_json::to_string(&v).map_err(|e| e.to_string()),
        sval: sval_json::stream_to_string(&v).map_err(|e| e.to_string()),
        typed: typed_of_value(&v),
        chain,
    }
}

// ---------------------------------------------------------------------------
// expectations
// ---------------------------------------------------------------------------

#[derive(Clone, Copy, Debug, PartialEq, Eq, Hash)]
enum Cap {
    Default,
    Display,
    DisplayInspect,
    Debug,
    DebugInspect,
    Value,
    ValueInspect,
    Sval,
    SvalInspect,
    Serde,
    SerdeInspect,
    Error,
}

impl Cap {
    fn name(self) -> &'static str {
        match self {
            Cap::Default => "default",
            Cap::Display => "as_display",
            Cap::DisplayInspect => "as_display-inspect",
            Cap::Debug => "as_debug",
            Cap::DebugInspect => "as_debug-inspect",
            Cap::Value => "as_value",
            Cap::ValueInspect => "as_value-inspect",
            Cap::Sval => "as_sval",
            Cap::SvalInspect => "as_sval-inspect",
            Cap::Serde => "as_serde",
            Cap::SerdeInspect => "as_serde-inspect",
            Cap::Error => "as_error",
        }
    }
}

#[derive(Clone, Copy, Debug, PartialEq)]
enum JsonMode {
    /// captured by this framework: serialisations must equal direct serialisation of the original
    Exact(Framework),
    /// a typed primitive / simple value: both serialisations must denote the model's JSON image
    Image,
}

#[derive(Clone, Debug, Default)]
struct Expect {
    /// `false`: the key must be absent (optional None)
    present: bool,
    /// key present with a null value (`as_value` of `None`)
    null: bool,
    /// the primitive that must be pulled back
    typed: Option<M>,
    /// `to_string()` must equal this
    text: Option<String>,
    /// `{:?}` / `{:#?}` must equal these
    debug: Option<(String, String)>,
    json: Option<JsonMode>,
    chain: Option<Vec<String>>,
}

fn is_typed(m: &M) -> bool {
    m.is_primitive()
}

/// What the capture mode promises for `m`. `optional`: captured through `#[emit::optional]`.
fn expectation(cap: Cap, m: &M) -> Expect {
    let mut e = Expect { present: true, ..Default::default() };
    // `Some(x)` through a capture that sees through options (`as_value`) behaves as `x`
    let inspects = matches!(cap, Cap::Default | Cap::DisplayInspect | Cap::DebugInspect | Cap::ValueInspect | Cap::Value | Cap::SvalInspect | Cap::SerdeInspect);
    if inspects && is_typed(m) {
        e.typed = Some(m.clone());
        e.json = Some(JsonMode::Image);
        // f32 is stored widened; its text is that of the f64 and is not constrained here
        if !matches!(m, M::F32(_)) && !matches!(cap, Cap::DebugInspect) {
            e.text = Some(m.to_string());
        }
        if let (Cap::DebugInspect, M::Str(_) | M::F32(_)) = (cap, m) {
            // a string captured for inspection is the string itself; nothing more is promised
        } else if cap == Cap::DebugInspect {
            e.text = Some(format!("{:?}", m));
        }
        return e;
    }
    match cap {
        Cap::Default | Cap::Display | Cap::DisplayInspect => e.text = Some(m.to_string()),
        Cap::Debug | Cap::DebugInspect => {
            e.text = Some(format!("{:?}", m));
            e.debug = Some((format!("{:?}", m), format!("{:#?}", m)));
        }
        Cap::Serde | Cap::SerdeInspect => e.json = Some(JsonMode::Exact(Framework::Serde)),
        Cap::Sval | Cap::SvalInspect => e.json = Some(JsonMode::Exact(Framework::Sval)),
        Cap::Value | Cap::ValueInspect => match m {
            M::None => e.null = true,
            // arrays of primitives, `Value`s built from serde / sval (see the sites)
            _ => e.json = Some(JsonMode::Image),
        },
        Cap::Error => {
            if let M::Error(err) = m {
                e.chain = Some(err.messages());
            }
        }
    }
    e
}

// ---------------------------------------------------------------------------
// the driver: all read paths for one captured value
// ---------------------------------------------------------------------------

#[derive(Clone, Copy, PartialEq, Debug)]
enum Level {
    /// direct / erased / emitter: everything the capture mode promises
    Full,
    /// owned / shared / ctxt / thread: numbers, booleans, strings, structured values
    Buffered,
    /// properties of a span (`#[emit::span]`, `new_span!`): they live in the span's context frame,
    /// so they are read buffered, but Display / Debug text is still what the capture mode promises
    SpanText,
}

thread_local! {
    /// what the process-wide runtime's emitter (the only one `dbg!` can use) saw on this thread
    static GLOBAL_SEEN: std::cell::RefCell<Vec<Option<Obs>>> = const { std::cell::RefCell::new(Vec::new()) };
}

/// The emitter of the process-wide runtime; `dbg!` always emits there, on the caller's thread.
struct GlobalObsEmitter;

impl Emitter for GlobalObsEmitter {
    fn emit<E: emit::event::ToEvent>(&self, evt: E) {
        let evt = evt.to_event();
        let o = evt.props().get(key()).map(observe);
        GLOBAL_SEEN.with(|s| s.borrow_mut().push(o));
    }

    fn blocking_flush(&self, _: Duration) -> bool {
        true
    }
}

#[derive(Clone, Default)]
struct ObsEmitter(Arc<Mutex<Vec<Option<Obs>>>>, Arc<Mutex<Vec<ShadowObs>>>, Arc<std::sync::atomic::AtomicBool>, Arc<Mutex<Vec<WideObs>>>, Arc<std::sync::atomic::AtomicBool>);

impl Emitter for ObsEmitter {
    fn emit<E: emit::event::ToEvent>(&self, evt: E) {
        let evt = evt.to_event();
        if self.4.load(std::sync::atomic::Ordering::SeqCst) {
            self.3.lock().unwrap().push(observe_wide(&evt));
            return;
        }
        if self.2.load(std::sync::atomic::Ordering::SeqCst) {
            // typed reads of a shadowed key: on the concrete event this (typed) emitter is handed,
            // on its erased form, and on owned copies of the value
            let erased = evt.erase();
            let owned = evt.props().get(key()).map(|v| (v.to_owned(), v.to_shared()));
            let paths = vec![
                ("concrete-pull", Some(typed_of_props(evt.props()))),
                ("concrete-cast", evt.props().get(key()).map(|v| typed_of_value(&v))),
                ("erased-pull", Some(typed_of_props(erased.props()))),
                ("erased-cast", erased.props().get(key()).map(|v| typed_of_value(&v))),
                ("by-ref-pull", Some(typed_of_props(&evt.by_ref().props()))),
                ("owned", owned.as_ref().map(|(o, _)| typed_of_value(&o.by_ref()))),
                ("shared", owned.as_ref().map(|(_, s)| typed_of_value(&s.by_ref()))),
            ];
            self.1.lock().unwrap().push(ShadowObs { paths });
            return;
        }
        let o = evt.props().get(key()).map(observe);
        self.0.lock().unwrap().push(o);
    }

    fn blocking_flush(&self, _: Duration) -> bool {
        true
    }
}

type Rt = emit::runtime::Runtime<ObsEmitter, emit::Empty, emit::platform::thread_local_ctxt::ThreadLocalCtxt, FakeClock, CountingRng>;

struct Driver<'a> {
    r: &'a mut Report,
    site: &'static str,
    cap: Cap,
    model: &'a M,
    exp: Expect,
    case: Json,
    rt: Rt,
    emitter: ObsEmitter,
    direct_serde: Result<String, String>,
    direct_sval: Result<String, String>,
    threads: bool,
    /// two stacked capture attributes: the value must keep the promise of one of the two modes
    alt: Option<(Cap, Expect)>,
    /// selects which of several equivalent call sites (level macro, dbg! form) this case uses
    variant: u64,
    /// `Some`: violations are collected here instead of being reported
    collect: Option<Vec<String>>,
    /// the known sval-seq finding seen while collecting (it does not decide which stacked mode holds)
    pending_known: Vec<String>,
    /// typed reads of the captured value alone (no shadowing), from the `evt!` site
    reference: Option<Option<Typed>>,
    /// the site renames its keys with `#[emit::key]`
    renamed: bool,
}

fn f64_same(a: f64, b: f64) -> bool {
    (a.is_nan() && b.is_nan()) || a.to_bits() == b.to_bits()
}

impl<'a> Driver<'a> {
    fn new(r: &'a mut Report, site: &'static str, cap: Cap, model: &'a M, exp: Expect, case: Json, threads: bool) -> Self {
        let emitter = ObsEmitter::default();
        let rt = emit::runtime::Runtime::build(
            emitter.clone(),
            emit::Empty,
            emit::platform::thread_local_ctxt::ThreadLocalCtxt::shared(),
            FakeClock::new(1_700_000_000_000_000_000),
            CountingRng::new(),
        );
        let direct_serde = serde_json::to_string(model).map_err(|e| e.to_string());
        let direct_sval = sval_json::stream_to_string(model).map_err(|e| e.to_string());
        Driver { r, site, cap, model, exp, case, rt, emitter, direct_serde, direct_sval, threads, alt: None, variant: 0, collect: None, pending_known: Vec::new(), reference: None, renamed: false }
    }

    fn violation(&mut self, path: &str, what_sig: &str, what: String) {
        if let Some(c) = self.collect.as_mut() {
            if what_sig == KNOWN_SEQ {
                self.pending_known.push(what);
            } else {
                c.push(format!("{}: {}", what_sig, what));
            }
            return;
        }
        let sig = if what_sig == KNOWN_SEQ {
            KNOWN_SEQ.to_string()
        } else {
            if self.renamed {
                format!("C19:renamed-key:{}:{}:{}:{}", path_class(path), key(), self.cap.name(), what_sig)
            } else {
                format!("C19:{}:{}:{}:{}", self.cap.name(), self.model.shape(), path_class(path), what_sig)
            }
        };
        let mut case = self.case.clone();
        case["path"] = json!(path);
        self.r.violation(&sig, &format!("site {} path {}: {}", self.site, path, what), case);
    }

    fn check(&mut self, path: &str, v: Option<Value>, level: Level) {
        self.r.observe(&format!("path:{}", path), 1);
        let obs = match catch(|| v.map(observe)) {
            Ok(o) => o,
            Err(p) => {
                self.violation(path, "panic", format!("reading the value panicked: {}", p));
                return;
            }
        };
        self.check_obs(path, obs, level);
    }

    fn check_obs(&mut self, path: &str, obs: Option<Obs>, level: Level) {
        let exp = self.exp.clone();
        self.check_exp(path, obs, level, exp);
    }

    /// Check against `exp`; with stacked attributes, against either mode's promise.
    fn check_exp(&mut self, path: &str, obs: Option<Obs>, level: Level, exp: Expect) {
        let (alt_cap, alt_exp) = match self.alt.clone() {
            None => return self.check_one(path, obs, level, exp),
            Some(a) => a,
        };
        self.collect = Some(Vec::new());
        self.pending_known.clear();
        self.check_one(path, obs.clone(), level, exp);
        let first = self.collect.take().unwrap();
        if first.is_empty() {
            self.r.observe("stacked:first-listed-attribute-wins", 1);
            for k in std::mem::take(&mut self.pending_known) {
                self.violation(path, KNOWN_SEQ, k);
            }
            return;
        }
        self.pending_known.clear();
        let cap = self.cap;
        self.cap = alt_cap;
        self.collect = Some(Vec::new());
        self.check_one(path, obs, level, alt_exp);
        let second = self.collect.take().unwrap();
        self.cap = cap;
        if second.is_empty() {
            self.r.observe("stacked:last-listed-attribute-wins", 1);
            for k in std::mem::take(&mut self.pending_known) {
                self.violation(path, KNOWN_SEQ, k);
            }
            return;
        }
        self.pending_known.clear();
        let sig = format!("C19:stacked:{}+{}:{}:{}:neither-mode", cap.name(), alt_cap.name(), self.model.shape(), path_class(path));
        let mut case = self.case.clone();
        case["path"] = json!(path);
        self.r.violation(
            &sig,
            &format!("site {} path {}: the value keeps the promise of neither stacked capture mode — as {}: {}; as {}: {}", self.site, path, cap.name(), clip(&first.join(" | ")), alt_cap.name(), clip(&second.join(" | "))),
            case,
        );
    }

    fn check_one(&mut self, path: &str, obs: Option<Obs>, level: Level, exp: Expect) {
        let obs = match (exp.present, obs) {
            (false, None) => {
                self.r.observe("check:none-adds-no-key", 1);
                return;
            }
            (false, Some(o)) => {
                self.violation(path, "none-adds-key", format!("optional None produced a property: {}", o.display));
                return;
            }
            (true, None) => {
                self.violation(path, "missing", "captured property is missing".into());
                return;
            }
            (true, Some(o)) => o,
        };
        if exp.null {
            self.r.observe("check:null", 1);
            if !obs.null {
                self.violation(path, "not-null", format!("None captured as a value must be null, got {}", obs.display));
            }
            return;
        }
        if obs.null {
            self.violation(path, "unexpected-null", "captured value reads as null".into());
            return;
        }
        // typed pulls
        if let Some(t) = &exp.typed {
            self.r.observe("check:typed-pull", 1);
            let ty = &obs.typed;
            let ok = match t {
                M::Bool(x) => ty.bool_ == Some(*x),
                M::I8(x) => ty.i8_ == Some(*x),
                M::I16(x) => ty.i16_ == Some(*x),
                M::I32(x) => ty.i32_ == Some(*x),
                M::I64(x) => ty.i64_ == Some(*x),
                M::I128(x) => ty.i128_ == Some(*x),
                M::Isize(x) => ty.isize_ == Some(*x),
                M::U8(x) => ty.u8_ == Some(*x),
                M::U16(x) => ty.u16_ == Some(*x),
                M::U32(x) => ty.u32_ == Some(*x),
                M::U64(x) => ty.u64_ == Some(*x),
                M::U128(x) => ty.u128_ == Some(*x),
                M::Usize(x) => ty.usize_ == Some(*x),
                M::F32(x) => ty.f64_.map_or(false, |g| f64_same(g, *x as f64)),
                M::F64(x) => ty.f64_.map_or(false, |g| f64_same(g, *x)),
                // no typed conversion exists for char; it is checked through its text and images
                M::Char(_) => true,
                M::Str(x) => ty.string.as_deref() == Some(x.as_str()) && ty.cow.as_deref() == Some(x.as_str()),
                _ => true,
            };
            if !ok {
                self.violation(path, "typed-pull", format!("pulling back {:?} gave {:?}", t, ty));
            }
            if let (M::Str(x), Level::Full) = (t, level) {
                // a borrowed string is promised on the unbuffered paths only
                if self.cap != Cap::Value && ty.borrowed.as_deref() != Some(x.as_str()) && path != "emitter" {
                    // the emitter path borrows from the macro's temporaries, still borrowed
                    self.violation(path, "borrowed-str", format!("&str pull of {:?} gave {:?}", x, ty.borrowed));
                }
            }
        }
        let constrained_text = level != Level::Buffered || exp.typed.is_some();
        if let (Some(want), true) = (&exp.text, constrained_text) {
            self.r.observe("check:text", 1);
            if &obs.display != want {
                self.violation(path, "text", format!("to_string() = {:?}, original's = {:?}", clip(&obs.display), clip(want)));
            }
        }
        if let (Some((want, want_alt)), true) = (&exp.debug, level != Level::Buffered) {
            self.r.observe("check:debug", 1);
            if &obs.debug != want {
                self.violation(path, "debug", format!("{{:?}} = {:?}, original's = {:?}", clip(&obs.debug), clip(want)));
            }
            // the alternate form is only promised where the value is not buffered into text
            if level == Level::Full && &obs.debug_alt != want_alt {
                self.violation(path, "debug-alt", format!("{{:#?}} = {:?}, original's = {:?}", clip(&obs.debug_alt), clip(want_alt)));
            }
        }
        if let (Some(want), Level::Full) = (&exp.chain, level) {
            self.r.observe("check:error-chain", 1);
            if obs.chain.as_ref() != Some(want) {
                self.violation(path, "error-chain", format!("source chain {:?}, original's {:?}", obs.chain, want));
            }
        }
        if let Some(mode) = exp.json {
            self.check_json(path, &obs, mode);
        }
    }

    fn check_json(&mut self, path: &str, obs: &Obs, mode: JsonMode) {
        let directs = [(Framework::Serde, self.direct_serde.clone(), obs.serde.clone()), (Framework::Sval, self.direct_sval.clone(), obs.sval.clone())];
        for (consumer, direct, got) in directs {
            let cname = if consumer == Framework::Serde { "serde_json" } else { "sval_json" };
            match mode {
                JsonMode::Exact(producer) => {
                    let pname = if producer == Framework::Serde { "serde" } else { "sval" };
                    self.r.observe(&format!("check:json:{}>{}", pname, cname), 1);
                    let want = match &direct {
                        Ok(w) => w,
                        Err(_) => {
                            // the consumer cannot express the original: nothing to compare with
                            self.r.observe("json:direct-inexpressible", 1);
                            continue;
                        }
                    };
                    if got.as_ref() == Ok(want) {
                        continue;
                    }
                    let got_text = match &got {
                        Ok(g) => g.clone(),
                        Err(e) => format!("<error: {}>", e),
                    };
                    let malformed = got.as_ref().map_or(true, |g| parse_json(g).is_err());
                    let nested_seq = self.model.children().iter().any(|c| c.any(&|n| matches!(n, M::Seq(x) if !x.is_empty())));
                    if producer == Framework::Sval && consumer == Framework::Serde && malformed && got.is_ok() && nested_seq {
                        self.violation(
                            path,
                            KNOWN_SEQ,
                            format!("sval-captured value containing a sequence serialises through serde_json as malformed JSON {:?}, original {:?}", clip(&got_text), clip(want)),
                        );
                        continue;
                    }
                    // serde and sval legitimately differ on unit structs: accept either rendering across frameworks
                    if producer != consumer && self.model.any(&|n| matches!(n, M::UnitStruct(_))) {
                        if let Ok(tree) = got.as_ref().map_err(|e| e.clone()).and_then(|g| parse_json(g)) {
                            let ok = [Framework::Serde, Framework::Sval].iter().any(|fw| self.model.json_image(*fw).map_or(false, |img| img.matches(&tree).is_ok()));
                            if ok {
                                self.r.observe("json:unit-struct-cross-framework", 1);
                                continue;
                            }
                        }
                    }
                    let what = if malformed { "malformed" } else { "differs" };
                    self.violation(
                        path,
                        &format!("{}-captured:via-{}:{}", pname, cname, what),
                        format!("{} of the captured value = {:?}, of the original = {:?}", cname, clip(&got_text), clip(want)),
                    );
                }
                JsonMode::Image => {
                    self.r.observe(&format!("check:json-image:{}", cname), 1);
                    let img = match self.model.json_image(consumer) {
                        Ok(i) => i,
                        Err(_) => continue,
                    };
                    let res = got.clone().and_then(|g| parse_json(&g).map_err(|e| format!("malformed ({}): {}", e, clip(&g)))).and_then(|t| img.matches(&t));
                    if let Err(why) = res {
                        self.violation(path, &format!("image:via-{}", cname), format!("{} of the captured value does not denote the original: {}", cname, why));
                    }
                }
            }
        }
    }

    /// An event built by `emit::evt!`.
    fn event<P: Props>(&mut self, evt: &emit::Event<P>) {
        self.enumerated_is_found("direct", evt.props());
        self.enumerated_is_found("erased", evt.erase().props());
        self.reference = catch(|| evt.props().get(key()).map(|v| typed_of_value(&v))).ok();
        self.check("direct", evt.props().get(key()), Level::Full);
        {
            let erased = evt.erase();
            self.check("erased", erased.props().get(key()), Level::Full);
        }
        // typed pull straight off the props (`Props::pull`) for the commonest types
        if let (Some(M::I64(x)), None) = (&self.exp.typed, &self.alt) {
            if evt.props().pull::<i64, _>(key()) != Some(*x) {
                self.violation("direct", "props-pull", format!("Props::pull::<i64> != {}", x));
            }
        }
        if let (Some(M::Str(x)), None) = (&self.exp.typed, &self.alt) {
            if evt.props().pull::<&str, _>(key()) != Some(x.as_str()) && self.cap != Cap::Value {
                self.violation("direct", "props-pull", format!("Props::pull::<&str> != {:?}", x));
            }
        }
        if let Some(v) = evt.props().get(key()) {
            let owned = catch(|| (v.to_owned(), v.to_shared()));
            match owned {
                Err(p) => self.violation("owned", "panic", format!("to_owned / to_shared panicked: {}", p)),
                Ok((o, s)) => {
                    self.check("owned", Some(o.by_ref()), Level::Buffered);
                    self.check("shared", Some(s.by_ref()), Level::Buffered);
                    // the owned value's own impls (not through `by_ref`) must show the same thing
                    for (name, ov) in [("owned", &o), ("shared", &s)] {
                        let same = catch(|| {
                            let r = ov.by_ref();
                            serde_json::to_string(ov).map_err(|e| e.to_string()) == serde_json::to_string(&r).map_err(|e| e.to_string())
                                && sval_json::stream_to_string(ov).map_err(|e| e.to_string()) == sval_json::stream_to_string(&r).map_err(|e| e.to_string())
                                && (self.exp.chain.is_some() || self.alt.as_ref().map_or(false, |a| a.1.chain.is_some()) || ov.to_string() == r.to_string())
                                && format!("{:?}", ov) == format!("{:?}", r)
                        });
                        self.r.observe("check:owned-own-impls", 1);
                        if same != Ok(true) {
                            self.violation(name, "own-impls", format!("OwnedValue's own Display/Debug/serde/sval impls differ from its by_ref() view ({:?})", same));
                        }
                    }
                    // a clone of the shared value, and an owned copy of the owned copy
                    let s2 = s.clone();
                    drop(s);
                    self.check("shared-clone", Some(s2.by_ref()), Level::Buffered);
                    let o2 = o.by_ref().to_owned();
                    if self.threads {
                        let res = std::thread::scope(|sc| sc.spawn(move || catch(|| (observe(o2.by_ref()), observe(s2.by_ref())))).join());
                        match res {
                            Ok(Ok((a, b))) => {
                                self.r.observe("path:thread", 2);
                                self.check_obs("thread", Some(a), Level::Buffered);
                                self.check_obs("thread-shared", Some(b), Level::Buffered);
                            }
                            Ok(Err(p)) => self.violation("thread", "panic", format!("reading on another thread panicked: {}", p)),
                            Err(_) => self.violation("thread", "panic", "reader thread died".into()),
                        }
                    }
                }
            }
        }
        self.ctxt(evt.props());
    }

    /// Props built by `emit::props!`.
    /// Whatever `for_each` enumerates, `get` must find under the same key.
    fn enumerated_is_found<P: Props + ?Sized>(&mut self, path: &str, props: &P) {
        let mut keys: Vec<String> = Vec::new();
        let _ = props.for_each(|k, _| {
            keys.push(k.get().to_string());
            std::ops::ControlFlow::Continue(())
        });
        for k in keys {
            self.r.observe("check:enumerated-is-found", 1);
            if props.get(k.as_str()).is_none() {
                let sig = if self.renamed { format!("C19:renamed-key:{}:{}:enumerated-but-not-found", path, k) } else { format!("C19:{}:enumerated-but-not-found", path) };
                let mut case = self.case.clone();
                case["path"] = json!(path);
                self.r.violation(&sig, &format!("site {}: for_each enumerates key {:?} but get({:?}) finds nothing", self.site, k, k), case);
            }
        }
    }

    fn props<P: Props>(&mut self, props: &P) {
        self.enumerated_is_found("props", props);
        self.check("props", props.get(key()), Level::Full);
        let mut n = 0;
        let _ = props.for_each(|k, _| {
            if k == key() {
                n += 1;
            }
            std::ops::ControlFlow::Continue(())
        });
        if n != self.exp.present as usize {
            self.violation("props", "enumeration", format!("key enumerated {} times", n));
        }
    }

    fn ctxt<P: Props>(&mut self, props: &P) {
        let ctxt = emit::platform::thread_local_ctxt::ThreadLocalCtxt::shared();
        let res = catch(|| {
            let mut frame = emit::Frame::push(&ctxt, props);
            let _g = frame.enter();
            emit::Ctxt::with_current(&ctxt, |cur| cur.get(key()).map(observe))
        });
        self.r.observe("path:ctxt", 1);
        match res {
            Ok(o) => self.check_obs("ctxt", o, Level::Buffered),
            Err(p) => self.violation("ctxt", "panic", format!("buffering through the context panicked: {}", p)),
        }
    }

    fn runtime(&self) -> &Rt {
        &self.rt
    }

    /// The lower-precedence sets of this case's wide event. Sizes straddle std's small-collection
    /// thresholds: 20..24, 32..40 and 64..100 properties in total.
    fn wide_plan(&self) -> WidePlan {
        let mut g = Rng::stream(self.variant, &[19, 7, self.site.len() as u64]);
        let (class, total) = match self.variant % 3 {
            0 => ("20-24", 20 + g.usize(5)),
            1 => ("32-40", 32 + g.usize(9)),
            _ => ("64+", 64 + g.usize(37)),
        };
        let kind = model_kind(self.model);
        let other = |g: &mut Rng, not: &str| loop {
            let s = *g.pick(SHADOWS);
            if s.kind() != not {
                break s;
            }
        };
        let prefixes = ["k", "a", "zz", "m_", "Val", "val_", "va", "vam", "é", "_"];
        let mut plan = WidePlan { class, base: Vec::new(), frames: [Vec::new(), Vec::new(), Vec::new()] };
        // `val` itself is shadowed in the base props and in two frames, the call site's other keys too
        plan.base.push(("zz_last".into(), ShadowVal::Str("shadow")));
        plan.frames[0].push(("val".into(), other(&mut g, kind)));
        plan.frames[2].push(("aa_first".into(), ShadowVal::Bool(false)));
        plan.frames[2].push(("val".into(), other(&mut g, kind)));
        let mut j = 0usize;
        let mut val_in_base = false;
        // 4 call-site properties (n, val, zz_last, aa_first) count towards the total
        while 4 + plan.base.len() + plan.frames.iter().map(|f| f.len()).sum::<usize>() < total {
            j += 1;
            let fresh = format!("{}{}", g.pick(&prefixes), (j * 7919) % 1000);
            if g.bool() {
                if !val_in_base && plan.base.len() >= 3 {
                    // not the first base property: sorted-position and enumeration order differ
                    plan.base.push(("val".into(), other(&mut g, kind)));
                    val_in_base = true;
                } else {
                    plan.base.push((fresh, *g.pick(SHADOWS)));
                }
            } else {
                let fi = g.usize(3);
                // an ambient key is often one the base props hold too, with another type
                let key = if g.chance(1, 3) && !plan.base.is_empty() { g.pick(&plan.base).0.clone() } else { fresh };
                if key == "val" || plan.frames[fi].iter().any(|(k, _)| *k == key) {
                    continue;
                }
                let base_kind = plan.base.iter().find(|(k, _)| *k == key).map(|(_, v)| v.kind()).unwrap_or("none");
                plan.frames[fi].push((key, other(&mut g, base_kind)));
            }
        }
        plan
    }

    fn wide_mode(&self, on: bool) {
        self.emitter.4.store(on, std::sync::atomic::Ordering::SeqCst);
    }

    /// After the wide emission: every de-duplicating view shows each key once with the FIRST value of
    /// the enumeration order, and `val` is the call-site value with its type.
    fn emitted_wide(&mut self, class: &str) {
        self.wide_mode(false);
        let seen: Vec<WideObs> = std::mem::take(&mut *self.emitter.3.lock().unwrap());
        self.r.observe(&format!("path:wide:{}", class), seen.len() as u64);
        if seen.len() != 1 {
            self.violation("wide", "not-emitted", format!("emit! reached the emitter {} times", seen.len()));
            return;
        }
        let o = &seen[0];
        self.r.observe("wide:properties-enumerated", o.total as u64);
        self.r.observe("wide:distinct-keys", o.first.len() as u64);
        let mut case = self.case.clone();
        case["wide"] = json!({"class": class, "enumerated": o.total, "distinct_keys": o.first.len()});
        for (path, dedup) in [("dedup-concrete", &o.dedup_concrete), ("dedup-erased", &o.dedup_erased)] {
            self.r.observe("check:wide-dedup-views", 1);
            for (i, (k, _)) in dedup.iter().enumerate() {
                if dedup[..i].iter().any(|(k2, _)| k2 == k) {
                    self.r.violation(&format!("C19:wide:{}:{}:key-repeated", path, class), &format!("site {}: {} of a {}-property event enumerates key {:?} more than once", self.site, path, o.total, k), case.clone());
                    break;
                }
            }
            for (k, first) in &o.first {
                match dedup.iter().find(|(k2, _)| k2 == k) {
                    None => {
                        self.r.violation(&format!("C19:wide:{}:{}:key-lost", path, class), &format!("site {}: {} of a {}-property event lost key {:?}", self.site, path, o.total, k), case.clone());
                        break;
                    }
                    Some((_, got)) if got != first => {
                        self.r.violation(
                            &format!("C19:wide:{}:{}:not-the-first-value", path, class),
                            &format!("site {}: {} of a {}-property event shows {:?} = {}, the first value in enumeration order is {}", self.site, path, o.total, k, clip(got), clip(first)),
                            case.clone(),
                        );
                        break;
                    }
                    _ => {}
                }
            }
            if let Some((k, _)) = dedup.iter().find(|(k, _)| !o.first.iter().any(|(k2, _)| k2 == k)) {
                self.r.violation(&format!("C19:wide:{}:{}:key-invented", path, class), &format!("site {}: {} shows key {:?} the event does not enumerate", self.site, path, k), case.clone());
            }
        }
        // `val`: the call-site value with its type, never a shadowing one
        let reference = match self.reference.clone() {
            Some(r) => r,
            None => return,
        };
        let none = Typed::default();
        for (path, typed) in [("first-enumerated", &o.val_first), ("dedup-concrete", &o.val_dedup_concrete), ("dedup-erased", &o.val_dedup_erased), ("get", &o.val_get)] {
            self.r.observe("check:wide-val-typed-reads", 1);
            let got = typed.clone().unwrap_or_default();
            let want = if self.exp.present { reference.clone().unwrap_or_default() } else { o.val_get.clone().unwrap_or_default() };
            let _ = &none;
            if let Some((t, why)) = typed_diff(&got, &want, true) {
                self.r.violation(
                    &format!("C19:wide:{}:{}:val:{}:{}", path, class, t, if self.exp.present { "differs-from-unshadowed" } else { "paths-disagree" }),
                    &format!("site {}: in a {}-property event with `val` shadowed three times, {}::<{}> = {}", self.site, o.total, path, t, why),
                    case.clone(),
                );
            }
        }
    }

    /// Two values of primitive types other than the captured one: for base props and the ambient frame.
    fn shadows(&self) -> (ShadowVal, ShadowVal) {
        let kind = model_kind(self.model);
        let start = (self.variant / 3) as usize;
        let mut picks = (0..SHADOWS.len()).map(|k| SHADOWS[(start + k) % SHADOWS.len()]).filter(|s| s.kind() != kind);
        let a = picks.next().unwrap_or(ShadowVal::I32(3));
        let b = picks.find(|s| s.kind() != a.kind()).unwrap_or(ShadowVal::Bool(true));
        (a, b)
    }

    fn shadow_mode(&self, on: bool) {
        self.emitter.2.store(on, std::sync::atomic::Ordering::SeqCst);
    }

    /// After an `emit!` whose key `val` also exists, with another primitive type, in a
    /// lower-precedence set of the event (`form`: ambient frame, base `props:`, both).
    /// Every typed read must agree across paths and equal the captured value's own cast.
    fn emitted_shadowed(&mut self, form: &str) {
        self.shadow_mode(false);
        let seen: Vec<ShadowObs> = std::mem::take(&mut *self.emitter.1.lock().unwrap());
        self.r.observe(&format!("path:shadowed:{}", form), seen.len() as u64);
        if seen.len() != 1 {
            self.violation("shadowed", "not-emitted", format!("emit! reached the emitter {} times", seen.len()));
            return;
        }
        let obs = &seen[0];
        let reference = match self.reference.clone() {
            Some(r) => r,
            None => return,
        };
        let none = Typed::default();
        let first = obs.paths[0].1.clone().unwrap_or_default();
        for (path, typed) in &obs.paths {
            self.r.observe("check:shadowed-typed-reads", 1);
            let buffered = matches!(*path, "owned" | "shared");
            let got = typed.clone().unwrap_or_default();
            // (a) the call-site value wins: same typed reads as the captured value alone.
            //     An optional `None` contributes no property, so a lower set legitimately shows through.
            if self.exp.present {
                let want = reference.as_ref().unwrap_or(&none);
                if let Some((t, why)) = typed_diff(&got, want, !buffered) {
                    let mut case = self.case.clone();
                    case["path"] = json!(path);
                    case["shadowed_by"] = json!(form);
                    self.r.violation(
                        &format!("C19:shadowed:{}:{}:{}:differs-from-unshadowed", path, t, form),
                        &format!("site {}: with `val` also present in {} (another type), {}::<{}> = {} (shadowed vs the captured value alone)", self.site, form, path, t, why),
                        case,
                    );
                    continue;
                }
            }
            // (b) all paths agree with the concrete event's pull
            if let Some((t, why)) = typed_diff(&got, &first, !buffered) {
                let mut case = self.case.clone();
                case["path"] = json!(path);
                case["shadowed_by"] = json!(form);
                self.r.violation(
                    &format!("C19:shadowed:{}:{}:{}:paths-disagree", path, t, form),
                    &format!("site {}: with `val` also present in {}, {}::<{}> disagrees with the concrete event's pull: {}", self.site, form, path, t, why),
                    case,
                );
            }
        }
    }

    /// After a level macro (`info!`, `warn!`, …) through the recording runtime.
    fn emitted_level(&mut self, name: &str) {
        let seen: Vec<Option<Obs>> = std::mem::take(&mut *self.emitter.0.lock().unwrap());
        self.r.observe(&format!("path:level-macro:{}", name), seen.len() as u64);
        if seen.len() != 1 {
            self.violation("level-macro", "not-emitted", format!("{}! reached the emitter {} times", name, seen.len()));
            return;
        }
        for o in seen {
            self.check_obs("level-macro", o, Level::Full);
        }
    }

    /// After `emit::dbg!(..)`: what the process-wide runtime's emitter saw on this thread.
    /// `dbg!` captures with Debug unless the property carries a capture attribute.
    fn emitted_dbg(&mut self, form: &str) {
        let seen: Vec<Option<Obs>> = GLOBAL_SEEN.with(|s| std::mem::take(&mut *s.borrow_mut()));
        self.r.observe(&format!("path:dbg:{}", form), seen.len() as u64);
        if seen.len() != 1 {
            self.violation("dbg", "not-emitted", format!("dbg! reached the emitter {} times", seen.len()));
            return;
        }
        let mut exp = self.exp.clone();
        if self.cap == Cap::Default && self.alt.is_none() {
            if self.site == "default_str" || self.site == "optional_str" {
                // a `str` place: dbg! stores the string itself; its text is not settled
                self.r.observe("dbg:str-unconstrained", 1);
                return;
            }
            let present = exp.present;
            exp = expectation(Cap::Debug, self.model);
            exp.present = present;
            let cap = self.cap;
            self.cap = Cap::Debug;
            for o in seen {
                self.check_exp("dbg", o, Level::Full, exp.clone());
            }
            self.cap = cap;
            return;
        }
        for o in seen {
            self.check_exp("dbg", o, Level::Full, exp.clone());
        }
    }

    /// After a span (`#[emit::span]` / `new_span!`) completed: `inner` is what the span's context
    /// showed inside it, the emitter saw the span event.
    fn emitted_span(&mut self, kind: &str, inner: Result<Option<Obs>, String>) {
        let seen: Vec<Option<Obs>> = std::mem::take(&mut *self.emitter.0.lock().unwrap());
        self.r.observe(&format!("path:{}", kind), 1 + seen.len() as u64);
        match inner {
            Ok(o) => self.check_obs(kind, o, Level::SpanText),
            Err(p) => self.violation(kind, "panic", format!("reading the span's context panicked: {}", p)),
        }
        if seen.len() != 1 {
            self.violation(kind, "not-emitted", format!("the span event reached the emitter {} times", seen.len()));
            return;
        }
        for o in seen {
            self.check_obs(kind, o, Level::SpanText);
        }
    }

    /// After `emit::emit!(rt: ..)`: what the emitter saw.
    fn emitted(&mut self) {
        let seen: Vec<Option<Obs>> = std::mem::take(&mut *self.emitter.0.lock().unwrap());
        self.r.observe("path:emitter", seen.len() as u64);
        if seen.len() != 1 {
            self.violation("emitter", "not-emitted", format!("emit! reached the emitter {} times", seen.len()));
            return;
        }
        for o in seen {
            self.check_obs("emitter", o, Level::Full);
        }
    }
}

fn path_class(path: &str) -> &str {
    match path {
        "shared-clone" => "shared",
        "thread-shared" => "thread",
        p => p,
    }
}

fn clip(s: &str) -> String {
    if s.len() > 400 {
        let mut cut = 400;
        while !s.is_char_boundary(cut) {
            cut -= 1;
        }
        format!("{}…", &s[..cut])
    } else {
        s.to_string()
    }
}

// ---------------------------------------------------------------------------
// call sites
// ---------------------------------------------------------------------------

struct Site {
    name: &'static str,
    cap: Cap,
    /// value class the site takes (a primitive class, "model", "structured", "error", "opt:<class>", …)
    class: &'static str,
    /// the value the expectation is computed from, given the generated model
    run: fn(&M, &mut Driver),
    /// the second of two stacked capture attributes (the first is `cap`)
    alt: Option<Cap>,
}

/// A user type whose `ToValue` goes through serde.
#[derive(Debug)]
struct ViaSerde(M);

impl emit::value::ToValue for ViaSerde {
    fn to_value(&self) -> Value {
        Value::from_serde(&self.0)
    }
}

fn read_ctxt(rt: &Rt) -> Result<Option<Obs>, String> {
    catch(|| emit::Ctxt::with_current(rt.ctxt(), |cur| cur.get(key()).map(observe)))
}

macro_rules! sites {
    ($( $name:ident : $cap:expr $(, alt $alt:expr)?, $class:literal, |$m:ident, $val:ident| $t:ty = $extract:expr => [$($attr:tt)*] $vexpr:expr ;)*) => {
        $(
            #[allow(unused_variables, unreachable_patterns, unused_mut)]
            fn $name(model: &M, d: &mut Driver) {
                let $m = model;
                let owned: $t = $extract;
                let $val = &owned;
                {
                    let evt = emit::evt!("site {n}", n: 1, $($attr)* val: $vexpr);
                    d.event(&evt);
                }
                {
                    let props = emit::props! { $($attr)* val: $vexpr };
                    d.props(&props);
                }
                {
                    let rt = d.runtime();
                    emit::emit!(rt, "site {n}", n: 2, $($attr)* val: $vexpr);
                    d.emitted();
                }
                // the level macros
                match d.variant % 4 {
                    0 => {
                        let rt = d.runtime();
                        emit::debug!(rt, "site debug", $($attr)* val: $vexpr);
                        d.emitted_level("debug");
                    }
                    1 => {
                        let rt = d.runtime();
                        emit::info!(rt, "site info {n}", n: 3, $($attr)* val: $vexpr);
                        d.emitted_level("info");
                    }
                    2 => {
                        let rt = d.runtime();
                        emit::warn!(rt, "site warn", $($attr)* val: $vexpr, n: 4);
                        d.emitted_level("warn");
                    }
                    _ => {
                        let rt = d.runtime();
                        emit::error!(rt, "site error", $($attr)* val: $vexpr);
                        d.emitted_level("error");
                    }
                }
                // dbg! (always the process-wide runtime): alone, among other values, with a template
                match (d.variant / 4) % 3 {
                    0 => {
                        emit::dbg!($($attr)* val: $vexpr);
                        d.emitted_dbg("single");
                    }
                    1 => {
                        emit::dbg!(first: 1, $($attr)* val: $vexpr, #[emit::as_display] last: "z");
                        d.emitted_dbg("several");
                    }
                    _ => {
                        emit::dbg!("site dbg {n}", n: 5, $($attr)* val: $vexpr);
                        d.emitted_dbg("template");
                    }
                }
                // the same key shadowed, with another primitive type, in lower-precedence sets
                {
                    let (below, ambient) = d.shadows();
                    let base = [("val", below.value()), ("other", Value::from(1))];
                    let amb = [("val", ambient.value()), ("more", Value::from("x"))];
                    let rt = d.runtime();
                    d.shadow_mode(true);
                    let form = match d.variant % 3 {
                        0 => {
                            let mut frame = emit::Frame::push(rt.ctxt(), &amb[..]);
                            let _guard = frame.enter();
                            emit::emit!(rt, "site shadowed {n}", n: 6, $($attr)* val: $vexpr);
                            "ambient"
                        }
                        1 => {
                            emit::emit!(rt, props: &base[..], "site shadowed", $($attr)* val: $vexpr);
                            "base-props"
                        }
                        _ => {
                            let mut frame = emit::Frame::push(rt.ctxt(), &amb[..]);
                            let _guard = frame.enter();
                            emit::warn!(rt, props: &base[..], "site shadowed", $($attr)* val: $vexpr, n: 7);
                            "base-props+ambient"
                        }
                    };
                    d.emitted_shadowed(form);
                }
                // a WIDE event: many properties over call site, base props and three ambient frames,
                // unsorted keys, `val` shadowed in three lower-precedence sets
                if d.variant % 2 == 0 {
                    let plan = d.wide_plan();
                    let base: Vec<(&str, Value)> = plan.base.iter().map(|(k, v)| (k.as_str(), v.value())).collect();
                    let fr: Vec<Vec<(&str, Value)>> = plan.frames.iter().map(|f| f.iter().map(|(k, v)| (k.as_str(), v.value())).collect()).collect();
                    {
                        let rt = d.runtime();
                        d.wide_mode(true);
                        let mut f0 = emit::Frame::push(rt.ctxt(), &fr[0][..]);
                        let _g0 = f0.enter();
                        let mut f1 = emit::Frame::push(rt.ctxt(), &fr[1][..]);
                        let _g1 = f1.enter();
                        let mut f2 = emit::Frame::push(rt.ctxt(), &fr[2][..]);
                        let _g2 = f2.enter();
                        emit::emit!(rt, props: &base[..], "site wide {n}", n: 8, zz_last: 1, $($attr)* val: $vexpr, aa_first: 2);
                    }
                    d.emitted_wide(plan.class);
                }
                // span arguments
                {
                    #[emit::span(rt, "site span", $($attr)* val: $vexpr)]
                    fn spanned(rt: &Rt, $val: &$t) -> Result<Option<Obs>, String> {
                        read_ctxt(rt)
                    }
                    let inner = spanned(d.runtime(), $val);
                    d.emitted_span("span-attribute", inner);
                }
                {
                    let inner = {
                        let rt = d.runtime();
                        let (mut guard, frame) = emit::new_span!(rt, "site new_span", $($attr)* val: $vexpr);
                        frame.call(move || {
                            guard.start();
                            read_ctxt(rt)
                        })
                    };
                    d.emitted_span("new_span", inner);
                }
            }
        )*
        const SITES: &[Site] = &[ $( Site { name: stringify!($name), cap: $cap, class: $class, run: $name, alt: { let a: Option<Cap> = None; $(let a = Some($alt);)? a } } ),* ];
    };
}

/// Sites whose keys are renamed with `#[emit::key("…")]`, so that key order differs from the
/// identifier order the macro sorts its property array by: the value under test renamed to a key
/// that sorts last / first / in the middle, with plain and renamed neighbours (2..5 properties).
macro_rules! renamed_sites {
    ($( $name:ident : $cap:expr, $class:literal, |$m:ident, $val:ident| $t:ty = $extract:expr => [$($attr:tt)*] $vexpr:expr ;)*) => {
        $(
            #[allow(unused_variables, unreachable_patterns, unused_mut)]
            fn $name(model: &M, d: &mut Driver) {
                let $m = model;
                let owned: $t = $extract;
                let $val = &owned;
                d.renamed = true;
                struct Reset;
                impl Drop for Reset {
                    fn drop(&mut self) {
                        KEY.with(|k| k.set("val"));
                    }
                }
                let _reset = Reset;
                match d.variant % 3 {
                    // identifier sorts first, key sorts last
                    0 => {
                        KEY.with(|k| k.set("took"));
                        {
                            let evt = emit::evt!("renamed {method}", #[emit::key("took")] $($attr)* elapsed: $vexpr, method: "GET", retry: 3);
                            d.event(&evt);
                        }
                        {
                            let props = emit::props! { #[emit::key("took")] $($attr)* elapsed: $vexpr, method: "GET", retry: 3 };
                            d.props(&props);
                        }
                        {
                            let rt = d.runtime();
                            emit::emit!(rt, "renamed", #[emit::key("took")] $($attr)* elapsed: $vexpr, method: "GET");
                            d.emitted();
                        }
                    }
                    // identifier in the middle, key sorts first
                    1 => {
                        KEY.with(|k| k.set("a0"));
                        {
                            let evt = emit::evt!("renamed", alpha: 1, #[emit::key("a0")] $($attr)* middle: $vexpr, zeta: true);
                            d.event(&evt);
                        }
                        {
                            let props = emit::props! { alpha: 1, #[emit::key("a0")] $($attr)* middle: $vexpr, zeta: true };
                            d.props(&props);
                        }
                        {
                            let rt = d.runtime();
                            emit::info!(rt, "renamed", alpha: 1, #[emit::key("a0")] $($attr)* middle: $vexpr, zeta: true);
                            d.emitted();
                        }
                    }
                    // identifier sorts last, key in the middle, renamed neighbours, 5 properties
                    _ => {
                        KEY.with(|k| k.set("mid"));
                        {
                            let evt = emit::evt!("renamed", #[emit::key("zz")] a: 1, #[emit::key("mid")] $($attr)* zval: $vexpr, #[emit::key("aa")] m: "x", b: 2, c: 3.5);
                            d.event(&evt);
                        }
                        {
                            let props = emit::props! { #[emit::key("zz")] a: 1, #[emit::key("mid")] $($attr)* zval: $vexpr, #[emit::key("aa")] m: "x", b: 2, c: 3.5 };
                            d.props(&props);
                        }
                        {
                            let rt = d.runtime();
                            emit::emit!(rt, "renamed", #[emit::key("zz")] a: 1, #[emit::key("mid")] $($attr)* zval: $vexpr, #[emit::key("aa")] m: "x", b: 2);
                            d.emitted();
                        }
                    }
                }
            }
        )*
        const RENAMED_SITES: &[Site] = &[ $( Site { name: stringify!($name), cap: $cap, class: $class, run: $name, alt: None } ),* ];
    };
}

fn n_sites() -> usize {
    SITES.len() + RENAMED_SITES.len()
}

fn site_at(k: usize) -> &'static Site {
    if k < SITES.len() {
        &SITES[k]
    } else {
        &RENAMED_SITES[k - SITES.len()]
    }
}

macro_rules! prim {
    ($m:expr, $variant:ident) => {
        match $m {
            M::$variant(x) => x.clone(),
            other => unreachable!("site fed {:?}", other),
        }
    };
}

fn opt_of<'a>(m: &'a M) -> Option<&'a M> {
    match m {
        M::Some(x) => Some(&**x),
        M::None => None,
        other => unreachable!("site fed {:?}", other),
    }
}

sites! {
    // ---- default capture: every primitive, strings, anything Display
    default_bool: Cap::Default, "bool", |m, v| bool = prim!(m, Bool) => [] *v;
    default_i8: Cap::Default, "i8", |m, v| i8 = prim!(m, I8) => [] *v;
    default_i16: Cap::Default, "i16", |m, v| i16 = prim!(m, I16) => [] *v;
    default_i32: Cap::Default, "i32", |m, v| i32 = prim!(m, I32) => [] *v;
    default_i64: Cap::Default, "i64", |m, v| i64 = prim!(m, I64) => [] *v;
    default_i128: Cap::Default, "i128", |m, v| i128 = prim!(m, I128) => [] *v;
    default_isize: Cap::Default, "isize", |m, v| isize = prim!(m, Isize) => [] *v;
    default_u8: Cap::Default, "u8", |m, v| u8 = prim!(m, U8) => [] *v;
    default_u16: Cap::Default, "u16", |m, v| u16 = prim!(m, U16) => [] *v;
    default_u32: Cap::Default, "u32", |m, v| u32 = prim!(m, U32) => [] *v;
    default_u64: Cap::Default, "u64", |m, v| u64 = prim!(m, U64) => [] *v;
    default_u128: Cap::Default, "u128", |m, v| u128 = prim!(m, U128) => [] *v;
    default_usize: Cap::Default, "usize", |m, v| usize = prim!(m, Usize) => [] *v;
    default_f32: Cap::Default, "f32", |m, v| f32 = prim!(m, F32) => [] *v;
    default_f64: Cap::Default, "f64", |m, v| f64 = prim!(m, F64) => [] *v;
    default_char: Cap::Default, "char", |m, v| char = prim!(m, Char) => [] *v;
    default_str: Cap::Default, "str", |m, v| String = prim!(m, Str) => [] **v;
    default_string: Cap::Default, "str", |m, v| String = prim!(m, Str) => [] *v;
    default_display_type: Cap::Default, "structured", |m, v| M = m.clone() => [] *v;
    // ---- as_display
    display_model: Cap::Display, "model", |m, v| M = m.clone() => [#[emit::as_display]] *v;
    display_i64: Cap::Display, "i64", |m, v| i64 = prim!(m, I64) => [#[emit::as_display]] *v;
    display_f64: Cap::Display, "f64", |m, v| f64 = prim!(m, F64) => [#[emit::as_display]] *v;
    display_str: Cap::Display, "str", |m, v| String = prim!(m, Str) => [#[emit::as_display]] **v;
    display_inspect_i32: Cap::DisplayInspect, "i32", |m, v| i32 = prim!(m, I32) => [#[emit::as_display(inspect: true)]] *v;
    display_inspect_bool: Cap::DisplayInspect, "bool", |m, v| bool = prim!(m, Bool) => [#[emit::as_display(inspect: true)]] *v;
    display_inspect_string: Cap::DisplayInspect, "str", |m, v| String = prim!(m, Str) => [#[emit::as_display(inspect: true)]] *v;
    display_inspect_model: Cap::DisplayInspect, "structured", |m, v| M = m.clone() => [#[emit::as_display(inspect: true)]] *v;
    // ---- as_debug
    debug_model: Cap::Debug, "model", |m, v| M = m.clone() => [#[emit::as_debug]] *v;
    debug_u8: Cap::Debug, "u8", |m, v| u8 = prim!(m, U8) => [#[emit::as_debug]] *v;
    debug_f32: Cap::Debug, "f32", |m, v| f32 = prim!(m, F32) => [#[emit::as_debug]] *v;
    debug_string: Cap::Debug, "str", |m, v| String = prim!(m, Str) => [#[emit::as_debug]] *v;
    debug_char: Cap::Debug, "char", |m, v| char = prim!(m, Char) => [#[emit::as_debug]] *v;
    debug_inspect_u16: Cap::DebugInspect, "u16", |m, v| u16 = prim!(m, U16) => [#[emit::as_debug(inspect: true)]] *v;
    debug_inspect_model: Cap::DebugInspect, "structured", |m, v| M = m.clone() => [#[emit::as_debug(inspect: true)]] *v;
    // ---- as_value
    value_i16: Cap::Value, "i16", |m, v| i16 = prim!(m, I16) => [#[emit::as_value]] *v;
    value_u128: Cap::Value, "u128", |m, v| u128 = prim!(m, U128) => [#[emit::as_value]] *v;
    value_f64: Cap::Value, "f64", |m, v| f64 = prim!(m, F64) => [#[emit::as_value]] *v;
    value_bool: Cap::Value, "bool", |m, v| bool = prim!(m, Bool) => [#[emit::as_value]] *v;
    value_str: Cap::Value, "str", |m, v| String = prim!(m, Str) => [#[emit::as_value]] **v;
    value_string: Cap::Value, "str", |m, v| String = prim!(m, Str) => [#[emit::as_value]] *v;
    value_opt_u32: Cap::Value, "opt:u32", |m, v| Option<u32> = opt_of(m).map(|x| prim!(x, U32)) => [#[emit::as_value]] *v;
    value_opt_i64: Cap::Value, "opt:i64", |m, v| Option<i64> = opt_of(m).map(|x| prim!(x, I64)) => [#[emit::as_value]] *v;
    value_array: Cap::Value, "array:i32", |m, v| [i32; 3] = match m { M::Seq(x) => [prim!((&x[0]), I32), prim!((&x[1]), I32), prim!((&x[2]), I32)], _ => unreachable!() } => [#[emit::as_value]] *v;
    value_custom: Cap::Value, "structured-noseq", |m, v| ViaSerde = ViaSerde(m.clone()) => [#[emit::as_value]] *v;
    value_inspect_i64: Cap::ValueInspect, "i64", |m, v| i64 = prim!(m, I64) => [#[emit::as_value(inspect: true)]] *v;
    value_inspect_string: Cap::ValueInspect, "str", |m, v| String = prim!(m, Str) => [#[emit::as_value(inspect: true)]] *v;
    // ---- as_sval / as_serde
    sval_model: Cap::Sval, "model", |m, v| M = m.clone() => [#[emit::as_sval]] *v;
    sval_structured: Cap::Sval, "structured", |m, v| M = m.clone() => [#[emit::as_sval]] *v;
    sval_inspect_model: Cap::SvalInspect, "structured", |m, v| M = m.clone() => [#[emit::as_sval(inspect: true)]] *v;
    sval_inspect_u64: Cap::SvalInspect, "u64", |m, v| u64 = prim!(m, U64) => [#[emit::as_sval(inspect: true)]] *v;
    sval_f64: Cap::Sval, "f64", |m, v| f64 = prim!(m, F64) => [#[emit::as_sval]] *v;
    sval_str: Cap::Sval, "str", |m, v| String = prim!(m, Str) => [#[emit::as_sval]] **v;
    serde_model: Cap::Serde, "model", |m, v| M = m.clone() => [#[emit::as_serde]] *v;
    serde_structured: Cap::Serde, "structured", |m, v| M = m.clone() => [#[emit::as_serde]] *v;
    serde_inspect_model: Cap::SerdeInspect, "structured", |m, v| M = m.clone() => [#[emit::as_serde(inspect: true)]] *v;
    serde_inspect_i128: Cap::SerdeInspect, "i128", |m, v| i128 = prim!(m, I128) => [#[emit::as_serde(inspect: true)]] *v;
    serde_u128: Cap::Serde, "u128", |m, v| u128 = prim!(m, U128) => [#[emit::as_serde]] *v;
    serde_str: Cap::Serde, "str", |m, v| String = prim!(m, Str) => [#[emit::as_serde]] **v;
    // ---- as_error
    error_chain: Cap::Error, "error", |m, v| ModelError = match m { M::Error(e) => e.clone(), _ => unreachable!() } => [#[emit::as_error]] *v;
    // ---- optional
    optional_i32: Cap::Default, "opt:i32", |m, v| Option<i32> = opt_of(m).map(|x| prim!(x, I32)) => [#[emit::optional]] v.as_ref();
    optional_f64: Cap::Default, "opt:f64", |m, v| Option<f64> = opt_of(m).map(|x| prim!(x, F64)) => [#[emit::optional]] v.as_ref();
    optional_str: Cap::Default, "opt:str", |m, v| Option<String> = opt_of(m).map(|x| prim!(x, Str)) => [#[emit::optional]] v.as_deref();
    optional_string: Cap::Default, "opt:str", |m, v| Option<String> = opt_of(m).map(|x| prim!(x, Str)) => [#[emit::optional]] v.as_ref();
    optional_serde: Cap::Serde, "opt:structured", |m, v| Option<M> = opt_of(m).cloned() => [#[emit::optional] #[emit::as_serde]] v.as_ref();
    optional_sval: Cap::Sval, "opt:structured", |m, v| Option<M> = opt_of(m).cloned() => [#[emit::as_sval] #[emit::optional]] v.as_ref();
    optional_debug: Cap::Debug, "opt:model", |m, v| Option<M> = opt_of(m).cloned() => [#[emit::optional] #[emit::as_debug]] v.as_ref();
    optional_display: Cap::Display, "opt:model", |m, v| Option<M> = opt_of(m).cloned() => [#[emit::as_display] #[emit::optional]] v.as_ref();
    optional_error: Cap::Error, "opt:error", |m, v| Option<ModelError> = opt_of(m).map(|x| match x { M::Error(e) => e.clone(), _ => unreachable!() }) => [#[emit::optional] #[emit::as_error]] v.as_ref();
    // ---- two stacked capture attributes: one of the two modes must hold, never a third
    stacked_debug_display: Cap::Debug, alt Cap::Display, "structured", |m, v| M = m.clone() => [#[emit::as_debug] #[emit::as_display]] *v;
    stacked_display_debug: Cap::Display, alt Cap::Debug, "structured", |m, v| M = m.clone() => [#[emit::as_display] #[emit::as_debug]] *v;
    stacked_serde_debug: Cap::Serde, alt Cap::Debug, "structured", |m, v| M = m.clone() => [#[emit::as_serde] #[emit::as_debug]] *v;
    stacked_debug_sval: Cap::Debug, alt Cap::Sval, "structured", |m, v| M = m.clone() => [#[emit::as_debug] #[emit::as_sval]] *v;
    stacked_sval_serde: Cap::Sval, alt Cap::Serde, "structured", |m, v| M = m.clone() => [#[emit::as_sval] #[emit::as_serde]] *v;
    stacked_display_serde: Cap::Display, alt Cap::Serde, "structured", |m, v| M = m.clone() => [#[emit::as_display] #[emit::as_serde]] *v;
    stacked_value_debug: Cap::Value, alt Cap::Debug, "i64", |m, v| i64 = prim!(m, I64) => [#[emit::as_value] #[emit::as_debug]] *v;
    stacked_debug_value: Cap::Debug, alt Cap::Value, "str", |m, v| String = prim!(m, Str) => [#[emit::as_debug] #[emit::as_value]] *v;
    stacked_error_display: Cap::Error, alt Cap::Display, "error", |m, v| ModelError = match m { M::Error(e) => e.clone(), _ => unreachable!() } => [#[emit::as_error] #[emit::as_display]] *v;
    stacked_display_error: Cap::Display, alt Cap::Error, "error", |m, v| ModelError = match m { M::Error(e) => e.clone(), _ => unreachable!() } => [#[emit::as_display] #[emit::as_error]] *v;
    stacked_inspect_debug: Cap::DisplayInspect, alt Cap::Debug, "i32", |m, v| i32 = prim!(m, I32) => [#[emit::as_display(inspect: true)] #[emit::as_debug]] *v;
    stacked_optional_debug_serde: Cap::Debug, alt Cap::Serde, "opt:structured", |m, v| Option<M> = opt_of(m).cloned() => [#[emit::optional] #[emit::as_debug] #[emit::as_serde]] v.as_ref();
}

renamed_sites! {
    renamed_default_i64: Cap::Default, "i64", |m, v| i64 = prim!(m, I64) => [] *v;
    renamed_default_string: Cap::Default, "str", |m, v| String = prim!(m, Str) => [] *v;
    renamed_default_f64: Cap::Default, "f64", |m, v| f64 = prim!(m, F64) => [] *v;
    renamed_display: Cap::Display, "structured", |m, v| M = m.clone() => [#[emit::as_display]] *v;
    renamed_display_inspect: Cap::DisplayInspect, "i32", |m, v| i32 = prim!(m, I32) => [#[emit::as_display(inspect: true)]] *v;
    renamed_debug: Cap::Debug, "structured", |m, v| M = m.clone() => [#[emit::as_debug]] *v;
    renamed_value: Cap::Value, "u128", |m, v| u128 = prim!(m, U128) => [#[emit::as_value]] *v;
    renamed_sval: Cap::Sval, "structured", |m, v| M = m.clone() => [#[emit::as_sval]] *v;
    renamed_serde: Cap::Serde, "structured", |m, v| M = m.clone() => [#[emit::as_serde]] *v;
    renamed_error: Cap::Error, "error", |m, v| ModelError = match m { M::Error(e) => e.clone(), _ => unreachable!() } => [#[emit::as_error]] *v;
    renamed_optional: Cap::Default, "opt:i32", |m, v| Option<i32> = opt_of(m).map(|x| prim!(x, I32)) => [#[emit::optional]] v.as_ref();
    renamed_optional_serde: Cap::Serde, "opt:structured", |m, v| Option<M> = opt_of(m).cloned() => [#[emit::optional] #[emit::as_serde]] v.as_ref();
}

// ---------------------------------------------------------------------------
// values per site class
// ---------------------------------------------------------------------------

fn all_keys() -> Vec<KeyKind> {
    // key kinds on which serde_json and sval_json agree when serialising the original directly
    vec![KeyKind::Str, KeyKind::Char, KeyKind::Int, KeyKind::BigInt, KeyKind::Bool, KeyKind::Float]
}

fn gen_for_class(g: &mut Rng, class: &str, big: bool) -> M {
    let cfg = GenCfg::new(if big { 4 } else { 3 }, if big { 6 } else { 4 }).with_keys(&all_keys());
    if let Some(inner) = class.strip_prefix("opt:") {
        return if g.chance(1, 3) { M::None } else { M::Some(Box::new(gen_for_class(g, inner, big))) };
    }
    match class {
        "model" => gen_value(g, &cfg),
        "structured" => gen_structured(g, &cfg),
        "structured-noseq" => loop {
            let v = gen_structured(g, &cfg);
            if !v.any(&|n| matches!(n, M::UnitStruct(_))) {
                break v;
            }
        },
        "error" => M::Error(gen_error(g)),
        "array:i32" => M::Seq((0..3).map(|_| M::I32(gen_i32(g))).collect()),
        prim => gen_prim_of(g, prim),
    }
}

fn run_case(r: &mut Report, seed: u64, i: u64, threads: bool) {
    let site = site_at((i % n_sites() as u64) as usize);
    let mut g = Rng::stream(seed, &[19, 1, i]);
    let big = g.chance(1, 10);
    let model = gen_for_class(&mut g, site.class, big);
    // the value the capture mode sees: an `opt:` site sees the inner value (or nothing)
    let (seen, present): (M, bool) = match (&model, site.class.starts_with("opt:")) {
        (M::Some(x), true) => ((**x).clone(), true),
        (M::None, true) if site.cap != Cap::Value => (M::None, false),
        (m, _) => (m.clone(), true),
    };
    let mut exp = expectation(site.cap, &seen);
    exp.present = present;
    if site.name == "value_custom" {
        exp = Expect { present: true, json: Some(JsonMode::Exact(Framework::Serde)), ..Default::default() };
    }
    let case = json!({"section": "sites", "seed": seed, "i": i, "site": site.name, "class": site.class, "value": model.describe()});
    r.eval();
    r.observe(&format!("cap:{}", site.cap.name()), 1);
    r.observe(&format!("site-class:{}:{}", site.cap.name(), site.class), 1);
    seen.walk(&mut |n| r.observe(&format!("shape:{}", n.shape()), 1));
    let trivial = matches!(&seen, M::Bool(false) | M::Unit | M::None) || seen.int_text().as_deref() == Some("0") || matches!(&seen, M::Str(s) if s.is_empty());
    if !trivial {
        r.nontrivial(&(site.name, format!("{:?}", seen)));
    }
    if r.wants_sample() && i % 97 == 3 {
        let c = case.clone();
        r.sample(move || c);
    }
    let alt = site.alt.map(|c| {
        let mut e = expectation(c, &seen);
        e.present = present;
        (c, e)
    });
    if site.alt.is_some() {
        r.observe("stacked:cases", 1);
    }
    let mut d = Driver::new(r, site.name, site.cap, &seen, exp, case, threads && i % 2 == 0);
    d.alt = alt;
    d.variant = i / n_sites() as u64;
    let run = site.run;
    if let Err(p) = catch(|| run(&model, &mut d)) {
        d.violation("site", "panic", format!("the call site panicked: {}", p));
    }
}

/// Model self-check: the hand-written serde / sval impls of the model agree with the
/// independently computed JSON image (otherwise the oracle's reference is not trustworthy).
fn selfcheck(r: &mut Report, seed: u64, n: u64) {
    let mut bad = 0u64;
    for i in 0..n {
        let mut g = Rng::stream(seed, &[19, 2, i]);
        let v = gen_value(&mut g, &GenCfg::new(3, 4).with_keys(&all_keys()));
        for fw in [Framework::Serde, Framework::Sval] {
            let text = match fw {
                Framework::Serde => serde_json::to_string(&v).map_err(|e| e.to_string()),
                Framework::Sval => sval_json::stream_to_string(&v).map_err(|e| e.to_string()),
            };
            let ok = match (v.json_image(fw), text) {
                (Ok(img), Ok(t)) => parse_json(&t).and_then(|tree| img.matches(&tree)).is_ok() && serde_json::from_str::<serde_json::Value>(&t).is_ok(),
                _ => false,
            };
            r.observe("selfcheck:direct-vs-image", 1);
            if !ok {
                bad += 1;
            }
        }
    }
    r.set("model_selfcheck", json!({"values": n, "direct_vs_image_mismatches": bad}));
    if bad > 0 {
        r.inconclusive(format!("model self-check: {} direct serialisations of generated values do not match the model's JSON image", bad));
    }
}

fn main() {
    let args = Args::parse();
    let mut r = Report::new(
        "C19",
        &args,
        "one evaluation = one (macro call site, generated value) pair captured through evt!/props!/emit! and read back on every path \
         (direct, erased, props, emitter, owned, shared, ctxt, thread); non-trivial = distinct (site, value) pairs whose value is not the type's zero / empty value",
    );
    let seed = args.seed;
    let threads = !args.get("no-threads").is_some();
    // `dbg!` can only use the process-wide runtime
    let _global = emit::setup().emit_to(GlobalObsEmitter).with_clock(FakeClock::new(1_700_000_000_000_000_000)).with_rng(CountingRng::new()).try_init();
    r.set("sites", json!(n_sites()));

    if let Some(path) = &args.replay {
        let case = load_replay(path);
        let i = case.get("i").and_then(|v| v.as_u64()).unwrap_or(0);
        let s = case.get("seed").and_then(|v| v.as_u64()).unwrap_or(seed);
        run_case(&mut r, s, i, threads);
        run_case(&mut r, s, i, threads);
        std::process::exit(r.finish());
    }

    let per_site = args.get_u64("per-site", args.n(1_300, 26_000));
    let n = per_site * n_sites() as u64;
    if let Some(cases) = args.get("cases").and_then(|c| c.parse::<u64>().ok()) {
        // tiny lanes (Miri): `cases` cases whose sites rotate with the seed so a seed sweep covers them all
        for k in 0..cases {
            let i = (seed % 1000) * cases + k;
            run_case(&mut r, seed, i, threads);
        }
    } else {
        par_cases(&mut r, &args, n, |i, r| run_case(r, seed, i, threads));
    }
    selfcheck(&mut r, seed, if cfg!(miri) { 4 } else { args.n(5_000, 100_000) });
    std::process::exit(r.finish());
}
