/*!
C09 — emitting never blocks or grows without bound; overflow drops the oldest, counted.

Reference model (written from the statement): a queue with capacity `c`.
`send(x)`: if `len >= c` the whole queue is discarded (one truncation event), then `x` is kept.
`try_send(x)` / `blocking_send(x, T)`: enqueue if there is room, otherwise hand `x` back (the
blocking variant not before `T`) and change nothing. The receiver removes items only by
delivering them to the processor.

Sections:
* `model`  – seeded op sequences (send / try_send / blocking_send / receiver polls with a processor
             that stays Pending for a while) against the model; the receiver is polled by hand, so
             every step is deterministic. After **every** sender op: `pending <= capacity` through
             `Sender::verif_snapshot()` *and* the `queue_length` metric, plus the model's exact
             expectations (pending length, truncation counter, identity of handed-back items).
* `stall`  – the scripted stalled-receiver phase per capacity (processor parked on a gate), once
             with the hand-polled receiver and natively with `sync::spawn` / `tokio::spawn` threads
             and all blocking variants (sync, tokio blocking, tokio async).
* `refill` – a blocked `blocking_send` is woken because a batch was taken but the queue is full
             again before it retries: it must keep waiting and return `Err(item)` not before `T`.
* `watchers`– caller-supplied watchers (`when_empty` / `when_flushed`, registered while the queue is
             non-empty, hence run by the receiver) (i) park on a gate: `send` / `try_send` from other
             threads must return while the gate is closed (causal verdict: "returned only after the
             gate was opened" is the violation), (ii) call back into the sender (send, try_send,
             when_empty, when_flushed, metrics, snapshot): the watcher must return; if it does not and
             the channel's lock cannot be taken from another thread either, that is a deadlock.
* `metrics`– the channel's metrics are sampled while other threads send: (i) a sampler parked inside its
             sampling callback must not hold up `send` / `try_send` (decided on stamp order: the sends
             return before the monitor releases the sampler; 3 of 3 repetitions before it is a
             violation), (ii) a sampling callback that itself sends into the channel must complete.
* `late`   – a blocked sender (T = 2 s) is woken at 1.6 s, loses the slot again and nothing more is
             taken: it must hand the item back at about T, not after a fresh timeout (flagged only
             if later than T + max(0.6 T, 1 s) in 3 of 3 repetitions).
* `extreme`– every blocking send variant with an extreme timeout (1 h, u64::MAX/2 s, u64::MAX s,
             Duration::MAX) on a full queue whose parked receiver is released once the sender really
             waits: Ok, no panic, item delivered exactly once, the channel still works afterwards.
* `flood`  – 10 × capacity plain sends complete while the processor never returns / no receiver runs.
* `retained`– (native, runs alone: the counting allocator is process-wide) a channel of 1 KiB boxed
             buffers whose processor is parked on a gate receives 32 blocks of `capacity` plain sends; the
             live heap is read after every block. What a counted overflow discards must be freed: alarm
             iff at some block k >= 8 the heap retained since the start exceeds 3 x capacity x item size
             (+ 64 KiB) AND it rose by more than a quarter of an item per sent item between block k/2 and block k.
* `spin`   – (native, runs alone) a blocked sender (sync / tokio blocking / tokio async, T = 60 s or
             Duration::MAX) is woken because a batch was taken, loses every slot to a refilling watcher,
             and the receiver is parked in its processor again: over a 200 ms window in which nothing
             can change (no other senders, receiver on its gate) (i) the number of registered `on_take`
             watchers (state snapshot) stays <= blocked senders + the watchers the scenario registered
             itself (+ 2), (ii) the blocked sender's thread passes <= 16 scheduling points (hook H-B,
             counted per thread), (iii) the live heap rises by <= 64 KiB, (iv) the blocked sender's thread
             uses < 50 ms of CPU (/proc/self/task/<tid>/stat). A rule is reported only if it fires in 3
             of 3 repetitions; all four are counts of what a parked thread cannot do, none compares
             wall-clock durations.
* `herd`   – MORE blocked fallible senders than the capacity, all woken by the same take: 6–16 threads (or
             tasks of one runtime) loop `sync::blocking_send` / `tokio::blocking_send` / `tokio::send` on
             capacity 1–4 with a generous (20 s) or short (1–3 ms) timeout while a receiver thread takes a
             batch every 100–500 µs; there is NO plain `send` in the scenario. Every `Ok` item reaches the
             processor exactly once, every `Err` hands back the same item (not before T) and that item never
             shows up, `queue_full_truncated` stays 0 (any truncation would be a silent discard by a
             fallible variant), no batch is larger than the capacity. The number of `on_take` watchers
             registered when the processor is done with a batch (= senders the next take wakes) is recorded.
* `flushw` – the bound while FLUSH WATCHERS sit on the pending batch: the receiver does not take (never run /
             processor parked / in a retry wait), 0..capacity items pending, then 1-4 of `when_flushed`,
             `when_empty`, `sync::blocking_flush`, `tokio::blocking_flush`, `tokio::flush` with a timeout of
             0 / 200 us / 1 ms that expires (its watcher stays attached until the next take), then plain sends
             (a few fallible ones in between) past the capacity, 1-3 rounds; after every op the usual checks
             (snapshot and queue_length <= capacity, model length, truncation counter; signature
             `...:with-a-flush-watcher-attached:after-send`); after the release every attached callback must
             have run exactly once.
* `conc`   – 2–8 sender threads + a sampler thread + a real receiver thread that is stalled and
             released; every sender (after each op) and the sampler assert the bound through the
             snapshot; afterwards accepted = delivered ⊎ truncated with `lost == events × capacity`.

"Not before T" is the only wall-clock comparison (returning early would be the bug); every other
time limit is a watchdog that yields `inconclusive`.
*/

#[path = "../shared/chanvt.rs"]
mod chanvt;

// live-heap readings for the `retained` and `spin` sections (the Miri lane keeps Miri's allocator)
#[cfg(not(miri))]
#[global_allocator]
static ALLOC: chanvt::heap::Counting = chanvt::heap::Counting;

use std::{
    cell::RefCell,
    collections::HashSet,
    future::Future,
    pin::Pin,
    rc::Rc,
    sync::{Arc, Mutex},
    task::{Context, Poll},
    time::{Duration, Instant},
};

use chanvt::*;
use emit_batcher::{bounded, BatchError, ChannelMetrics, Sender};
use vcommon::*;

type Chan = Vec<u64>;

const QUICK_CAPS: [usize; 5] = [1, 2, 3, 8, 64];

fn caps(args: &Args) -> Vec<usize> {
    if cfg!(miri) {
        vec![1, 2, 3]
    } else if args.thorough() {
        (1..=64).collect()
    } else {
        QUICK_CAPS.to_vec()
    }
}

// ---------------------------------------------------------------------------
// hand-polled receiver
// ---------------------------------------------------------------------------

#[derive(Default)]
struct RecvLog {
    calls: Vec<Vec<u64>>,
    /// while set, processor futures stay Pending (the "gate")
    stalled: bool,
    /// number of extra Pending polls for the next processor future
    next_pending: u8,
    /// the next completions ask for a retry of the whole batch (`flushw` section only)
    retry_next: u8,
    /// the next `on_batch` call is that retry: not a new batch
    in_retry: bool,
}

struct GateFut {
    log: Rc<RefCell<RecvLog>>,
    left: u8,
    /// copy of the batch, only kept when a retry is scripted
    again: Option<Chan>,
}

impl Future for GateFut {
    type Output = Result<(), BatchError<Chan>>;

    fn poll(mut self: Pin<&mut Self>, cx: &mut Context<'_>) -> Poll<Self::Output> {
        if self.log.borrow().stalled {
            cx.waker().wake_by_ref();
            return Poll::Pending;
        }
        if self.left > 0 {
            self.left -= 1;
            cx.waker().wake_by_ref();
            return Poll::Pending;
        }
        if let Some(batch) = self.again.take() {
            let mut l = self.log.borrow_mut();
            if l.retry_next > 0 {
                l.retry_next -= 1;
                l.in_retry = true;
                return Poll::Ready(Err(BatchError::retry(std::io::Error::new(std::io::ErrorKind::Other, "scripted"), batch)));
            }
        }
        Poll::Ready(Ok(()))
    }
}

struct HandRecv {
    fut: Pin<Box<dyn Future<Output = ()>>>,
    log: Rc<RefCell<RecvLog>>,
    done: bool,
    seen_calls: usize,
}

impl HandRecv {
    fn new(receiver: emit_batcher::Receiver<Chan>) -> Self {
        let log = Rc::new(RefCell::new(RecvLog::default()));
        let l2 = log.clone();
        let fut = receiver.exec(
            |_d: Duration| YieldOnce::new(),
            move |batch: Chan| {
                let mut l = l2.borrow_mut();
                let again = if l.retry_next > 0 { Some(batch.clone()) } else { None };
                if std::mem::take(&mut l.in_retry) {
                    // the re-delivery of a batch that is already in the log
                } else {
                    l.calls.push(batch);
                }
                let left = std::mem::take(&mut l.next_pending);
                GateFut { log: l2.clone(), left, again }
            },
        );
        HandRecv {
            fut: Box::pin(fut),
            log,
            done: false,
            seen_calls: 0,
        }
    }

    /// Poll up to `n` times; `Err` if the receiver panicked.
    fn poll(&mut self, n: u32) -> Result<(), String> {
        for _ in 0..n {
            if self.done {
                break;
            }
            match catch(|| poll_once(self.fut.as_mut())) {
                Ok(Poll::Ready(())) => self.done = true,
                Ok(Poll::Pending) => {}
                Err(m) => {
                    self.done = true;
                    return Err(m);
                }
            }
        }
        Ok(())
    }

    /// Batches handed to the processor since the last call.
    fn new_batches(&mut self) -> Vec<Vec<u64>> {
        let l = self.log.borrow();
        let out = l.calls[self.seen_calls..].to_vec();
        self.seen_calls = l.calls.len();
        out
    }

    fn set_stalled(&self, s: bool) {
        self.log.borrow_mut().stalled = s;
    }
}

// ---------------------------------------------------------------------------
// the model
// ---------------------------------------------------------------------------

struct Model {
    cap: usize,
    pending: Vec<u64>,
    trunc_events: u64,
    truncated: HashSet<u64>,
    accepted: HashSet<u64>,
    rejected: HashSet<u64>,
    delivered: HashSet<u64>,
}

impl Model {
    fn new(cap: usize) -> Self {
        Model {
            cap,
            pending: Vec::new(),
            trunc_events: 0,
            truncated: HashSet::new(),
            accepted: HashSet::new(),
            rejected: HashSet::new(),
            delivered: HashSet::new(),
        }
    }

    fn full(&self) -> bool {
        self.pending.len() >= self.cap
    }

    fn send(&mut self, x: u64) {
        if self.full() {
            self.truncated.extend(self.pending.drain(..));
            self.trunc_events += 1;
        }
        self.pending.push(x);
        self.accepted.insert(x);
    }

    fn accept(&mut self, x: u64) {
        self.pending.push(x);
        self.accepted.insert(x);
    }
}

struct Sys {
    sender: Option<Arc<Sender<Chan>>>,
    metrics: ChannelMetrics<Chan>,
    model: Model,
}

struct Viol {
    sig: String,
    what: String,
}

fn viol(sig: impl Into<String>, what: impl Into<String>) -> Viol {
    Viol {
        sig: sig.into(),
        what: what.into(),
    }
}

impl Sys {
    fn new(cap: usize) -> (Sys, emit_batcher::Receiver<Chan>) {
        let (sender, receiver) = bounded::<Chan>(cap);
        let metrics = sender.metric_source();
        (
            Sys {
                sender: Some(Arc::new(sender)),
                metrics,
                model: Model::new(cap),
            },
            receiver,
        )
    }

    fn sender(&self) -> &Sender<Chan> {
        self.sender.as_ref().expect("sender alive")
    }

    /// The checks that run after every sender op.
    fn after_op(&self, r: &mut Report, op: &str, was_full: bool) -> Result<(), Viol> {
        let snap = self.sender().verif_snapshot();
        let m = metrics(&self.metrics);
        let qlen = *m.get("queue_length").unwrap_or(&u64::MAX);
        let trunc = *m.get("queue_full_truncated").unwrap_or(&u64::MAX);
        let cap = self.model.cap;
        let sit = if was_full { "full" } else { "room" };
        r.observe("bound-checks:snapshot", 1);
        r.observe("bound-checks:queue_length-metric", 1);
        if snap.pending_len > cap {
            return Err(viol(
                format!("C09:bound:pending-exceeds-capacity:after-{}", op),
                format!("{} items pending after {} with capacity {}", snap.pending_len, op, cap),
            ));
        }
        if qlen as usize > cap {
            return Err(viol(
                format!("C09:bound:queue_length-metric-exceeds-capacity:after-{}", op),
                format!("queue_length = {} after {} with capacity {}", qlen, op, cap),
            ));
        }
        if qlen as usize != snap.pending_len {
            return Err(viol(
                "C09:metric:queue_length-disagrees-with-state",
                format!("queue_length metric {} but {} items pending", qlen, snap.pending_len),
            ));
        }
        if snap.pending_len != self.model.pending.len() {
            return Err(viol(
                format!("C09:{}:{}:pending-length", op, sit),
                format!(
                    "after {} on a {} queue (capacity {}) {} items are pending, the model says {}",
                    op,
                    sit,
                    cap,
                    snap.pending_len,
                    self.model.pending.len()
                ),
            ));
        }
        if trunc != self.model.trunc_events {
            return Err(viol(
                format!("C09:{}:{}:truncation-counter", op, sit),
                format!(
                    "queue_full_truncated = {} after {} on a {} queue, the model counted {} discard events",
                    trunc, op, sit, self.model.trunc_events
                ),
            ));
        }
        Ok(())
    }

    fn send(&mut self, r: &mut Report, x: u64) -> Result<(), Viol> {
        let was_full = self.model.full();
        self.sender().send(x);
        self.model.send(x);
        r.observe(if was_full { "send:on-full" } else { "send:with-room" }, 1);
        self.after_op(r, "send", was_full)
    }

    fn try_send(&mut self, r: &mut Report, x: u64) -> Result<(), Viol> {
        let was_full = self.model.full();
        let res = self.sender().try_send(x);
        self.fallible_result(r, "try_send", x, was_full, res.map_err(|e| e.into_retryable()), None)
    }

    fn blocking_send(&mut self, r: &mut Report, x: u64, t: Duration, kind: BlockKind) -> Result<(), Viol> {
        let was_full = self.model.full();
        let sender = self.sender.clone().unwrap();
        let start = Instant::now();
        let res = catch(|| kind.call(&sender, x, t));
        let elapsed = start.elapsed();
        drop(sender);
        let res = match res {
            Ok(res) => res,
            Err(m) => {
                return Err(viol(
                    format!("C09:{}:panicked", kind.name()),
                    format!("{} panicked: {}", kind.name(), m),
                ))
            }
        };
        self.fallible_result(r, kind.name(), x, was_full, res.map_err(|e| e.into_retryable()), Some((t, elapsed)))
    }

    fn fallible_result(
        &mut self,
        r: &mut Report,
        op: &str,
        x: u64,
        was_full: bool,
        res: Result<(), Option<u64>>,
        timing: Option<(Duration, Duration)>,
    ) -> Result<(), Viol> {
        match res {
            Ok(()) => {
                r.observe(&format!("{}:ok", op), 1);
                self.model.accept(x);
            }
            Err(back) => {
                r.observe(&format!("{}:{}", op, if was_full { "err-on-full" } else { "err-with-room" }), 1);
                self.model.rejected.insert(x);
                if back != Some(x) {
                    return Err(viol(
                        format!("C09:{}:err-without-the-item", op),
                        format!("{} of item {} on a full queue handed back {:?} instead of the item", op, x, back),
                    ));
                }
                if let Some((t, elapsed)) = timing {
                    r.observe(&format!("{}:timed-out", op), 1);
                    if elapsed < t {
                        return Err(viol(
                            format!("C09:{}:returned-before-timeout", op),
                            format!("{} gave up after {:?} with a timeout of {:?}", op, elapsed, t),
                        ));
                    }
                }
            }
        }
        self.after_op(r, op, was_full)
    }

    /// Account for the batches the processor was handed.
    fn delivered(&mut self, r: &mut Report, batches: Vec<Vec<u64>>) -> Result<(), Viol> {
        for b in batches {
            r.observe("batches-delivered", 1);
            for x in b {
                if self.model.rejected.contains(&x) {
                    return Err(viol(
                        "C09:delivered:item-that-was-handed-back",
                        format!("item {} was handed back to the caller (Err) but reached the processor", x),
                    ));
                }
                if self.model.truncated.contains(&x) {
                    return Err(viol(
                        "C09:delivered:item-discarded-by-overflow",
                        format!("item {} should have been discarded by the overflow that kept a newer item, but reached the processor", x),
                    ));
                }
                match self.model.pending.iter().position(|p| *p == x) {
                    Some(i) => {
                        self.model.pending.remove(i);
                        self.model.delivered.insert(x);
                    }
                    None => {
                        return Err(viol(
                            "C09:delivered:item-not-pending",
                            format!("item {} reached the processor but was not pending in the model (never accepted, or delivered twice)", x),
                        ))
                    }
                }
            }
        }
        Ok(())
    }

    /// Drop the sender, let the hand-polled receiver finish, check conservation.
    fn finish(&mut self, r: &mut Report, recv: &mut HandRecv) -> Result<(), Viol> {
        self.sender = None;
        recv.set_stalled(false);
        recv.poll(400).map_err(|m| viol("C09:receiver-panicked", m))?;
        let nb = recv.new_batches();
        self.delivered(r, nb)?;
        if !recv.done {
            r.inconclusive("hand-polled receiver did not complete within 400 polls after the sender was dropped");
            return Ok(());
        }
        self.conservation()
    }

    fn conservation(&self) -> Result<(), Viol> {
        let m = &self.model;
        let vanished: Vec<u64> = m
            .accepted
            .iter()
            .copied()
            .filter(|x| !m.delivered.contains(x) && !m.truncated.contains(x))
            .collect();
        if !vanished.is_empty() {
            return Err(viol(
                "C09:conservation:accepted-item-vanished",
                format!("items {:?} were accepted (Ok) but neither delivered nor discarded by a counted overflow", &vanished[..vanished.len().min(8)]),
            ));
        }
        Ok(())
    }
}

#[derive(Clone, Copy, Debug, PartialEq, Eq, Hash)]
enum BlockKind {
    Sync,
    #[cfg(feature = "tokio")]
    TokioBlocking,
    #[cfg(feature = "tokio")]
    TokioAsync,
}

impl BlockKind {
    fn name(self) -> &'static str {
        match self {
            BlockKind::Sync => "sync::blocking_send",
            #[cfg(feature = "tokio")]
            BlockKind::TokioBlocking => "tokio::blocking_send",
            #[cfg(feature = "tokio")]
            BlockKind::TokioAsync => "tokio::send",
        }
    }

    fn all() -> Vec<BlockKind> {
        #[allow(unused_mut)]
        let mut v = vec![BlockKind::Sync];
        #[cfg(feature = "tokio")]
        if !cfg!(miri) {
            v.extend([BlockKind::TokioBlocking, BlockKind::TokioAsync]);
        }
        v
    }

    fn call(self, sender: &Sender<Chan>, x: u64, t: Duration) -> Result<(), BatchError<u64>> {
        match self {
            BlockKind::Sync => emit_batcher::sync::blocking_send(sender, x, t),
            #[cfg(feature = "tokio")]
            BlockKind::TokioBlocking => emit_batcher::tokio::blocking_send(sender, x, t),
            #[cfg(feature = "tokio")]
            BlockKind::TokioAsync => {
                let rt = tokio::runtime::Builder::new_current_thread().enable_all().build().unwrap();
                rt.block_on(emit_batcher::tokio::send(sender, x, t))
            }
        }
    }
}

// ---------------------------------------------------------------------------
// section `model`: seeded op sequences
// ---------------------------------------------------------------------------

#[derive(Clone, Copy, Debug, PartialEq, Eq, Hash)]
enum Op {
    Send,
    TrySend,
    Blocking(u8),
    Poll(u8),
    Stall(bool),
    Burst(u8),
}

fn gen_ops(g: &mut Rng, cap: usize, n: usize) -> Vec<Op> {
    let mut ops = Vec::with_capacity(n);
    let style = g.below(4);
    for _ in 0..n {
        let x = g.below(100);
        let op = match style {
            // sender-heavy: overflow is common
            0 => match x {
                0..=54 => Op::Send,
                55..=74 => Op::TrySend,
                75..=79 => Op::Blocking(g.below(3) as u8),
                80..=89 => Op::Poll(1 + g.below(3) as u8),
                90..=94 => Op::Stall(g.bool()),
                _ => Op::Burst((cap as u64).min(1 + g.below(cap as u64 + 2)) as u8),
            },
            // balanced
            1 => match x {
                0..=34 => Op::Send,
                35..=59 => Op::TrySend,
                60..=64 => Op::Blocking(g.below(3) as u8),
                65..=92 => Op::Poll(1 + g.below(4) as u8),
                _ => Op::Stall(g.bool()),
            },
            // fallible-heavy against a mostly stalled receiver
            2 => match x {
                0..=19 => Op::Send,
                20..=64 => Op::TrySend,
                65..=79 => Op::Blocking(g.below(3) as u8),
                80..=87 => Op::Poll(1),
                88..=95 => Op::Stall(true),
                _ => Op::Stall(false),
            },
            // bursts exactly around the capacity
            _ => match x {
                0..=29 => Op::Burst((cap as u64 + g.below(3)).saturating_sub(1).clamp(1, 255) as u8),
                30..=49 => Op::Send,
                50..=69 => Op::TrySend,
                70..=74 => Op::Blocking(g.below(3) as u8),
                75..=94 => Op::Poll(1 + g.below(6) as u8),
                _ => Op::Stall(g.bool()),
            },
        };
        ops.push(op);
    }
    ops
}

fn blocking_timeout(code: u8) -> Duration {
    match code {
        0 => Duration::ZERO,
        1 => Duration::from_micros(300),
        _ => Duration::from_millis(2),
    }
}

fn model_case(r: &mut Report, seed: u64, cap: usize, idx: u64, n_ops: usize) {
    let mut g = Rng::stream(seed, &[9, 1, cap as u64, idx]);
    let ops = gen_ops(&mut g, cap, n_ops);
    let kinds = BlockKind::all();
    let case = |upto: usize| {
        json!({"section": "model", "seed": seed, "capacity": cap, "case": idx, "n_ops": n_ops,
               "ops": ops[..upto.min(ops.len())].iter().map(|o| format!("{:?}", o)).collect::<Vec<_>>()})
    };
    r.eval();
    let (mut sys, receiver) = Sys::new(cap);
    let mut recv = HandRecv::new(receiver);
    let mut next = 1u64;
    let mut interesting = false;
    let mut run = || -> Result<(), (usize, Viol)> {
        for (k, op) in ops.iter().enumerate() {
            let at = |v: Viol| (k + 1, v);
            match *op {
                Op::Send => {
                    interesting |= sys.model.full();
                    sys.send(r, next).map_err(at)?;
                    next += 1;
                }
                Op::Burst(n) => {
                    for _ in 0..n {
                        interesting |= sys.model.full();
                        sys.send(r, next).map_err(at)?;
                        next += 1;
                    }
                }
                Op::TrySend => {
                    interesting |= sys.model.full();
                    sys.try_send(r, next).map_err(at)?;
                    next += 1;
                }
                Op::Blocking(code) => {
                    interesting |= sys.model.full();
                    let kind = *g.pick(&kinds);
                    sys.blocking_send(r, next, blocking_timeout(code), kind).map_err(at)?;
                    next += 1;
                }
                Op::Poll(n) => {
                    if g.chance(1, 3) {
                        recv.log.borrow_mut().next_pending = g.below(4) as u8;
                    }
                    recv.poll(n as u32).map_err(|m| at(viol("C09:receiver-panicked", m)))?;
                    let nb = recv.new_batches();
                    sys.delivered(r, nb).map_err(at)?;
                    // the receiver only ever removes what it delivers
                    sys.after_op(r, "receiver-poll", false).map_err(at)?;
                }
                Op::Stall(s) => recv.set_stalled(s),
            }
        }
        sys.finish(r, &mut recv).map_err(|v| (ops.len(), v))
    };
    if let Err((upto, v)) = run() {
        r.violation(&v.sig, &v.what, case(upto));
    }
    if interesting {
        r.nontrivial(&(cap, &ops));
    }
    if r.wants_sample() && interesting && idx == 3 {
        r.sample(|| case(ops.len().min(40)));
    }
}

// ---------------------------------------------------------------------------
// section `stall`: the scripted stalled-receiver phase
// ---------------------------------------------------------------------------

/// Hand-polled variant (deterministic, also under Miri).
fn stall_hand(r: &mut Report, cap: usize, t: Duration, kind: BlockKind) {
    r.eval();
    let case = json!({"section": "stall", "receiver": "hand-polled", "capacity": cap, "timeout_us": t.as_micros() as u64, "blocking": kind.name()});
    let (mut sys, receiver) = Sys::new(cap);
    let mut recv = HandRecv::new(receiver);
    let mut run = || -> Result<(), Viol> {
        // park the processor on the gate with one item
        recv.set_stalled(true);
        sys.send(r, 1)?;
        recv.poll(3).map_err(|m| viol("C09:receiver-panicked", m))?;
        let nb = recv.new_batches();
        if nb != vec![vec![1]] {
            return Err(viol("C09:stall:setup", format!("expected the processor to be parked on [1], saw {:?}", nb)));
        }
        sys.delivered(r, nb)?;
        // fill to capacity
        for k in 0..cap as u64 {
            sys.send(r, 100 + k)?;
        }
        // fallible variants on the full queue
        sys.try_send(r, 200)?;
        sys.blocking_send(r, 201, t, kind)?;
        sys.blocking_send(r, 202, Duration::ZERO, kind)?;
        // one more plain send: the queue is discarded, the new item kept, one event counted
        sys.send(r, 300)?;
        if sys.model.pending != vec![300] || sys.model.trunc_events != 1 {
            return Err(viol("C09:stall:model", "model out of step"));
        }
        // the fallible variants have room again (capacity > 1) or are rejected (capacity 1)
        sys.try_send(r, 301)?;
        recv.poll(5).map_err(|m| viol("C09:receiver-panicked", m))?;
        if !recv.new_batches().is_empty() {
            return Err(viol("C09:stall:setup", "the stalled processor was called again"));
        }
        // release: exactly the kept items are delivered
        let expect: Vec<u64> = sys.model.pending.clone();
        sys.finish(r, &mut recv)?;
        let after: Vec<u64> = recv.log.borrow().calls[1..].iter().flatten().copied().collect();
        r.observe("stall:released-and-drained", 1);
        if after != expect {
            return Err(viol(
                "C09:stall:delivered-after-release",
                format!("after the release the processor received {:?}, expected exactly {:?}", after, expect),
            ));
        }
        Ok(())
    };
    if let Err(v) = run() {
        r.violation(&v.sig, &v.what, case);
    }
    r.nontrivial(&("stall-hand", cap, kind));
}

// ---------------------------------------------------------------------------
// section `flushw`: the bound while flush watchers are attached to the pending batch
// ---------------------------------------------------------------------------

#[derive(Clone, Copy, Debug, PartialEq, Eq, Hash)]
enum NotTaking {
    /// the receiver future is never polled before the release
    NeverRun,
    /// the processor is parked on an earlier batch
    Parked,
    /// the receiver sits in the retry wait of an earlier batch
    Retrying,
}

#[derive(Clone, Copy, Debug, PartialEq, Eq, Hash, PartialOrd, Ord)]
enum Attach {
    WhenFlushed,
    WhenEmpty,
    SyncBlockingFlush,
    #[cfg(feature = "tokio")]
    TokioBlockingFlush,
    #[cfg(feature = "tokio")]
    TokioFlush,
}

impl Attach {
    fn all() -> Vec<Attach> {
        #[allow(unused_mut)]
        let mut v = vec![Attach::WhenFlushed, Attach::WhenFlushed, Attach::SyncBlockingFlush, Attach::SyncBlockingFlush, Attach::WhenEmpty];
        #[cfg(feature = "tokio")]
        if !cfg!(miri) {
            v.extend([Attach::TokioBlockingFlush, Attach::TokioFlush]);
        }
        v
    }
}

/// `C09:bound:pending-exceeds-capacity:after-send` -> `C09:bound:pending-exceeds-capacity:<with>:after-send`
fn with_watchers(mut v: Viol, with: &str) -> Viol {
    v.sig = if v.sig.contains(":after-") { v.sig.replacen(":after-", &format!(":{}:after-", with), 1) } else { format!("{}:{}", v.sig, with) };
    v
}

/// The receiver does not take; >= 1 flush watcher (callback, or the one an expired blocking / async flush leaves
/// behind) sits on the pending batch, possibly next to empty-watchers; then plain sends go past the capacity.
/// Oracle = the statement, through `Sys::after_op` after every op; the attached callbacks are counted at the end.
fn flushw_case(r: &mut Report, seed: u64, cap: usize, idx: u64) {
    use std::sync::atomic::{AtomicU32, Ordering};
    let mut g = Rng::stream(seed, &[9, 21, cap as u64, idx]);
    let sit = [NotTaking::NeverRun, NotTaking::Parked, NotTaking::Retrying][(idx % 3) as usize];
    let kinds = Attach::all();
    // rounds of (pre-fill, attach, overflow); the first pre-fill of a receiver that never ran is >= 1 item
    let rounds = if cfg!(miri) { 1 } else { g.range(1, 3) as usize };
    let mut script: Vec<(usize, Vec<(Attach, u8)>, usize, u8)> = Vec::new();
    for k in 0..rounds {
        let lo = if k == 0 && sit == NotTaking::NeverRun { 1 } else { 0 };
        let fill = match g.below(4) {
            0 => cap,
            1 => lo.max(1).min(cap),
            2 => lo.max(cap.saturating_sub(1)),
            _ => g.range(lo as u64, cap as u64) as usize,
        };
        let n_att = if cfg!(miri) { 2 } else { g.range(1, 4) as usize };
        let att: Vec<(Attach, u8)> = (0..n_att).map(|_| (*g.pick(&kinds), g.below(3) as u8)).collect();
        // enough plain sends to overflow at least once, sometimes several times
        let over = (cap - fill.min(cap)) + 1 + if g.chance(1, 3) { g.range(0, (2 * cap as u64).min(40)) as usize } else { g.below(2) as usize };
        script.push((fill, att, over, g.below(4) as u8));
    }
    let case = json!({"section": "flushw", "seed": seed, "capacity": cap, "case": idx, "receiver": format!("{:?}", sit),
        "rounds": script.iter().map(|(f, a, o, m)| json!({"prefill": f, "attach": a.iter().map(|(k, t)| format!("{:?}/t{}", k, t)).collect::<Vec<_>>(), "sends_after": o, "mix": m})).collect::<Vec<_>>()});
    r.eval();
    let (mut sys, receiver) = Sys::new(cap);
    let mut recv = HandRecv::new(receiver);
    let fired: Vec<Arc<AtomicU32>> = Vec::new();
    let fired = RefCell::new(fired);
    let mut next = 1000u64;
    let mut overflowed_with_flush = false;
    let mut kinds_seen: Vec<Attach> = Vec::new();
    let mut run = || -> Result<(), Viol> {
        match sit {
            NotTaking::NeverRun => {}
            NotTaking::Parked | NotTaking::Retrying => {
                if sit == NotTaking::Parked {
                    recv.set_stalled(true);
                } else {
                    recv.log.borrow_mut().retry_next = 1;
                }
                sys.send(r, 1)?;
                recv.poll(if sit == NotTaking::Parked { 3 } else { 1 }).map_err(|m| viol("C09:receiver-panicked", m))?;
                let nb = recv.new_batches();
                if nb != vec![vec![1]] {
                    return Err(viol("C09:flushw:setup", format!("expected the processor to have been handed [1], saw {:?}", nb)));
                }
                sys.delivered(r, nb)?;
                let snap = sys.sender().verif_snapshot();
                if !snap.is_in_batch || snap.pending_len != 0 {
                    return Err(viol("C09:flushw:setup", format!("expected the receiver to be inside a batch with nothing pending, saw {:?}", snap)));
                }
            }
        }
        for (fill, att, over, mix) in &script {
            let mut with = "with-a-flush-watcher-attached";
            for _ in 0..*fill {
                sys.send(r, next)?;
                next += 1;
            }
            for (kind, tcode) in att {
                let t = match tcode {
                    0 => Duration::ZERO,
                    1 => Duration::from_micros(200),
                    _ => Duration::from_millis(1),
                };
                let before = sys.sender().verif_snapshot();
                let sender = sys.sender.clone().unwrap();
                let res = catch(|| match kind {
                    Attach::WhenFlushed | Attach::WhenEmpty => {
                        let c = Arc::new(AtomicU32::new(0));
                        let c2 = c.clone();
                        let f = move || {
                            c2.fetch_add(1, Ordering::SeqCst);
                        };
                        if *kind == Attach::WhenFlushed {
                            sender.when_flushed(f);
                        } else {
                            sender.when_empty(f);
                        }
                        // a callback that ran at once (nothing to wait for) is not an attached watcher
                        if c.load(Ordering::SeqCst) == 0 {
                            fired.borrow_mut().push(c);
                        }
                        None
                    }
                    Attach::SyncBlockingFlush => Some(emit_batcher::sync::blocking_flush(&sender, t)),
                    #[cfg(feature = "tokio")]
                    Attach::TokioBlockingFlush => Some(emit_batcher::tokio::blocking_flush(&sender, t)),
                    #[cfg(feature = "tokio")]
                    Attach::TokioFlush => {
                        let rt = tokio::runtime::Builder::new_current_thread().enable_all().build().unwrap();
                        Some(rt.block_on(emit_batcher::tokio::flush(&sender, t)))
                    }
                });
                drop(sender);
                let res = res.map_err(|m| viol(format!("C09:flushw:{:?}:panicked", kind), m))?;
                let after = sys.sender().verif_snapshot();
                if let Some(flushed) = res {
                    r.observe(if flushed { "flushw:flush-call:returned-true" } else { "flushw:flush-call:timeout-expired" }, 1);
                }
                if after.on_flush > before.on_flush {
                    r.observe(&format!("flushw:attached:{:?}", kind), 1);
                    if !kinds_seen.contains(kind) {
                        kinds_seen.push(*kind);
                    }
                }
                if after.on_take > before.on_take {
                    r.observe("flushw:attached:WhenEmpty", 1);
                }
                // registering a watcher is not a send: nothing about the queue may change
                sys.after_op(r, "watcher-registration", false).map_err(|v| with_watchers(v, with))?;
            }
            for j in 0..*over {
                let snap = sys.sender().verif_snapshot();
                with = match (snap.on_flush > 0, snap.on_take > 0) {
                    (true, true) => "with-flush-and-empty-watchers-attached",
                    (true, false) => "with-a-flush-watcher-attached",
                    (false, true) => "with-an-empty-watcher-attached",
                    (false, false) => "with-no-watcher-attached",
                };
                let full = sys.model.full();
                if full && snap.on_flush > 0 {
                    overflowed_with_flush = true;
                    r.observe("flushw:send-on-full-with-flush-watcher-attached", 1);
                }
                // mostly plain sends; now and then a fallible one in between (must hand the item back when full)
                match (*mix, j % 5) {
                    (1, 3) => sys.try_send(r, next),
                    (2, 3) if !cfg!(miri) => sys.blocking_send(r, next, Duration::from_micros(100), BlockKind::Sync),
                    _ => sys.send(r, next),
                }
                .map_err(|v| with_watchers(v, with))?;
                next += 1;
                // the statement, spelled out once more for the overflow itself
                if full {
                    let s2 = sys.sender().verif_snapshot();
                    if s2.on_flush != snap.on_flush && (*mix, j % 5) != (2, 3) {
                        r.observe("flushw:flush-watchers-changed-across-a-send", 1);
                    }
                }
            }
        }
        // release: the receiver takes, the attached callbacks fire
        recv.set_stalled(false);
        recv.poll(60).map_err(|m| viol("C09:receiver-panicked", m))?;
        let nb = recv.new_batches();
        sys.delivered(r, nb)?;
        sys.after_op(r, "receiver-poll", false)?;
        for c in fired.borrow().iter() {
            let n = c.load(Ordering::SeqCst);
            r.observe(&format!("flushw:attached-callback-fired-{}-times", n.min(2)), 1);
            if n != 1 {
                return Err(viol(
                    format!("C09:flushw:attached-callback-fired-{}-times:after-sends-past-capacity", if n == 0 { "0" } else { "2+" }),
                    format!("a when_flushed / when_empty callback that was attached to the pending batch while sends overflowed it ran {} times within 60 receiver polls after the release", n),
                ));
            }
        }
        sys.finish(r, &mut recv)
    };
    if let Err(v) = run() {
        r.violation(&v.sig, &v.what, case.clone());
    }
    if overflowed_with_flush {
        kinds_seen.sort();
        r.nontrivial(&("flushw", cap, sit, kinds_seen));
    }
    if r.wants_sample() && overflowed_with_flush && idx == 4 {
        r.sample(|| case);
    }
}

#[cfg_attr(miri, allow(dead_code))]
mod threads {
    use super::*;
    use std::{
        sync::atomic::{AtomicBool, AtomicU64, Ordering},
        thread,
    };

    pub const WATCHDOG: Duration = Duration::from_secs(60);

    #[derive(Clone, Copy, Debug, PartialEq, Eq, Hash)]
    pub enum RecvKind {
        Sync,
        #[cfg(feature = "tokio")]
        Tokio,
    }

    impl RecvKind {
        pub fn name(self) -> &'static str {
            match self {
                RecvKind::Sync => "sync::spawn",
                #[cfg(feature = "tokio")]
                RecvKind::Tokio => "tokio::spawn",
            }
        }

        pub fn all() -> Vec<RecvKind> {
            #[allow(unused_mut)]
            let mut v = vec![RecvKind::Sync];
            #[cfg(feature = "tokio")]
            v.push(RecvKind::Tokio);
            v
        }
    }

    pub type Delivered = Arc<Mutex<Vec<Vec<u64>>>>;

    pub fn start_receiver(kind: RecvKind, receiver: emit_batcher::Receiver<Chan>, delivered: Delivered, gate: Gate) -> thread::JoinHandle<()> {
        match kind {
            RecvKind::Sync => emit_batcher::sync::spawn("c09_sync_receiver", receiver, move |batch: Chan| {
                delivered.lock().unwrap().push(batch);
                gate.pass();
                Ok(())
            })
            .expect("spawn receiver"),
            #[cfg(feature = "tokio")]
            RecvKind::Tokio => emit_batcher::tokio::spawn("c09_tokio_receiver", receiver, move |batch: Chan| {
                let delivered = delivered.clone();
                let gate = gate.clone();
                async move {
                    delivered.lock().unwrap().push(batch);
                    tokio::task::yield_now().await;
                    gate.pass();
                    Ok(())
                }
            })
            .expect("spawn receiver"),
        }
    }

    pub fn join_bounded(h: thread::JoinHandle<()>, limit: Duration) -> bool {
        let start = Instant::now();
        while !h.is_finished() {
            if start.elapsed() > limit {
                return false;
            }
            thread::sleep(Duration::from_micros(200));
        }
        h.join().is_ok()
    }

    /// The scripted phase against a real receiver thread whose processor is parked on a gate.
    pub fn stall_thread(r: &mut Report, cap: usize, t: Duration, kind: BlockKind, rk: RecvKind) {
        r.eval();
        let case = json!({"section": "stall", "receiver": rk.name(), "capacity": cap, "timeout_us": t.as_micros() as u64, "blocking": kind.name()});
        let (mut sys, receiver) = Sys::new(cap);
        let delivered: Delivered = Arc::new(Mutex::new(Vec::new()));
        let gate = Gate::new(false);
        let handle = start_receiver(rk, receiver, delivered.clone(), gate.clone());
        let mut run = || -> Result<bool, Viol> {
            sys.sender().send(1);
            if !gate.wait_arrivals(1, WATCHDOG) {
                r.inconclusive("stall: the processor never reached the gate");
                return Ok(false);
            }
            // the receiver holds [1] and is parked: from here on nothing is taken
            sys.model.accepted.insert(1);
            sys.model.delivered.insert(1);
            sys.after_op(r, "send", false)?;
            for k in 0..cap as u64 {
                sys.send(r, 100 + k)?;
            }
            sys.try_send(r, 200)?;
            sys.blocking_send(r, 201, t, kind)?;
            sys.blocking_send(r, 202, Duration::ZERO, kind)?;
            // (not judged: a blocking send that timed out leaves its on_take watcher behind until the next take)
            r.observe("stall:on_take-watchers-left-behind-by-a-timed-out-blocking-send", sys.sender().verif_snapshot().on_take as u64);
            sys.send(r, 300)?;
            sys.try_send(r, 301)?;
            // `send` keeps returning while the processor never does
            for k in 0..(10 * cap as u64) {
                sys.send(r, 1000 + k)?;
            }
            r.observe("flood:sends-completed-while-processor-parked", 10 * cap as u64);
            Ok(true)
        };
        let ok = match run() {
            Ok(ok) => ok,
            Err(v) => {
                r.violation(&v.sig, &v.what, case.clone());
                false
            }
        };
        let expect: Vec<u64> = sys.model.pending.clone();
        sys.sender = None;
        gate.open();
        if !join_bounded(handle, WATCHDOG) {
            r.inconclusive(format!("stall: {} receiver did not terminate within the watchdog", rk.name()));
            return;
        }
        if ok {
            let d = delivered.lock().unwrap();
            let after: Vec<u64> = d.iter().skip(1).flatten().copied().collect();
            r.observe("stall:released-and-drained", 1);
            if d.first() != Some(&vec![1]) || after != expect {
                r.violation(
                    "C09:stall:delivered-after-release",
                    &format!("after the release the processor received {:?}, expected exactly {:?}", after, expect),
                    case,
                );
            }
        }
        r.nontrivial(&("stall-thread", cap, kind, rk));
    }

    /// A blocked `blocking_send` is woken (a batch was taken) but the queue is full again.
    pub fn refill_case(r: &mut Report, seed: u64, i: u64, cap: usize) {
        // the scenario runs a watcher that calls back into the channel on this very thread: keep a
        // deadlock in there from hanging the monitor
        if WATCHERS_BROKEN.load(Ordering::SeqCst) {
            r.inconclusive("refill: skipped, watchers that call back into the channel were seen to hang");
            return;
        }
        let mut child = r.child();
        match run_bounded("c09_refill", Duration::from_secs(45), move || {
            refill_case_inner(&mut child, seed, i, cap);
            child
        }) {
            Some(child) => r.merge(child),
            None => {
                WATCHERS_BROKEN.store(true, Ordering::SeqCst);
                r.inconclusive("refill: a scenario did not finish within 45 s (its refill watcher calls try_send from inside the receiver)");
            }
        }
    }

    fn refill_case_inner(r: &mut Report, seed: u64, i: u64, cap: usize) {
        let mut g = Rng::stream(seed, &[9, 3, i]);
        let t = Duration::from_millis(*g.pick(&[40u64, 60, 80]));
        let kind = *g.pick(&BlockKind::all());
        let case = json!({"section": "refill", "seed": seed, "case": i, "capacity": cap, "timeout_ms": t.as_millis() as u64, "blocking": kind.name()});
        r.eval();
        let (sender, receiver) = bounded::<Chan>(cap);
        let sender = Arc::new(sender);
        let mut recv = HandRecv::new(receiver);
        recv.set_stalled(true);
        for k in 0..cap as u64 {
            sender.send(10 + k);
        }
        // B: registered first, refills the queue the moment the batch is taken
        let refilled = Arc::new(AtomicU64::new(0));
        {
            let s2 = sender.clone();
            let refilled = refilled.clone();
            sender.when_empty(move || {
                for k in 0..cap as u64 {
                    if s2.try_send(500 + k).is_ok() {
                        refilled.fetch_add(1, Ordering::SeqCst);
                    }
                }
            });
        }
        // A: blocks on the full queue
        let done: Done<(Result<Result<(), Option<u64>>, String>, Duration)> = Done::new();
        let d2 = done.clone();
        let s3 = sender.clone();
        let a = thread::spawn(move || {
            let start = Instant::now();
            let res = catch(|| kind.call(&s3, 999, t).map_err(|e| e.into_retryable()));
            d2.set((res, start.elapsed()));
        });
        // wait until A's watcher is registered behind B's
        let start = Instant::now();
        let mut registered = false;
        while start.elapsed() < t / 2 {
            if sender.verif_snapshot().on_take >= 2 {
                registered = true;
                break;
            }
            thread::yield_now();
        }
        // take the batch: B refills, then A is woken and finds the queue full again
        let _ = recv.poll(1);
        let woke_at = start.elapsed();
        let out = done.wait(t * 100 + Duration::from_secs(10));
        let _ = a.join();
        let snap = sender.verif_snapshot();
        drop(sender);
        recv.set_stalled(false);
        let _ = recv.poll(400);
        let all: Vec<u64> = recv.log.borrow().calls.iter().flatten().copied().collect();
        let (res, elapsed) = match out {
            Some(o) => o,
            None => {
                r.inconclusive("refill: the blocked sender did not return within the watchdog");
                return;
            }
        };
        if registered && refilled.load(Ordering::SeqCst) == cap as u64 && woke_at < t / 2 {
            r.observe("refill:woken-with-queue-full-again", 1);
            r.nontrivial(&("refill", cap, kind, t));
        } else {
            r.observe("refill:setup-too-slow-to-be-meaningful", 1);
        }
        match res {
            Err(m) => r.violation(&format!("C09:{}:panicked", kind.name()), &format!("{} panicked: {}", kind.name(), m), case),
            Ok(Ok(())) => {
                // only possible if it got in before the refill; then it must be delivered
                r.observe("refill:send-got-in", 1);
                if !all.contains(&999) && snap.pending_len <= cap {
                    r.violation("C09:refill:ok-but-never-delivered", "blocking send returned Ok but the item never reached the processor", case);
                }
            }
            Ok(Err(back)) => {
                r.observe("refill:handed-back", 1);
                if back != Some(999) {
                    r.violation(
                        &format!("C09:{}:err-without-the-item", kind.name()),
                        &format!("{} handed back {:?} instead of the item after being woken on a refilled queue", kind.name(), back),
                        case,
                    );
                } else if elapsed < t {
                    r.violation(
                        &format!("C09:{}:returned-before-timeout", kind.name()),
                        &format!("{} was woken on a refilled queue and gave up after {:?} with a timeout of {:?}", kind.name(), elapsed, t),
                        case,
                    );
                } else if all.contains(&999) {
                    r.violation("C09:delivered:item-that-was-handed-back", "item 999 was handed back but reached the processor", case);
                } else if snap.pending_len > cap {
                    r.violation(
                        "C09:bound:pending-exceeds-capacity:after-refill",
                        &format!("{} items pending with capacity {}", snap.pending_len, cap),
                        case,
                    );
                }
            }
        }
    }

    /// No receiver is running at all: plain sends still return, the bound holds.
    pub fn flood_no_receiver(r: &mut Report, cap: usize) {
        r.eval();
        let case = json!({"section": "flood", "receiver": "none", "capacity": cap});
        let (mut sys, receiver) = Sys::new(cap);
        let mut run = || -> Result<(), Viol> {
            for k in 0..(10 * cap as u64 + 3) {
                sys.send(r, 1 + k)?;
            }
            r.observe("flood:sends-completed-without-receiver", 10 * cap as u64 + 3);
            sys.try_send(r, 5000)?;
            Ok(())
        };
        if let Err(v) = run() {
            r.violation(&v.sig, &v.what, case);
        }
        drop(receiver);
        r.nontrivial(&("flood-none", cap));
    }

    // ---- caller-supplied watchers that run inside the channel ----

    /// Set when a watcher that calls back into the channel was seen to deadlock (or to make other
    /// callers wait): the sections that rely on such watchers (`refill`, `late`) are then skipped
    /// instead of hanging one after the other.
    pub static WATCHERS_BROKEN: AtomicBool = AtomicBool::new(false);

    #[derive(Clone, Copy, Debug, PartialEq, Eq, Hash)]
    pub enum Reg {
        WhenEmpty,
        WhenFlushed,
    }

    impl Reg {
        pub const ALL: [Reg; 2] = [Reg::WhenEmpty, Reg::WhenFlushed];

        pub fn name(self) -> &'static str {
            match self {
                Reg::WhenEmpty => "when_empty",
                Reg::WhenFlushed => "when_flushed",
            }
        }

        fn register(self, sender: &Sender<Chan>, f: impl FnOnce() + Send + 'static) {
            match self {
                Reg::WhenEmpty => sender.when_empty(f),
                Reg::WhenFlushed => sender.when_flushed(f),
            }
        }
    }

    #[derive(Clone, Copy, Debug, PartialEq, Eq, Hash)]
    pub enum Reentry {
        Send,
        TrySend,
        WhenEmpty,
        WhenFlushed,
        SampleMetrics,
        Snapshot,
    }

    impl Reentry {
        pub const ALL: [Reentry; 6] = [Reentry::Send, Reentry::TrySend, Reentry::WhenEmpty, Reentry::WhenFlushed, Reentry::SampleMetrics, Reentry::Snapshot];

        pub fn name(self) -> &'static str {
            match self {
                Reentry::Send => "send",
                Reentry::TrySend => "try_send",
                Reentry::WhenEmpty => "when_empty",
                Reentry::WhenFlushed => "when_flushed",
                Reentry::SampleMetrics => "sample_metrics",
                Reentry::Snapshot => "verif_snapshot",
            }
        }

        fn run(self, sender: &Sender<Chan>) {
            match self {
                Reentry::Send => sender.send(7001),
                Reentry::TrySend => {
                    let _ = sender.try_send(7002);
                }
                Reentry::WhenEmpty => sender.when_empty(|| {}),
                Reentry::WhenFlushed => sender.when_flushed(|| {}),
                Reentry::SampleMetrics => {
                    let _ = metrics(&sender.metric_source());
                }
                Reentry::Snapshot => {
                    let _ = sender.verif_snapshot();
                }
            }
        }
    }

    const GENEROUS: Duration = Duration::from_secs(10);

    /// Generous the first time; once one scenario has established that watchers hold callers up,
    /// the remaining ones only need to tell which operations are affected.
    fn generous() -> Duration {
        if WATCHERS_BROKEN.load(Ordering::SeqCst) {
            Duration::from_secs(3)
        } else {
            GENEROUS
        }
    }

    /// Can another thread get at the channel's state within `limit`? (`verif_snapshot` takes the
    /// channel's own lock: no answer = somebody holds it.)
    fn state_lock_reachable(sender: &Arc<Sender<Chan>>, limit: Duration) -> bool {
        let s = sender.clone();
        run_bounded("c09_probe", limit, move || {
            let _ = s.verif_snapshot();
        })
        .is_some()
    }

    /// (i) A watcher registered while the queue is non-empty blocks on a gate when the receiver
    /// runs it: plain sends from other threads must return while the gate is still closed.
    pub fn blocking_watcher_case(r: &mut Report, reg: Reg, rk: RecvKind, cap: usize) {
        r.eval();
        let case = json!({"section": "watchers", "variant": "watcher-parked-on-a-gate", "registered_with": reg.name(), "receiver": rk.name(), "capacity": cap});
        let (sender, receiver) = bounded::<Chan>(cap);
        let sender = Arc::new(sender);
        let delivered: Delivered = Arc::new(Mutex::new(Vec::new()));
        sender.send(1);
        let gate = Gate::new(false);
        let entered: Done<()> = Done::new();
        {
            let (gate, entered) = (gate.clone(), entered.clone());
            reg.register(&sender, move || {
                entered.set(());
                gate.pass();
            });
        }
        let handle = start_receiver(rk, receiver, delivered.clone(), Gate::new(true));
        if entered.wait(GENEROUS).is_none() {
            gate.open();
            r.inconclusive(format!("watchers: the receiver never ran the {} watcher", reg.name()));
            std::mem::forget(sender);
            return;
        }
        // the receiver thread is inside the watcher now; other callers must not notice
        let ops: [(&'static str, fn(&Sender<Chan>, u64)); 2] = [("send", |s, id| s.send(id)), ("try_send", |s, id| {
            let _ = s.try_send(id);
        })];
        let dones: Vec<Done<()>> = ops.iter().map(|_| Done::new()).collect();
        for (k, (_, op)) in ops.iter().enumerate() {
            let (s, d, op) = (sender.clone(), dones[k].clone(), *op);
            let _ = thread::Builder::new().name("c09_other_sender".into()).spawn(move || {
                for j in 0..3u64 {
                    op(&s, 100 + 10 * k as u64 + j);
                }
                d.set(());
            });
        }
        let begin = Instant::now();
        let patience = generous();
        let mut returned_while_closed = Vec::new();
        for d in &dones {
            let left = patience.checked_sub(begin.elapsed()).unwrap_or(Duration::from_millis(1));
            returned_while_closed.push(d.wait(left).is_some());
        }
        gate.open();
        let mut broken = false;
        for (k, (name, _)) in ops.iter().enumerate() {
            if returned_while_closed[k] {
                r.observe(&format!("watchers:{}-returned-while-a-watcher-was-parked", name), 1);
                continue;
            }
            broken = true;
            if dones[k].wait(GENEROUS).is_some() {
                r.violation(
                    &format!("C09:send-waited-for-a-watcher-callback:{}", name),
                    &format!(
                        "{} from another thread did not return for {:?} while a {} watcher was parked inside the receiver, and returned right after the watcher was released",
                        name, patience, reg.name()
                    ),
                    case.clone(),
                );
            } else {
                r.inconclusive(format!("watchers: {} did not return even after the {} watcher was released", name, reg.name()));
            }
        }
        r.nontrivial(&("watchers-parked", reg, rk, cap));
        if broken {
            WATCHERS_BROKEN.store(true, Ordering::SeqCst);
            std::mem::forget(sender);
            return;
        }
        // clean shutdown, bounded
        let joined = run_bounded("c09_cleanup", GENEROUS + GENEROUS, move || {
            drop(sender);
            join_bounded(handle, GENEROUS)
        });
        if joined != Some(true) {
            r.inconclusive("watchers: the receiver did not terminate within the watchdog after the scenario");
        }
    }

    /// (ii) A watcher registered while the queue is non-empty calls back into the sender when the
    /// receiver runs it: it must return.
    pub fn reentrant_watcher_case(r: &mut Report, reg: Reg, op: Reentry, rk: RecvKind, cap: usize) {
        r.eval();
        let case = json!({"section": "watchers", "variant": "watcher-calls-back-into-the-sender", "registered_with": reg.name(), "reentry": op.name(), "receiver": rk.name(), "capacity": cap});
        let (sender, receiver) = bounded::<Chan>(cap);
        let sender = Arc::new(sender);
        let delivered: Delivered = Arc::new(Mutex::new(Vec::new()));
        sender.send(1);
        let entered: Done<()> = Done::new();
        let returned: Done<()> = Done::new();
        {
            let (s, entered, returned) = (sender.clone(), entered.clone(), returned.clone());
            reg.register(&sender, move || {
                entered.set(());
                op.run(&s);
                drop(s);
                returned.set(());
            });
        }
        let handle = start_receiver(rk, receiver, delivered.clone(), Gate::new(true));
        if entered.wait(GENEROUS).is_none() {
            r.inconclusive(format!("watchers: the receiver never ran the {} watcher", reg.name()));
            std::mem::forget(sender);
            return;
        }
        r.nontrivial(&("watchers-reentrant", reg, op, rk, cap));
        if returned.wait(generous()).is_some() {
            r.observe(&format!("watchers:reentrant-{}-returned", op.name()), 1);
            let joined = run_bounded("c09_cleanup", GENEROUS + GENEROUS, move || {
                drop(sender);
                join_bounded(handle, GENEROUS)
            });
            if joined != Some(true) {
                r.inconclusive("watchers: the receiver did not terminate within the watchdog after the scenario");
            }
            return;
        }
        // the watcher is still inside its call back into the sender: slow machine, or is the
        // receiver thread parked in a lock acquisition while it holds the channel's state lock?
        WATCHERS_BROKEN.store(true, Ordering::SeqCst);
        if !state_lock_reachable(&sender, Duration::from_secs(5)) {
            r.violation(
                &format!("C09:watcher-reentry-deadlocks:{}", op.name()),
                &format!(
                    "a {} watcher that calls {} on the same channel never returned, and the channel's state lock cannot be taken from another thread either: the receiver runs the watcher while holding it",
                    reg.name(),
                    op.name()
                ),
                case,
            );
        } else if returned.wait(GENEROUS).is_none() {
            r.inconclusive(format!("watchers: a {} watcher calling {} had not returned after {:?} although the channel's lock is free", reg.name(), op.name(), GENEROUS + GENEROUS));
        }
        std::mem::forget(sender);
    }

    // ---- metrics sampled concurrently with sends ----

    #[derive(Clone, Copy, Debug, PartialEq, Eq, Hash)]
    pub enum ParkAt {
        FirstMetric,
        QueueLength,
    }

    impl ParkAt {
        pub const ALL: [ParkAt; 2] = [ParkAt::FirstMetric, ParkAt::QueueLength];

        pub fn name(self) -> &'static str {
            match self {
                ParkAt::FirstMetric => "first-metric",
                ParkAt::QueueLength => "queue_length",
            }
        }
    }

    /// Patience before the monitor releases the sampler anyway. The verdict is taken on stamp
    /// ORDER (did the send return before the release?), the patience only bounds the wait.
    const PATIENCE: Duration = Duration::from_millis(1200);
    const REPS: usize = 3;

    enum Rep {
        Ok,
        OrderViolated(String),
        Inconclusive(String),
    }

    /// One repetition: a sampler parks inside its sampling callback; sends started while it is
    /// parked must return before the monitor releases it.
    fn slow_sampler_rep(r: &mut Report, g: &mut Rng, cap: usize, park_at: ParkAt) -> Rep {
        let (sender, receiver) = bounded::<Chan>(cap);
        let sender = Arc::new(sender);
        let ms = sender.metric_source();
        let gate = Gate::new(false);
        let parked: Done<u64> = Done::new();
        let sampler_done: Done<u64> = Done::new();
        let sampler = {
            let (gate, parked, sampler_done) = (gate.clone(), parked.clone(), sampler_done.clone());
            thread::spawn(move || {
                use emit::metric::Source as _;
                let seen = std::cell::Cell::new(0u32);
                let did_park = std::cell::Cell::new(false);
                ms.sample_metrics(emit::metric::sampler::from_fn(|m| {
                    let k = seen.get();
                    seen.set(k + 1);
                    let here = match park_at {
                        ParkAt::FirstMetric => k == 0,
                        ParkAt::QueueLength => m.name().to_string() == "queue_length",
                    };
                    if here && !did_park.get() {
                        did_park.set(true);
                        parked.set(stamp());
                        gate.pass();
                    }
                }));
                sampler_done.set(stamp());
            })
        };
        if parked.wait(Duration::from_secs(10)).is_none() {
            gate.open();
            let _ = sampler.join();
            drop(receiver);
            return Rep::Inconclusive(format!("the sampler never reached its park point ({})", park_at.name()));
        }
        // senders started while the sampler is parked
        let n_senders = 1 + g.usize(4);
        let dones: Vec<Done<(u64, u64)>> = (0..n_senders).map(|_| Done::new()).collect();
        let handles: Vec<_> = (0..n_senders)
            .map(|ti| {
                let (sender, done) = (sender.clone(), dones[ti].clone());
                let n_ops = 1 + g.below(6);
                let use_try = g.bool();
                thread::spawn(move || {
                    let start = stamp();
                    for k in 0..n_ops {
                        let id = ((ti as u64 + 1) << 32) | k;
                        if use_try && k % 2 == 1 {
                            let _ = sender.try_send(id);
                        } else {
                            sender.send(id);
                        }
                    }
                    done.set((start, stamp()));
                })
            })
            .collect();
        let begin = Instant::now();
        let mut results: Vec<Option<(u64, u64)>> = Vec::new();
        for d in &dones {
            let left = PATIENCE.checked_sub(begin.elapsed()).unwrap_or(Duration::ZERO);
            results.push(d.wait(left.max(Duration::from_millis(1))));
        }
        let release = stamp();
        gate.open();
        r.observe("metrics:sends-started-while-sampler-parked", n_senders as u64);
        // clean up (watchdogs only)
        let mut stuck = false;
        for (i, d) in dones.iter().enumerate() {
            if results[i].is_none() {
                results[i] = d.wait(Duration::from_secs(10));
                stuck |= results[i].is_none();
            }
        }
        let sampler_finished = sampler_done.wait(Duration::from_secs(10)).is_some();
        if !stuck {
            for h in handles {
                let _ = h.join();
            }
        }
        if sampler_finished {
            let _ = sampler.join();
        }
        // if anything is still stuck it may hold the channel's lock for good: touching the channel
        // again (snapshot, dropping the receiver) would hang the monitor itself
        let pending_len = if sampler_finished && !stuck {
            let n = sender.verif_snapshot().pending_len;
            drop(receiver);
            n
        } else {
            std::mem::forget(receiver);
            0
        };
        let late: Vec<String> = results
            .iter()
            .enumerate()
            .filter_map(|(i, res)| match res {
                Some((_, ret)) if *ret < release => None,
                Some((start, ret)) => Some(format!("sender {} started at stamp {} returned at {} > release {}", i, start, ret, release)),
                None => Some(format!("sender {} never returned (release at {})", i, release)),
            })
            .collect();
        if !late.is_empty() {
            return Rep::OrderViolated(late.join("; "));
        }
        r.observe("metrics:sends-returned-before-sampler-release", n_senders as u64);
        if pending_len > cap {
            return Rep::OrderViolated(format!("{} items pending with capacity {} after sending next to a parked sampler", pending_len, cap));
        }
        if !sampler_finished {
            return Rep::Inconclusive("the sampler did not finish after its release".into());
        }
        Rep::Ok
    }

    /// One repetition: the sampling callback itself sends into the same channel.
    fn reentrant_sampler_rep(r: &mut Report, cap: usize) -> Rep {
        let (sender, receiver) = bounded::<Chan>(cap);
        let sender = Arc::new(sender);
        let ms = sender.metric_source();
        let done: Done<Result<(u64, u64, u64), String>> = Done::new();
        {
            let (sender, done) = (sender.clone(), done.clone());
            let _ = thread::Builder::new().name("c09_reentrant_sampler".into()).spawn(move || {
                use emit::metric::Source as _;
                let res = catch(|| {
                    let start = stamp();
                    let n = std::cell::Cell::new(0u64);
                    ms.sample_metrics(emit::metric::sampler::from_fn(|_m| {
                        let k = n.get();
                        n.set(k + 1);
                        sender.send(2 * k);
                        let _ = sender.try_send(2 * k + 1);
                    }));
                    (start, stamp(), n.get())
                });
                done.set(res);
            });
        }
        let out = done.wait(PATIENCE);
        let release = stamp();
        if matches!(out, Some(Ok(_))) {
            drop(receiver);
        } else {
            // a self-deadlocked sampler holds the channel's lock for good: dropping the receiver
            // (which takes that lock) would hang the monitor itself
            std::mem::forget(receiver);
        }
        match out {
            Some(Ok((_, ret, n))) if ret < release => {
                r.observe("metrics:reentrant-sends-completed", 2 * n);
                if sender.verif_snapshot().pending_len > cap {
                    return Rep::OrderViolated("pending exceeds capacity after re-entrant sends".into());
                }
                Rep::Ok
            }
            Some(Ok((start, ret, _))) => Rep::OrderViolated(format!("re-entrant sampling started at stamp {} returned at {} > release {}", start, ret, release)),
            Some(Err(m)) => Rep::OrderViolated(format!("the re-entrant sampler panicked: {}", m)),
            None => Rep::OrderViolated(format!("a send made from inside the sampling callback had not returned when the monitor gave up (release stamp {})", release)),
        }
    }

    fn k_of_k(r: &mut Report, sig: &str, what: &str, case: Json, mut rep: impl FnMut(&mut Report) -> Rep) {
        r.eval();
        let mut details = Vec::new();
        for _ in 0..REPS {
            match rep(r) {
                Rep::Ok => return,
                Rep::Inconclusive(why) => {
                    r.inconclusive(format!("{}: {}", sig, why));
                    return;
                }
                Rep::OrderViolated(d) => details.push(d),
            }
        }
        let mut case = case;
        case["repetitions"] = json!(details);
        r.violation(sig, &format!("{} ({} of {} repetitions): {}", what, REPS, REPS, details[0]), case);
    }

    pub fn metrics_cases(r: &mut Report, seed: u64, i: u64, cap: usize) {
        for park_at in ParkAt::ALL {
            let mut g = Rng::stream(seed, &[9, 7, i, park_at as u64]);
            let case = json!({"section": "metrics", "variant": "slow-sampler", "seed": seed, "case": i, "capacity": cap, "parked_in": park_at.name()});
            k_of_k(
                r,
                &format!("C09:metrics:send-waits-for-parked-sampler:parked-in={}", park_at.name()),
                "plain sends started while a metrics sampler was parked inside its sampling callback returned only after the sampler was released",
                case,
                |r| slow_sampler_rep(r, &mut g, cap, park_at),
            );
            r.nontrivial(&("metrics-slow", cap, park_at, i));
        }
        let case = json!({"section": "metrics", "variant": "reentrant-sampler", "seed": seed, "case": i, "capacity": cap});
        k_of_k(
            r,
            "C09:metrics:reentrant-sampler-send-does-not-return",
            "a send made from inside the metrics sampling callback into the same channel did not return before the monitor gave up",
            case,
            |r| reentrant_sampler_rep(r, cap),
        );
        r.nontrivial(&("metrics-reentrant", cap, i));
    }

    // ---- a woken sender that loses the slot hands the item back at about T ----

    const LATE_T: Duration = Duration::from_millis(2000);
    const LATE_WAKE: Duration = Duration::from_millis(1600);

    fn late_rep(r: &mut Report, cap: usize, kind: BlockKind) -> Rep {
        let t = LATE_T;
        let limit = t + std::cmp::max(t.mul_f64(0.6), Duration::from_secs(1));
        let (sender, receiver) = bounded::<Chan>(cap);
        let sender = Arc::new(sender);
        let mut recv = HandRecv::new(receiver);
        recv.set_stalled(true);
        for k in 0..cap as u64 {
            sender.send(10 + k);
        }
        // B: registered first; refills the queue the moment the batch is taken (the other senders win the slots)
        let refilled = Arc::new(AtomicU64::new(0));
        {
            let (s2, refilled) = (sender.clone(), refilled.clone());
            sender.when_empty(move || {
                for k in 0..cap as u64 {
                    if s2.try_send(500 + k).is_ok() {
                        refilled.fetch_add(1, Ordering::SeqCst);
                    }
                }
            });
        }
        let started: Done<Instant> = Done::new();
        let done: Done<(Result<Result<(), Option<u64>>, String>, Duration)> = Done::new();
        {
            let (s3, started, done) = (sender.clone(), started.clone(), done.clone());
            let _ = thread::Builder::new().name("c09_late_sender".into()).spawn(move || {
                let start = Instant::now();
                started.set(start);
                let res = catch(|| kind.call(&s3, 999, t).map_err(|e| e.into_retryable()));
                done.set((res, start.elapsed()));
            });
        }
        let a_start = match started.wait(Duration::from_secs(10)) {
            Some(s) => s,
            None => return Rep::Inconclusive("the blocked sender thread never started".into()),
        };
        let mut registered = false;
        while a_start.elapsed() < Duration::from_secs(1) {
            if sender.verif_snapshot().on_take >= 2 {
                registered = true;
                break;
            }
            thread::sleep(Duration::from_millis(1));
        }
        // wake it before T: the batch is taken, B refills, the woken sender finds the queue full again
        if let Some(left) = LATE_WAKE.checked_sub(a_start.elapsed()) {
            thread::sleep(left);
        }
        let _ = recv.poll(1);
        let woke_at = a_start.elapsed();
        let out = done.wait(Duration::from_secs(60));
        drop(sender);
        recv.set_stalled(false);
        let _ = recv.poll(400);
        let (res, elapsed) = match out {
            Some(o) => o,
            None => return Rep::Inconclusive("the blocked sender did not return within the watchdog".into()),
        };
        let meaningful = registered
            && refilled.load(Ordering::SeqCst) == cap as u64
            && woke_at > std::cmp::max(t.mul_f64(0.6), Duration::from_secs(1))
            && woke_at < t.mul_f64(0.95);
        if !meaningful {
            r.observe("late:setup-not-meaningful", 1);
            return Rep::Inconclusive(format!("set-up too slow to be meaningful (woken at {:?})", woke_at));
        }
        r.observe("late:woken-before-T-with-queue-full-again", 1);
        match res {
            Ok(Err(Some(999))) if elapsed > limit => Rep::OrderViolated(format!(
                "woken at {:?} on a refilled queue, handed the item back after {:?} with a timeout of {:?} (limit {:?})",
                woke_at, elapsed, t, limit
            )),
            Ok(Err(Some(999))) => {
                r.observe("late:handed-back-at-about-T", 1);
                r.observe("late:return-after-T-ms", (elapsed.saturating_sub(t)).as_millis() as u64);
                Rep::Ok
            }
            other => Rep::Inconclusive(format!("unexpected result {:?} (covered by the refill section)", other)),
        }
    }

    pub fn late_case(r: &mut Report, cap: usize, kind: BlockKind) {
        if WATCHERS_BROKEN.load(Ordering::SeqCst) {
            r.inconclusive("late: skipped, watchers that call back into the channel were seen to hang");
            return;
        }
        let mut child = r.child();
        match run_bounded("c09_late", Duration::from_secs(240), move || {
            late_case_inner(&mut child, cap, kind);
            child
        }) {
            Some(child) => r.merge(child),
            None => r.inconclusive("late: a scenario did not finish within 240 s"),
        }
    }

    fn late_case_inner(r: &mut Report, cap: usize, kind: BlockKind) {
        let case = json!({"section": "late", "capacity": cap, "blocking": kind.name(), "timeout_ms": LATE_T.as_millis() as u64, "woken_at_ms": LATE_WAKE.as_millis() as u64});
        k_of_k(
            r,
            &format!("C09:{}:handed-back-late-after-losing-the-slot", kind.name()),
            "a blocked sender that was woken before its timeout but found the queue full again handed the item back much later than its timeout",
            case,
            |r| late_rep(r, cap, kind),
        );
        r.nontrivial(&("late", cap, kind));
    }

    // ---- what an overflow discards must be freed (generic `Vec` channel, stalled receiver) ----

    type BChan = Vec<Box<[u8]>>;

    const RETAINED_MIN_BLOCK: usize = 8;
    const RETAINED_SLACK: i64 = 64 * 1024;

    fn start_buf_receiver(kind: RecvKind, receiver: emit_batcher::Receiver<BChan>, seen: Arc<AtomicU64>, gate: Gate) -> thread::JoinHandle<()> {
        match kind {
            RecvKind::Sync => emit_batcher::sync::spawn("c09_buf_receiver", receiver, move |batch: BChan| {
                seen.fetch_add(batch.len() as u64, Ordering::SeqCst);
                gate.pass();
                Ok(())
            })
            .expect("spawn receiver"),
            #[cfg(feature = "tokio")]
            RecvKind::Tokio => emit_batcher::tokio::spawn("c09_buf_receiver", receiver, move |batch: BChan| {
                let (seen, gate) = (seen.clone(), gate.clone());
                async move {
                    seen.fetch_add(batch.len() as u64, Ordering::SeqCst);
                    tokio::task::yield_now().await;
                    gate.pass();
                    Ok(())
                }
            })
            .expect("spawn receiver"),
        }
    }

    /// (k, retained, rise since k/2, limit for retained, limit for the rise) when the rule fires at the last block.
    fn retained_alarm(series: &[i64], cap: usize, item: i64) -> Option<(usize, i64, i64, i64, i64)> {
        let k = series.len() - 1;
        if k < RETAINED_MIN_BLOCK {
            return None;
        }
        let h = k / 2;
        let retained = series[k] - series[0];
        let rise = series[k] - series[h];
        let retained_limit = 3 * cap as i64 * item + RETAINED_SLACK;
        let rise_limit = item / 4 * (k - h) as i64 * cap as i64;
        (retained > retained_limit && rise > rise_limit).then_some((k, retained, rise, retained_limit, rise_limit))
    }

    pub fn retained_case(r: &mut Report, cap: usize, rk: RecvKind, blocks: usize, item_len: usize, print: bool) {
        r.eval();
        let case = json!({"section": "retained", "capacity": cap, "receiver": rk.name(), "blocks": blocks, "item_bytes": item_len});
        if !heap::installed() {
            r.inconclusive("retained: the counting allocator is not installed");
            return;
        }
        let (sender, receiver) = bounded::<BChan>(cap);
        let ms = sender.metric_source();
        let seen = Arc::new(AtomicU64::new(0));
        let gate = Gate::new(false);
        let handle = start_buf_receiver(rk, receiver, seen.clone(), gate.clone());
        let item = |k: usize| vec![b'a' + (k % 26) as u8; item_len].into_boxed_slice();
        sender.send(item(0));
        if !gate.wait_arrivals(1, WATCHDOG) {
            r.inconclusive("retained: the processor never reached the gate");
            gate.open();
            return;
        }
        // the processor holds the first item and is parked: from here on nothing is taken
        let per_item = (item_len + std::mem::size_of::<Box<[u8]>>()) as i64;
        let mut series: Vec<i64> = Vec::with_capacity(blocks + 2);
        let mut alarm = None;
        let mut max_pending = 0usize;
        series.push(heap::live_bytes());
        for k in 1..=blocks {
            // ---- measured phase: nothing but the sends ----
            for j in 0..cap {
                sender.send(item(k + j));
            }
            series.push(heap::live_bytes());
            // ---- once per block, after the heap sample ----
            max_pending = max_pending.max(sender.verif_snapshot().pending_len);
            alarm = retained_alarm(&series, cap, per_item);
            if alarm.is_some() {
                break;
            }
        }
        let trunc = *metrics(&ms).get("queue_full_truncated").unwrap_or(&0);
        let done_blocks = series.len() - 1;
        let rel: Vec<i64> = series.iter().map(|l| l - series[0]).collect();
        if print {
            eprintln!("retained cap {} {}: item {} B, live heap after each block of {} sends, bytes above the start: {:?}", cap, rk.name(), per_item, cap, rel);
        }
        r.observe("retained:sends-completed-while-processor-parked", (done_blocks * cap) as u64);
        r.observe("retained:heap-samples", series.len() as u64);
        r.observe("retained:overflow-truncations", trunc);
        if cap == 64 {
            r.set(&format!("retained-{}-cap-64-bytes-above-start-per-block", rk.name()), json!(rel));
        }
        if max_pending > cap {
            r.violation(
                "C09:bound:pending-exceeds-capacity:after-send",
                &format!("{} items pending at a block boundary of the retained-heap scenario, capacity {}", max_pending, cap),
                case.clone(),
            );
        }
        if let Some((k, retained, rise, retained_limit, rise_limit)) = alarm {
            let mut c = case.clone();
            c["bytes_above_start_after_each_block"] = json!(rel);
            r.violation(
                &format!("C09:batcher:retained-heap-grows-with-emitted-events:{}", rk.name()),
                &format!(
                    "with the processor parked, the live heap after {} blocks of {} sends of {}-byte buffers is {} bytes above the start (limit 3 x capacity x item + 64 KiB = {}) and rose by {} bytes over the last {} blocks (limit a quarter of an item per sent item = {}), with {} counted truncations and at most {} pending: what the overflows discarded is not freed",
                    k,
                    cap,
                    item_len,
                    retained,
                    retained_limit,
                    rise,
                    k - k / 2,
                    rise_limit,
                    trunc,
                    max_pending
                ),
                c,
            );
        } else if trunc == 0 {
            r.inconclusive(format!("retained: no truncation was counted in {} blocks (capacity {}); growth not judged", done_blocks, cap));
        } else {
            r.observe("retained:scenarios-with-a-plateau", 1);
        }
        r.nontrivial(&("retained", cap, rk));
        drop(sender);
        gate.open();
        if !join_bounded(handle, WATCHDOG) {
            r.inconclusive(format!("retained: {} receiver did not terminate within the watchdog", rk.name()));
        }
    }

    // ---- a blocked sender that was woken and lost the slot must go back to sleep ----

    /// Scheduling points (hook H-B) counted per thread: a thread that wants to be counted takes a
    /// slot; the hook itself only reads a thread-local and bumps an atomic (no allocation).
    pub mod pts {
        use std::{
            cell::Cell,
            sync::atomic::{AtomicU64, AtomicUsize, Ordering},
        };

        const SLOTS: usize = 64;
        static COUNTS: [AtomicU64; SLOTS] = [const { AtomicU64::new(0) }; SLOTS];
        static NEXT: AtomicUsize = AtomicUsize::new(0);

        thread_local! {
            static SLOT: Cell<usize> = const { Cell::new(0) };
        }

        pub fn hook(_p: emit_batcher::verif::Point) {
            let s = SLOT.try_with(|s| s.get()).unwrap_or(0);
            if s != 0 {
                COUNTS[s].fetch_add(1, Ordering::SeqCst);
            }
        }

        /// A fresh slot (slots are reused round-robin; the scenarios that use them run one at a time).
        pub fn claim() -> usize {
            let s = 1 + NEXT.fetch_add(1, Ordering::SeqCst) % (SLOTS - 1);
            COUNTS[s].store(0, Ordering::SeqCst);
            s
        }

        /// Count the calling thread's points under `slot` from now on.
        pub fn enter(slot: usize) {
            SLOT.with(|s| s.set(slot));
        }

        pub fn count(slot: usize) -> u64 {
            COUNTS[slot].load(Ordering::SeqCst)
        }
    }

    /// utime + stime (clock ticks, 10 ms each) of one thread of this process.
    fn thread_cpu_ticks(tid: u64) -> Option<u64> {
        let stat = std::fs::read_to_string(format!("/proc/self/task/{}/stat", tid)).ok()?;
        let rest = &stat[stat.rfind(')')? + 1..];
        let f: Vec<&str> = rest.split_whitespace().collect();
        // after the command name: state is field 3, utime 14, stime 15
        Some(f.get(11)?.parse::<u64>().ok()? + f.get(12)?.parse::<u64>().ok()?)
    }

    fn own_tid() -> Option<u64> {
        let link = std::fs::read_link("/proc/thread-self").ok()?;
        link.file_name()?.to_str()?.parse().ok()
    }

    pub const SPIN_WINDOW: Duration = Duration::from_millis(200);
    const SPIN_WATCHER_SLACK: usize = 2;
    const SPIN_MAX_POINTS: u64 = 16;
    const SPIN_MAX_HEAP: i64 = 64 * 1024;
    const SPIN_MAX_CPU_TICKS: u64 = 5;

    #[derive(Clone, Copy, Debug, PartialEq, Eq, Hash, PartialOrd, Ord)]
    enum SpinRule {
        Watchers,
        Points,
        Heap,
        Cpu,
    }

    enum SpinRep {
        /// the window was observed: the rules that fired, with what was seen
        Observed(Vec<(SpinRule, String)>),
        Inconclusive(String),
    }

    fn spin_rep(r: &mut Report, cap: usize, kind: BlockKind, rk: RecvKind, t: Duration, own: usize) -> SpinRep {
        let (sender, receiver) = bounded::<Chan>(cap);
        let sender = Arc::new(sender);
        let delivered: Delivered = Arc::new(Mutex::new(Vec::new()));
        let gate = TicketGate::new();
        let handle = {
            let (delivered, gate) = (delivered.clone(), gate.clone());
            match rk {
                RecvKind::Sync => emit_batcher::sync::spawn("c09_spin_receiver", receiver, move |batch: Chan| {
                    delivered.lock().unwrap().push(batch);
                    gate.pass();
                    Ok(())
                })
                .expect("spawn receiver"),
                #[cfg(feature = "tokio")]
                RecvKind::Tokio => emit_batcher::tokio::spawn("c09_spin_receiver", receiver, move |batch: Chan| {
                    let (delivered, gate) = (delivered.clone(), gate.clone());
                    async move {
                        delivered.lock().unwrap().push(batch);
                        tokio::task::yield_now().await;
                        gate.pass();
                        Ok(())
                    }
                })
                .expect("spawn receiver"),
            }
        };
        // whatever happens below, the receiver is let go and (bounded) waited for
        let finish = |sender: Arc<Sender<Chan>>, handle: thread::JoinHandle<()>, gate: &TicketGate| {
            gate.open();
            drop(sender);
            join_bounded(handle, WATCHDOG)
        };
        sender.send(1);
        if !gate.wait_arrivals(1, WATCHDOG) {
            finish(sender, handle, &gate);
            return SpinRep::Inconclusive("the processor never reached the gate".into());
        }
        for k in 0..cap as u64 {
            sender.send(100 + k);
        }
        // B: registered first; refills the queue the moment the batch is taken (the other senders win every slot)
        let refilled = Arc::new(AtomicU64::new(0));
        {
            let (s2, refilled) = (sender.clone(), refilled.clone());
            sender.when_empty(move || {
                for k in 0..cap as u64 {
                    if s2.try_send(500 + k).is_ok() {
                        refilled.fetch_add(1, Ordering::SeqCst);
                    }
                }
            });
        }
        // A: blocks on the full queue; its scheduling points are counted, its thread id is noted
        let slot = pts::claim();
        let tid: Done<Option<u64>> = Done::new();
        type CallOut = Result<Result<(), Option<u64>>, String>;
        let done: Arc<Mutex<Option<CallOut>>> = Arc::new(Mutex::new(None));
        {
            let (s3, tid, done) = (sender.clone(), tid.clone(), done.clone());
            let spawned = thread::Builder::new().name("c09_spin_sender".into()).spawn(move || {
                tid.set(own_tid());
                pts::enter(slot);
                let res = catch(|| kind.call(&s3, 999, t).map_err(|e| e.into_retryable()));
                pts::enter(0);
                drop(s3);
                *done.lock().unwrap() = Some(res);
            });
            if spawned.is_err() {
                finish(sender, handle, &gate);
                return SpinRep::Inconclusive("could not spawn the blocked sender".into());
            }
        }
        let a_done = |done: &Arc<Mutex<Option<CallOut>>>| done.lock().unwrap().is_some();
        let a_tid = tid.wait(Duration::from_secs(10)).flatten();
        // wait until A's watcher is registered behind B's
        let start = Instant::now();
        let mut registered = false;
        while start.elapsed() < Duration::from_secs(10) && !a_done(&done) {
            if sender.verif_snapshot().on_take >= 2 {
                registered = true;
                break;
            }
            thread::sleep(Duration::from_micros(200));
        }
        if !registered {
            let early = a_done(&done);
            finish(sender, handle, &gate);
            return SpinRep::Inconclusive(if early {
                "the blocking send returned before it could be woken (judged by the other sections)".into()
            } else {
                "the blocked sender never registered its watcher".into()
            });
        }
        let points_asleep = pts::count(slot);
        // exactly one more batch: the receiver finishes [1], takes the full queue (B refills, A is
        // woken and finds the queue full again) and parks in its processor again
        gate.ticket();
        if !gate.wait_arrivals(2, WATCHDOG) {
            finish(sender, handle, &gate);
            return SpinRep::Inconclusive("the receiver did not come back to the gate with the second batch".into());
        }
        // watchers of the scenario's own that stay registered over the window (the queue is not empty)
        for _ in 0..own {
            sender.when_empty(|| {});
        }
        // let A handle its wake-up (only shapes the window: A's two points and its one watcher fit the limits anyway)
        let settle = Instant::now();
        while settle.elapsed() < Duration::from_millis(100) && pts::count(slot) < points_asleep + 2 {
            thread::sleep(Duration::from_millis(1));
        }
        // ---- the window: receiver parked on its gate, no other senders, nothing can change ----
        let cpu0 = a_tid.and_then(thread_cpu_ticks);
        let snap0 = sender.verif_snapshot();
        let points0 = pts::count(slot);
        let heap0 = heap::live_bytes();
        let mut max_on_take = snap0.on_take;
        let w = Instant::now();
        let mut samples = 1u64;
        while w.elapsed() < SPIN_WINDOW {
            thread::sleep(Duration::from_millis(10));
            max_on_take = max_on_take.max(sender.verif_snapshot().on_take);
            samples += 1;
        }
        let heap1 = heap::live_bytes();
        let points1 = pts::count(slot);
        let snap1 = sender.verif_snapshot();
        let cpu1 = a_tid.and_then(thread_cpu_ticks);
        let still_blocked = !a_done(&done);
        let parked = gate.arrivals() == 2;
        let lost_the_slot = refilled.load(Ordering::SeqCst) == cap as u64 && snap0.pending_len == cap && snap1.pending_len == cap;
        // ---- let go: the receiver drains, A gets its slot ----
        gate.open();
        let end = Instant::now();
        while end.elapsed() < WATCHDOG && !a_done(&done) {
            thread::sleep(Duration::from_millis(1));
        }
        let out = done.lock().unwrap().take();
        let joined = out.is_some() && {
            drop(sender);
            join_bounded(handle, WATCHDOG)
        };
        if !(still_blocked && parked && lost_the_slot) {
            r.observe("spin:setup-not-meaningful", 1);
            return SpinRep::Inconclusive(format!(
                "the window was not the intended one (sender still blocked: {}, receiver parked: {}, queue refilled and full at both ends: {})",
                still_blocked, parked, lost_the_slot
            ));
        }
        r.observe("spin:windows-observed", 1);
        r.observe("spin:snapshot-samples-in-window", samples);
        r.observe("spin:points-by-the-blocked-sender-in-window", points1 - points0);
        r.observe("spin:max-on_take-in-window", max_on_take as u64);
        match &out {
            Some(Ok(Ok(()))) => r.observe("spin:blocked-sender-got-its-slot-after-the-release", 1),
            Some(_) => r.observe("spin:blocked-sender-returned-otherwise-after-the-release", 1),
            None => {}
        }
        if !joined {
            r.inconclusive("spin: the blocked sender or the receiver did not come back within the watchdog after the release");
        }
        let mut fired = Vec::new();
        let allowed = 1 + own + SPIN_WATCHER_SLACK;
        if max_on_take > allowed {
            fired.push((
                SpinRule::Watchers,
                format!("{} on_take watchers registered (start of the window {}, end {}) with 1 blocked sender and {} watchers of the scenario's own", max_on_take, snap0.on_take, snap1.on_take, own),
            ));
        }
        if points1 - points0 > SPIN_MAX_POINTS {
            fired.push((SpinRule::Points, format!("the blocked sender's thread passed {} scheduling points (state-lock acquisitions) in {:?}", points1 - points0, SPIN_WINDOW)));
        }
        if heap1 - heap0 > SPIN_MAX_HEAP {
            fired.push((SpinRule::Heap, format!("the live heap rose by {} bytes in {:?}", heap1 - heap0, SPIN_WINDOW)));
        }
        if let (Some(c0), Some(c1)) = (cpu0, cpu1) {
            r.observe("spin:cpu-readings-of-the-blocked-sender", 1);
            if c1 - c0 >= SPIN_MAX_CPU_TICKS {
                fired.push((SpinRule::Cpu, format!("the blocked sender's thread used {} ms of CPU in {:?}", (c1 - c0) * 10, SPIN_WINDOW)));
            }
        }
        SpinRep::Observed(fired)
    }

    pub fn spin_case(r: &mut Report, cap: usize, kind: BlockKind, rk: RecvKind, tmo: Tmo, own: usize) {
        r.eval();
        let t = if tmo == Tmo::Max { Duration::MAX } else { Duration::from_secs(60) };
        let tname = if tmo == Tmo::Max { "Duration::MAX" } else { "60s" };
        let case = json!({"section": "spin", "capacity": cap, "blocking": kind.name(), "receiver": rk.name(), "timeout": tname, "own_watchers": own,
                          "window_ms": SPIN_WINDOW.as_millis() as u64});
        if !heap::installed() {
            r.inconclusive("spin: the counting allocator is not installed");
            return;
        }
        let mut common: Option<Vec<(SpinRule, Vec<String>)>> = None;
        for _ in 0..REPS {
            match spin_rep(r, cap, kind, rk, t, own) {
                SpinRep::Inconclusive(why) => {
                    r.inconclusive(format!("spin ({}, {}): {}", kind.name(), rk.name(), why));
                    return;
                }
                SpinRep::Observed(fired) => {
                    common = Some(match common {
                        None => fired.into_iter().map(|(rule, d)| (rule, vec![d])).collect(),
                        Some(prev) => prev
                            .into_iter()
                            .filter_map(|(rule, mut ds)| {
                                fired.iter().find(|(f, _)| *f == rule).map(|(_, d)| {
                                    ds.push(d.clone());
                                    (rule, ds)
                                })
                            })
                            .collect(),
                    });
                    if common.as_ref().map(|c| c.is_empty()).unwrap_or(true) {
                        break;
                    }
                }
            }
        }
        r.nontrivial(&("spin", cap, kind, rk, tmo, own));
        for (rule, details) in common.unwrap_or_default() {
            if details.len() < REPS {
                continue;
            }
            let (slug, what) = match rule {
                SpinRule::Watchers => (
                    "watchers-grow-while-nothing-changes",
                    "a blocked sender that was woken and lost the slot keeps registering on_take watchers in the channel's shared state while the receiver is parked and nobody else sends",
                ),
                SpinRule::Points => (
                    "busy-polls-the-channel-lock",
                    "a blocked sender that was woken and lost the slot keeps taking the channel's state lock while the receiver is parked and nobody else sends, instead of waiting for the next take or its timeout",
                ),
                SpinRule::Heap => (
                    "heap-grows-while-nothing-changes",
                    "while a woken blocked sender waits again, the receiver is parked and nobody else sends, the live heap keeps rising",
                ),
                SpinRule::Cpu => (
                    "burns-cpu-while-nothing-changes",
                    "a blocked sender that was woken and lost the slot keeps its thread running instead of sleeping until the next take or its timeout",
                ),
            };
            let mut c = case.clone();
            c["repetitions"] = json!(details);
            r.violation(
                &format!("C09:blocked-sender:{}:{}", slug, kind.name()),
                &format!("{} ({} of {} repetitions): {}", what, REPS, REPS, details[0]),
                c,
            );
        }
    }

    // ---- extreme timeouts ----

    #[derive(Clone, Copy, Debug, PartialEq, Eq, Hash)]
    pub enum Tmo {
        Hour,
        HalfU64Secs,
        U64Secs,
        Max,
    }

    impl Tmo {
        pub const ALL: [Tmo; 4] = [Tmo::Hour, Tmo::HalfU64Secs, Tmo::U64Secs, Tmo::Max];

        pub fn dur(self) -> Duration {
            match self {
                Tmo::Hour => Duration::from_secs(3600),
                Tmo::HalfU64Secs => Duration::from_secs(u64::MAX / 2),
                Tmo::U64Secs => Duration::from_secs(u64::MAX),
                Tmo::Max => Duration::MAX,
            }
        }

        pub fn class(self) -> &'static str {
            match self {
                Tmo::Hour => "1h",
                Tmo::HalfU64Secs => "u64max/2-secs",
                Tmo::U64Secs => "u64max-secs",
                Tmo::Max => "Duration::MAX",
            }
        }

        pub fn from_class(c: &str) -> Tmo {
            Tmo::ALL.into_iter().find(|t| t.class() == c).unwrap_or(Tmo::Max)
        }
    }

    const ITEM: u64 = 999;

    /// A blocking send with an extreme timeout on a full queue whose receiver is parked on a gate
    /// that the monitor opens once the sender really waits: the send must complete with Ok, the
    /// item must be delivered exactly once and the channel must still work afterwards.
    pub fn extreme_case(r: &mut Report, cap: usize, kind: BlockKind, tmo: Tmo, rk: RecvKind) {
        r.eval();
        let case = json!({"section": "extreme", "capacity": cap, "blocking": kind.name(), "timeout": tmo.class(), "receiver": rk.name()});
        let t = tmo.dur();
        let (sender, receiver) = bounded::<Chan>(cap);
        let sender = Arc::new(sender);
        let delivered: Delivered = Arc::new(Mutex::new(Vec::new()));
        let gate = Gate::new(false);
        let handle = start_receiver(rk, receiver, delivered.clone(), gate.clone());
        sender.send(1);
        if !gate.wait_arrivals(1, WATCHDOG) {
            r.inconclusive("extreme: the processor never reached the gate");
            gate.open();
            return;
        }
        for k in 0..cap as u64 {
            sender.send(100 + k);
        }
        type CallOut = Result<Result<(), Option<u64>>, String>;
        let done: Done<CallOut> = Done::new();
        {
            let (d2, s2) = (done.clone(), sender.clone());
            let _ = thread::Builder::new().name("c09_extreme_sender".into()).spawn(move || {
                let res = catch(|| kind.call(&s2, ITEM, t).map_err(|e| e.into_retryable()));
                d2.set(res);
            });
        }
        // wait until the sender really waits on the full queue (its empty-watcher is registered)
        let start = Instant::now();
        let mut out: Option<CallOut> = None;
        let mut waited = false;
        while start.elapsed() < Duration::from_secs(10) {
            if sender.verif_snapshot().on_take >= 1 {
                waited = true;
                break;
            }
            out = done.wait(Duration::from_millis(1));
            if out.is_some() {
                break;
            }
        }
        if waited {
            thread::sleep(Duration::from_millis(40));
            r.observe("extreme:sender-was-blocked-when-the-gate-opened", 1);
        }
        gate.open();
        let out = match out.or_else(|| done.wait(WATCHDOG)) {
            Some(o) => o,
            None => {
                r.inconclusive(format!("extreme: {} with timeout {} did not return within the watchdog after the gate was opened", kind.name(), tmo.class()));
                return;
            }
        };
        r.observe(&format!("extreme:{}:timeout={}", kind.name(), tmo.class()), 1);
        r.nontrivial(&("extreme", cap, kind, tmo, rk));
        // later operations on the same channel still work
        let s2 = sender.clone();
        let later = catch(move || {
            let f1 = emit_batcher::sync::blocking_flush(&s2, Duration::from_secs(20));
            if !f1 {
                return (false, false);
            }
            s2.send(7777);
            let _ = s2.try_send(7778);
            let _ = s2.verif_snapshot();
            let _ = metrics(&s2.metric_source());
            (true, emit_batcher::sync::blocking_flush(&s2, Duration::from_secs(20)))
        });
        drop(sender);
        let joined = join_bounded(handle, WATCHDOG);
        let all: Vec<u64> = delivered.lock().unwrap().iter().flatten().copied().collect();
        let tc = format!("timeout={}", tmo.class());
        match out {
            Err(m) => {
                r.violation(
                    &format!("C09:{}:panic:{}", kind.name(), tc),
                    &format!("{} panicked with timeout {} while waiting on a full queue: {}", kind.name(), tmo.class(), m),
                    case.clone(),
                );
            }
            Ok(Err(back)) => {
                r.violation(
                    &format!("C09:{}:gave-up-before-timeout:{}", kind.name(), tc),
                    &format!("{} with timeout {} returned Err({:?}) although the queue was drained long before the timeout", kind.name(), tmo.class(), back),
                    case.clone(),
                );
            }
            Ok(Ok(())) => {
                r.observe("extreme:send-completed-ok", 1);
                let n = all.iter().filter(|x| **x == ITEM).count();
                if joined && n != 1 {
                    r.violation(
                        &format!("C09:{}:item-delivered-{}-times:{}", kind.name(), if n == 0 { "zero" } else { "several" }, tc),
                        &format!("{} with timeout {} returned Ok but the item reached the processor {} times", kind.name(), tmo.class(), n),
                        case.clone(),
                    );
                }
            }
        }
        match later {
            Err(m) => r.violation(
                &format!("C09:{}:channel-unusable-after:{}", kind.name(), tc),
                &format!("after {} with timeout {} a later operation on the channel panicked: {}", kind.name(), tmo.class(), m),
                case.clone(),
            ),
            Ok((true, true)) => {
                r.observe("extreme:later-operations-worked", 1);
                if joined && !all.contains(&7777) {
                    r.violation(
                        &format!("C09:{}:later-send-lost:{}", kind.name(), tc),
                        "an item sent after the extreme-timeout call (into a flushed, empty queue) never reached the processor",
                        case.clone(),
                    );
                }
            }
            Ok(_) => r.inconclusive("extreme: a 20 s flush after the call returned false; later-operation checks skipped"),
        }
        if !joined {
            r.inconclusive(format!("extreme: {} receiver did not terminate within the watchdog", rk.name()));
        }
    }

    // ---- concurrent section ----

    #[derive(Default)]
    struct Shared {
        viols: Mutex<Vec<Viol>>,
        ops_done: AtomicU64,
        stop: AtomicBool,
        samples: AtomicU64,
        samples_at_cap: AtomicU64,
        max_pending: AtomicU64,
        bound_checks: AtomicU64,
    }

    impl Shared {
        fn bound(&self, sender: &Sender<Chan>, cap: usize, who: &str) {
            let snap = sender.verif_snapshot();
            self.bound_checks.fetch_add(1, Ordering::Relaxed);
            self.max_pending.fetch_max(snap.pending_len as u64, Ordering::Relaxed);
            if snap.pending_len > cap {
                let mut v = self.viols.lock().unwrap();
                if v.len() < 8 {
                    v.push(viol(
                        format!("C09:bound:pending-exceeds-capacity:concurrent:{}", who),
                        format!("{} saw {} items pending with capacity {}", who, snap.pending_len, cap),
                    ));
                }
            }
        }
    }

    pub fn conc_case(r: &mut Report, seed: u64, i: u64, cap: usize, ops_per: u64) {
        let mut g = Rng::stream(seed, &[9, 5, i]);
        let n_senders = if cfg!(miri) { 2 } else { g.range(2, 8) as usize };
        let rk = *g.pick(&RecvKind::all());
        let stall_phases = g.range(1, 3);
        let case = json!({"section": "conc", "seed": seed, "case": i, "capacity": cap, "senders": n_senders,
                          "ops_per_sender": ops_per, "receiver": rk.name(), "stall_phases": stall_phases});
        r.eval();
        let (sender, receiver) = bounded::<Chan>(cap);
        let metric_source = sender.metric_source();
        let sender = Arc::new(sender);
        let delivered: Delivered = Arc::new(Mutex::new(Vec::new()));
        let gate = Gate::new(false);
        let handle = start_receiver(rk, receiver, delivered.clone(), gate.clone());
        let shared = Arc::new(Shared::default());

        let sampler = {
            let (sender, shared) = (sender.clone(), shared.clone());
            let ms = sender.metric_source();
            thread::spawn(move || {
                while !shared.stop.load(Ordering::SeqCst) {
                    let snap = sender.verif_snapshot();
                    shared.samples.fetch_add(1, Ordering::Relaxed);
                    shared.max_pending.fetch_max(snap.pending_len as u64, Ordering::Relaxed);
                    if snap.pending_len == cap {
                        shared.samples_at_cap.fetch_add(1, Ordering::Relaxed);
                    }
                    // (the metric sampler is very slow to interpret: under Miri the sampler thread reads the snapshot only)
                    let q = if cfg!(miri) { 0 } else { *metrics(&ms).get("queue_length").unwrap_or(&0) };
                    if snap.pending_len > cap || q as usize > cap {
                        let mut v = shared.viols.lock().unwrap();
                        if v.len() < 8 {
                            v.push(viol(
                                "C09:bound:pending-exceeds-capacity:concurrent:sampler",
                                format!("sampler saw {} pending / queue_length {} with capacity {}", snap.pending_len, q, cap),
                            ));
                        }
                    }
                    thread::yield_now();
                }
            })
        };

        type Outcome = (Vec<u64>, Vec<u64>); // accepted, rejected
        let senders: Vec<thread::JoinHandle<Outcome>> = (0..n_senders)
            .map(|ti| {
                let (sender, shared) = (sender.clone(), shared.clone());
                let mut g = g.fork();
                thread::spawn(move || {
                    let mut accepted = Vec::new();
                    let mut rejected = Vec::new();
                    let kinds = BlockKind::all();
                    for k in 0..ops_per {
                        let id = ((ti as u64 + 1) << 32) | k;
                        match g.below(100) {
                            0..=59 => {
                                sender.send(id);
                                accepted.push(id);
                                shared.bound(&sender, cap, "after-send");
                            }
                            60..=91 => {
                                match sender.try_send(id) {
                                    Ok(()) => accepted.push(id),
                                    Err(e) => {
                                        rejected.push(id);
                                        if e.into_retryable() != Some(id) {
                                            shared.viols.lock().unwrap().push(viol(
                                                "C09:try_send:err-without-the-item",
                                                format!("try_send of {} failed without handing the item back", id),
                                            ));
                                        }
                                    }
                                }
                                shared.bound(&sender, cap, "after-try_send");
                            }
                            _ => {
                                let t = *g.pick(&[Duration::ZERO, Duration::from_micros(100), Duration::from_micros(800)]);
                                let kind = *g.pick(&kinds);
                                let start = Instant::now();
                                match kind.call(&sender, id, t) {
                                    Ok(()) => accepted.push(id),
                                    Err(e) => {
                                        let elapsed = start.elapsed();
                                        rejected.push(id);
                                        if e.into_retryable() != Some(id) {
                                            shared.viols.lock().unwrap().push(viol(
                                                format!("C09:{}:err-without-the-item", kind.name()),
                                                format!("{} of {} failed without handing the item back", kind.name(), id),
                                            ));
                                        } else if elapsed < t {
                                            shared.viols.lock().unwrap().push(viol(
                                                format!("C09:{}:returned-before-timeout", kind.name()),
                                                format!("{} gave up after {:?} with a timeout of {:?}", kind.name(), elapsed, t),
                                            ));
                                        }
                                    }
                                }
                                shared.bound(&sender, cap, "after-blocking_send");
                            }
                        }
                        shared.ops_done.fetch_add(1, Ordering::SeqCst);
                        if g.chance(1, 16) {
                            thread::yield_now();
                        }
                    }
                    (accepted, rejected)
                })
            })
            .collect();

        // stall / release by progress, not by time
        let total = ops_per * n_senders as u64;
        let start = Instant::now();
        let mut watchdog = false;
        for phase in 0..stall_phases {
            let open_at = total * (2 * phase + 1) / (2 * stall_phases + 1);
            let close_at = total * (2 * phase + 2) / (2 * stall_phases + 1);
            while shared.ops_done.load(Ordering::SeqCst) < open_at {
                if start.elapsed() > WATCHDOG {
                    watchdog = true;
                    break;
                }
                thread::yield_now();
            }
            gate.open();
            while shared.ops_done.load(Ordering::SeqCst) < close_at {
                if start.elapsed() > WATCHDOG {
                    watchdog = true;
                    break;
                }
                thread::yield_now();
            }
            if phase + 1 < stall_phases {
                gate.close();
            }
        }
        gate.open();
        let mut accepted: HashSet<u64> = HashSet::new();
        let mut rejected: HashSet<u64> = HashSet::new();
        for h in senders {
            match h.join() {
                Ok((a, rj)) => {
                    accepted.extend(a);
                    rejected.extend(rj);
                }
                Err(p) => {
                    r.violation("C09:conc:sender-panicked", &format!("a sender thread panicked: {}", panic_message(&p)), case.clone());
                }
            }
        }
        shared.stop.store(true, Ordering::SeqCst);
        let _ = sampler.join();
        let trunc = *metrics(&metric_source).get("queue_full_truncated").unwrap_or(&u64::MAX);
        drop(sender);
        if watchdog || !join_bounded(handle, WATCHDOG) {
            r.inconclusive("conc: watchdog fired (senders slow or receiver did not terminate)");
            return;
        }
        for v in shared.viols.lock().unwrap().drain(..) {
            r.violation(&v.sig, &v.what, case.clone());
        }
        let delivered: Vec<u64> = delivered.lock().unwrap().iter().flatten().copied().collect();
        let dset: HashSet<u64> = delivered.iter().copied().collect();
        r.observe("conc:bound-checks-by-senders", shared.bound_checks.load(Ordering::Relaxed));
        r.observe("conc:bound-checks-by-sampler", shared.samples.load(Ordering::Relaxed));
        r.observe("conc:sampler-saw-queue-at-capacity", shared.samples_at_cap.load(Ordering::Relaxed));
        r.observe("conc:items-accepted", accepted.len() as u64);
        r.observe("conc:items-handed-back", rejected.len() as u64);
        r.observe("conc:items-delivered", dset.len() as u64);
        r.observe("conc:truncation-events", trunc);
        if let Some(x) = delivered.iter().find(|x| rejected.contains(x)) {
            r.violation(
                "C09:delivered:item-that-was-handed-back",
                &format!("item {:#x} was handed back to its sender (Err) but reached the processor", x),
                case.clone(),
            );
        }
        if let Some(x) = delivered.iter().find(|x| !accepted.contains(x) && !rejected.contains(x)) {
            r.violation("C09:delivered:item-not-pending", &format!("item {:#x} reached the processor but was never sent", x), case.clone());
        }
        let lost = accepted.iter().filter(|x| !dset.contains(x)).count() as u64;
        if lost != trunc * cap as u64 {
            let sig = if lost > trunc * cap as u64 {
                "C09:conservation:more-items-lost-than-counted-overflows-explain"
            } else {
                "C09:conservation:fewer-items-lost-than-counted-overflows"
            };
            r.violation(
                sig,
                &format!(
                    "{} accepted items never reached the processor, but queue_full_truncated = {} with capacity {} (each counted overflow discards exactly a full queue)",
                    lost, trunc, cap
                ),
                case.clone(),
            );
        }
        let at_cap = shared.max_pending.load(Ordering::Relaxed) == cap as u64;
        r.nontrivial(&("conc", cap, n_senders, rk, at_cap, trunc.min(3), rejected.len().min(3)));
        if r.wants_sample() && i < 2 {
            let mp = shared.max_pending.load(Ordering::Relaxed);
            let (na, nr, nd) = (accepted.len(), rejected.len(), dset.len());
            r.sample(move || json!({"case": case, "accepted": na, "handed_back": nr, "delivered": nd, "truncation_events": trunc, "lost": lost, "max_pending_seen": mp}));
        }
    }

    // ---- more blocked fallible senders than the capacity, all woken by the same take ----

    #[derive(Clone, Copy, Debug, PartialEq, Eq, Hash)]
    pub enum HerdMode {
        /// every sender thread loops this variant
        All(BlockKind),
        /// the variant is drawn per sender thread
        Mixed,
        /// `tokio::send` from that many tasks of ONE current-thread runtime
        #[cfg(feature = "tokio")]
        AsyncTasks,
    }

    impl HerdMode {
        fn name(self) -> String {
            match self {
                HerdMode::All(k) => k.name().to_string(),
                HerdMode::Mixed => "mixed".to_string(),
                #[cfg(feature = "tokio")]
                HerdMode::AsyncTasks => "tokio::send (tasks of one runtime)".to_string(),
            }
        }
    }

    #[derive(Default)]
    struct HerdOut {
        /// (id, variant) of every send that returned Ok
        accepted: Vec<(u64, BlockKind)>,
        /// ids handed back with Err(item)
        handed_back: Vec<u64>,
        viols: Vec<Viol>,
    }

    impl HerdOut {
        fn record(&mut self, id: u64, kind: BlockKind, t: Duration, elapsed: Duration, res: Result<Result<(), BatchError<u64>>, String>) {
            match res {
                Ok(Ok(())) => self.accepted.push((id, kind)),
                Ok(Err(e)) => {
                    let back = e.into_retryable();
                    if back != Some(id) {
                        self.viols.push(viol(
                            format!("C09:fallible-send:err-without-the-item:woken-senders-exceed-capacity:{}", kind.name()),
                            format!("{} of {:#x} returned Err and handed back {:?} instead of the item (the channel was open: its receiver was running)", kind.name(), id, back),
                        ));
                    } else {
                        self.handed_back.push(id);
                        if elapsed < t {
                            self.viols.push(viol(
                                format!("C09:{}:returned-before-timeout", kind.name()),
                                format!("{} gave up after {:?} with a timeout of {:?}", kind.name(), elapsed, t),
                            ));
                        }
                    }
                }
                Err(msg) => self.viols.push(viol(format!("C09:{}:panicked", kind.name()), format!("{} panicked among many blocked senders: {}", kind.name(), msg))),
            }
        }
    }

    #[derive(Default)]
    struct HerdRecv {
        batches: Vec<Vec<u64>>,
        /// `on_take` watchers registered when the processor is done with a batch = blocked senders the NEXT take wakes
        waiting_sum: u64,
        waiting_max: u64,
        takes_waking_more_than_capacity: u64,
        max_pending: u64,
    }

    /// 6-16 senders loop a fallible send (generous or short timeout) on capacity 1-4 while a receiver
    /// takes a batch every few hundred microseconds. There is NO plain `send` in the scenario.
    pub fn herd_case(r: &mut Report, seed: u64, i: u64) {
        let mut g = Rng::stream(seed, &[9, 7, i]);
        let cap = g.range(1, 4) as usize;
        let n_senders = g.range(6, 16) as usize;
        let kinds = BlockKind::all();
        #[allow(unused_mut)]
        let mut modes: Vec<HerdMode> = kinds.iter().map(|k| HerdMode::All(*k)).collect();
        modes.push(HerdMode::Mixed);
        #[cfg(feature = "tokio")]
        modes.push(HerdMode::AsyncTasks);
        let mode = modes[(i % modes.len() as u64) as usize];
        let rk = *g.pick(&RecvKind::all());
        let per_sender = g.range(30, 120);
        let period = Duration::from_micros(*g.pick(&[100u64, 200, 300, 500]));
        // mostly generous (the item must get in), sometimes short (many hand-backs)
        let t = if g.chance(1, 4) { Duration::from_millis(*g.pick(&[1u64, 3])) } else { Duration::from_secs(20) };
        let case = json!({"section": "herd", "seed": seed, "case": i, "capacity": cap, "senders": n_senders, "sends_per_sender": per_sender,
                          "variant": mode.name(), "receiver": rk.name(), "processor_us_per_batch": period.as_micros() as u64,
                          "timeout_ms": t.as_millis() as u64, "plain_sends": 0});
        r.eval();
        let (sender, receiver) = bounded::<Chan>(cap);
        let metric_source = sender.metric_source();
        let sender = Arc::new(sender);
        let seen: Arc<Mutex<HerdRecv>> = Arc::new(Mutex::new(HerdRecv::default()));
        let on_batch = {
            let seen = seen.clone();
            let weak = Arc::downgrade(&sender);
            move |batch: Chan| {
                let mut s = seen.lock().unwrap();
                s.batches.push(batch);
                drop(s);
                thread::sleep(period);
                if let Some(sender) = weak.upgrade() {
                    let snap = sender.verif_snapshot();
                    let mut s = seen.lock().unwrap();
                    s.waiting_sum += snap.on_take as u64;
                    s.waiting_max = s.waiting_max.max(snap.on_take as u64);
                    if snap.on_take > cap {
                        s.takes_waking_more_than_capacity += 1;
                    }
                    s.max_pending = s.max_pending.max(snap.pending_len as u64);
                }
            }
        };
        let handle = match rk {
            RecvKind::Sync => {
                emit_batcher::sync::spawn("c09_herd_rx", receiver, move |batch: Chan| {
                    on_batch(batch);
                    Ok(())
                })
                .expect("spawn receiver")
            }
            #[cfg(feature = "tokio")]
            RecvKind::Tokio => {
                emit_batcher::tokio::spawn("c09_herd_rx", receiver, move |batch: Chan| {
                    on_batch(batch);
                    async move {
                        tokio::task::yield_now().await;
                        Ok(())
                    }
                })
                .expect("spawn receiver")
            }
        };

        let barrier = Arc::new(std::sync::Barrier::new(match mode {
            #[cfg(feature = "tokio")]
            HerdMode::AsyncTasks => 1,
            _ => n_senders,
        }));
        let mut threads: Vec<thread::JoinHandle<HerdOut>> = Vec::new();
        match mode {
            #[cfg(feature = "tokio")]
            HerdMode::AsyncTasks => {
                let sender = sender.clone();
                threads.push(thread::spawn(move || {
                    let rt = tokio::runtime::Builder::new_current_thread().enable_all().build().unwrap();
                    let out = Arc::new(Mutex::new(HerdOut::default()));
                    rt.block_on(async {
                        let mut tasks = Vec::new();
                        for ti in 0..n_senders {
                            let (sender, out) = (sender.clone(), out.clone());
                            tasks.push(tokio::spawn(async move {
                                for k in 0..per_sender {
                                    let id = ((ti as u64 + 1) << 32) | k;
                                    let start = Instant::now();
                                    let res = emit_batcher::tokio::send(&sender, id, t).await;
                                    out.lock().unwrap().record(id, BlockKind::TokioAsync, t, start.elapsed(), Ok(res));
                                }
                            }));
                        }
                        for (ti, task) in tasks.into_iter().enumerate() {
                            if let Err(e) = task.await {
                                out.lock().unwrap().viols.push(viol("C09:tokio::send:panicked", format!("task {} looping tokio::send among many blocked senders died: {}", ti, e)));
                            }
                        }
                    });
                    let mut o = out.lock().unwrap();
                    std::mem::take(&mut *o)
                }));
            }
            _ => {
                for ti in 0..n_senders {
                    let kind = match mode {
                        HerdMode::All(k) => k,
                        _ => *g.pick(&kinds),
                    };
                    let (sender, barrier) = (sender.clone(), barrier.clone());
                    threads.push(thread::spawn(move || {
                        let mut out = HerdOut::default();
                        #[cfg(feature = "tokio")]
                        let rt = if kind == BlockKind::TokioAsync { Some(tokio::runtime::Builder::new_current_thread().enable_all().build().unwrap()) } else { None };
                        barrier.wait();
                        for k in 0..per_sender {
                            let id = ((ti as u64 + 1) << 32) | k;
                            let start = Instant::now();
                            let res = catch(|| match kind {
                                BlockKind::Sync => emit_batcher::sync::blocking_send(&sender, id, t),
                                #[cfg(feature = "tokio")]
                                BlockKind::TokioBlocking => emit_batcher::tokio::blocking_send(&sender, id, t),
                                #[cfg(feature = "tokio")]
                                BlockKind::TokioAsync => rt.as_ref().unwrap().block_on(emit_batcher::tokio::send(&sender, id, t)),
                            });
                            let stop = res.is_err();
                            out.record(id, kind, t, start.elapsed(), res);
                            if stop {
                                break;
                            }
                        }
                        out
                    }));
                }
            }
        }

        // bounded joins: a sender that never comes back leaves the case undecided
        let start = Instant::now();
        let mut outs: Vec<HerdOut> = Vec::new();
        let mut stuck = 0;
        for h in threads {
            while !h.is_finished() && start.elapsed() < WATCHDOG {
                thread::sleep(Duration::from_micros(300));
            }
            if !h.is_finished() {
                stuck += 1;
                continue;
            }
            match h.join() {
                Ok(o) => outs.push(o),
                Err(p) => r.violation("C09:herd:sender-panicked", &format!("a sender thread panicked: {}", panic_message(&p)), case.clone()),
            }
        }
        let m = metrics(&metric_source);
        let trunc = *m.get("queue_full_truncated").unwrap_or(&u64::MAX);
        let blocked = *m.get("queue_full_blocked").unwrap_or(&0);
        drop(sender);
        if stuck > 0 || !join_bounded(handle, WATCHDOG) {
            r.inconclusive(format!("herd: watchdog fired ({} sender thread(s) still blocked after {:?}, or the receiver did not terminate)", stuck, WATCHDOG));
            return;
        }
        let seen = std::mem::take(&mut *seen.lock().unwrap());
        let mut accepted: std::collections::HashMap<u64, BlockKind> = std::collections::HashMap::new();
        let mut handed_back: HashSet<u64> = HashSet::new();
        for o in outs {
            for v in o.viols {
                r.violation(&v.sig, &v.what, case.clone());
            }
            accepted.extend(o.accepted);
            handed_back.extend(o.handed_back);
        }
        let mut delivered: std::collections::HashMap<u64, u32> = std::collections::HashMap::new();
        let mut oversized = 0u64;
        for b in &seen.batches {
            if b.len() > cap {
                oversized += 1;
            }
            for x in b {
                *delivered.entry(*x).or_insert(0) += 1;
            }
        }
        let takes = seen.batches.len() as u64;
        r.observe("herd:cases", 1);
        r.observe("herd:sender-threads-or-tasks", n_senders as u64);
        r.observe("herd:fallible-sends:ok", accepted.len() as u64);
        r.observe("herd:fallible-sends:handed-back", handed_back.len() as u64);
        r.observe("herd:sends-that-blocked(queue_full_blocked)", blocked);
        r.observe("herd:takes", takes);
        r.observe("herd:blocked-senders-woken-by-takes(sum)", seen.waiting_sum);
        r.observe("herd:takes-waking-more-senders-than-capacity", seen.takes_waking_more_than_capacity);
        r.observe(&format!("herd:variant:{}", mode.name()), 1);
        let numbers = json!({"ok": accepted.len(), "handed_back": handed_back.len(), "delivered": delivered.len(), "takes": takes,
            "queue_full_truncated": trunc, "queue_full_blocked": blocked, "max_blocked_senders_woken_by_one_take": seen.waiting_max,
            "mean_blocked_senders_woken_per_take": if takes > 0 { seen.waiting_sum as f64 / takes as f64 } else { 0.0 },
            "takes_waking_more_senders_than_capacity": seen.takes_waking_more_than_capacity, "largest_batch": seen.batches.iter().map(|b| b.len()).max().unwrap_or(0)});
        let detail = |extra: Json| {
            let mut c = case.clone();
            c["observed"] = numbers.clone();
            if !extra.is_null() {
                c["witness"] = extra;
            }
            c
        };
        // no plain send exists: any truncation is a silent discard by a fallible variant
        if trunc != 0 {
            r.violation(
                "C09:fallible-send:truncated-the-queue",
                &format!(
                    "queue_full_truncated = {} in a scenario that contains no plain send: {} senders looped {} on capacity {}; an overflow truncation here discards items whose fallible send returned Ok",
                    trunc, n_senders, mode.name(), cap
                ),
                detail(Json::Null),
            );
        }
        if oversized > 0 || seen.max_pending as usize > cap {
            r.violation(
                "C09:bound:batch-exceeds-capacity:woken-senders-exceed-capacity",
                &format!("{} batch(es) larger than the capacity {} reached the processor (largest pending length seen: {})", oversized, cap, seen.max_pending),
                detail(Json::Null),
            );
        }
        // every Ok reaches the processor exactly once
        let mut lost: Vec<(u64, BlockKind)> = accepted.iter().filter(|(id, _)| !delivered.contains_key(id)).map(|(id, k)| (*id, *k)).collect();
        lost.sort_by_key(|l| l.0);
        let mut lost_kinds: Vec<BlockKind> = Vec::new();
        for (_, k) in &lost {
            if !lost_kinds.contains(k) {
                lost_kinds.push(*k);
            }
        }
        for k in lost_kinds {
            let of_kind: Vec<u64> = lost.iter().filter(|l| l.1 == k).map(|l| l.0).collect();
            r.violation(
                &format!("C09:fallible-send:accepted-item-lost:woken-senders-exceed-capacity:{}", k.name()),
                &format!(
                    "{} item(s) for which {} returned Ok never reached the processor (e.g. {:#x}); {} senders, capacity {}, up to {} blocked senders woken by one take, no plain send anywhere, queue_full_truncated = {}",
                    of_kind.len(), k.name(), of_kind[0], n_senders, cap, seen.waiting_max, trunc
                ),
                detail(json!({"lost": of_kind.iter().take(24).map(|x| format!("{:#x}", x)).collect::<Vec<_>>()})),
            );
        }
        if let Some((x, n)) = delivered.iter().find(|(_, n)| **n > 1) {
            r.violation(
                "C09:fallible-send:item-delivered-twice:woken-senders-exceed-capacity",
                &format!("item {:#x} reached the processor {} times", x, n),
                detail(Json::Null),
            );
        }
        if let Some(x) = delivered.keys().find(|x| handed_back.contains(x)) {
            r.violation(
                "C09:delivered:item-that-was-handed-back",
                &format!("item {:#x} was handed back to its sender (Err) but reached the processor", x),
                detail(Json::Null),
            );
        }
        if let Some(x) = delivered.keys().find(|x| !accepted.contains_key(x) && !handed_back.contains(x)) {
            r.violation("C09:delivered:item-not-pending", &format!("item {:#x} reached the processor but no send of it returned", x), detail(Json::Null));
        }
        r.nontrivial(&("herd", cap, n_senders, mode, rk, seen.takes_waking_more_than_capacity.min(2), handed_back.len().min(2)));
        if r.wants_sample() && i < 2 {
            r.sample(|| json!({"case": case, "observed": numbers}));
        }
    }
}

// ---------------------------------------------------------------------------

fn main() {
    let args = Args::parse();
    let mut r = Report::new(
        "C09",
        &args,
        "model: one evaluation = one seeded op sequence (send / try_send / blocking_send / receiver polls / stalls) checked against the queue model after every op; \
         non-trivial = distinct (capacity, op sequence) in which at least one sender op met a full queue. stall / refill / flood: one evaluation per scripted scenario \
         (capacity x blocking variant x receiver kind). flushw: one evaluation = one seeded script (receiver not taking, flush / empty watchers attached, sends past the capacity); \
         non-trivial = distinct (capacity, receiver situation, kinds of flush watcher attached) in which a plain send met a full queue while a flush watcher was attached. conc: one evaluation = one multi-threaded run; non-trivial = distinct (capacity, senders, receiver kind, reached capacity?, overflow?, hand-backs?)",
    );
    let seed = args.seed;
    let only = args.get("section").map(|s| s.to_string());
    let want = |s: &str| only.as_deref().map(|o| o == s).unwrap_or(true);
    let caps = caps(&args);

    if let Some(path) = &args.replay {
        let case = load_replay(path);
        let section = case.get("section").and_then(|v| v.as_str()).unwrap_or("model").to_string();
        let cseed = case.get("seed").and_then(|v| v.as_u64()).unwrap_or(seed);
        let cap = case.get("capacity").and_then(|v| v.as_u64()).unwrap_or(2) as usize;
        let idx = case.get("case").and_then(|v| v.as_u64()).unwrap_or(0);
        match section.as_str() {
            "model" => {
                let n_ops = case.get("n_ops").and_then(|v| v.as_u64()).unwrap_or(60) as usize;
                for k in 0..3 {
                    model_case(&mut r, cseed, cap, idx + k, n_ops);
                }
            }
            "flushw" => {
                flushw_case(&mut r, cseed, cap, idx);
            }
            "stall" => {
                for kind in BlockKind::all() {
                    stall_hand(&mut r, cap, Duration::from_millis(3), kind);
                    #[cfg(not(miri))]
                    for rk in threads::RecvKind::all() {
                        threads::stall_thread(&mut r, cap, Duration::from_millis(3), kind, rk);
                    }
                }
            }
            #[cfg(not(miri))]
            "watchers" => {
                emit_batcher::verif::set_delay_divisor(1000);
                for reg in threads::Reg::ALL {
                    for rk in threads::RecvKind::all() {
                        threads::blocking_watcher_case(&mut r, reg, rk, cap);
                        for op in threads::Reentry::ALL {
                            threads::reentrant_watcher_case(&mut r, reg, op, rk, cap);
                        }
                    }
                }
            }
            #[cfg(not(miri))]
            "metrics" => {
                for k in 0..2 {
                    threads::metrics_cases(&mut r, cseed, idx + k, cap);
                }
            }
            #[cfg(not(miri))]
            "late" => {
                for kind in BlockKind::all() {
                    threads::late_case(&mut r, cap, kind);
                }
            }
            #[cfg(not(miri))]
            "extreme" => {
                emit_batcher::verif::set_delay_divisor(1000);
                let tmo = threads::Tmo::from_class(case.get("timeout").and_then(|v| v.as_str()).unwrap_or(""));
                for kind in BlockKind::all() {
                    for rk in threads::RecvKind::all() {
                        threads::extreme_case(&mut r, cap, kind, tmo, rk);
                    }
                }
            }
            #[cfg(not(miri))]
            "retained" => {
                let blocks = case.get("blocks").and_then(|v| v.as_u64()).unwrap_or(32) as usize;
                let item = case.get("item_bytes").and_then(|v| v.as_u64()).unwrap_or(1024) as usize;
                for rk in threads::RecvKind::all() {
                    threads::retained_case(&mut r, cap, rk, blocks, item, true);
                }
            }
            #[cfg(not(miri))]
            "spin" => {
                emit_batcher::verif::set_delay_divisor(1000);
                emit_batcher::verif::set_hook(Some(threads::pts::hook));
                let own = case.get("own_watchers").and_then(|v| v.as_u64()).unwrap_or(0) as usize;
                let tmo = if case.get("timeout").and_then(|v| v.as_str()) == Some("Duration::MAX") { threads::Tmo::Max } else { threads::Tmo::Hour };
                for kind in BlockKind::all() {
                    for rk in threads::RecvKind::all() {
                        threads::spin_case(&mut r, cap, kind, rk, tmo, own);
                    }
                }
                emit_batcher::verif::set_hook(None);
            }
            #[cfg(not(miri))]
            "refill" => {
                for k in 0..4 {
                    threads::refill_case(&mut r, cseed, idx + k, cap);
                }
            }
            #[cfg(not(miri))]
            "herd" => {
                emit_batcher::verif::set_delay_divisor(1000);
                for _ in 0..5 {
                    threads::herd_case(&mut r, cseed, idx);
                }
            }
            #[cfg(not(miri))]
            "conc" => {
                let ops_per = case.get("ops_per_sender").and_then(|v| v.as_u64()).unwrap_or(400);
                for k in 0..3 {
                    threads::conc_case(&mut r, cseed, idx + k, cap, ops_per);
                }
            }
            _ => {
                #[cfg(not(miri))]
                threads::flood_no_receiver(&mut r, cap);
            }
        }
        std::process::exit(r.finish());
    }

    // Every section runs on a helper thread with its own report and a generous limit: whatever
    // the code under test does (a lock that is never released, …) the monitor ends with a result.
    let sec_limit = Duration::from_secs(if args.thorough() { 1500 } else { 200 });

    // model
    if want("model") {
        let (args2, caps2) = (args.clone(), caps.clone());
        bounded_section(&mut r, "model", sec_limit, move |r| {
            // Miri interprets ~1000x slower: its lane passes an absolute case count instead of a scale
            let per_cap = if cfg!(miri) { args2.get_u64("miri-cases", 4) } else { args2.n(3_000, 12_000) };
            let n_ops = if cfg!(miri) { 24 } else { 80 };
            let total = per_cap * caps2.len() as u64;
            let caps = &caps2;
            par_cases(r, &args2, total, |i, r| {
                let cap = caps[(i % caps.len() as u64) as usize];
                model_case(r, seed, cap, i / caps.len() as u64, n_ops);
            });
            // leave room for samples of the other sections
            r.samples.truncate(3);
        });
    }

    // the bound with flush watchers attached to the pending batch (hand-polled)
    if want("flushw") {
        let (args2, caps2) = (args.clone(), caps.clone());
        bounded_section(&mut r, "flushw", sec_limit, move |r| {
            let per_cap = if cfg!(miri) { 3 } else { args2.n(120, 1_200) };
            let total = per_cap * caps2.len() as u64;
            let caps = &caps2;
            par_cases(r, &args2, total, |i, r| {
                let cap = caps[(i % caps.len() as u64) as usize];
                flushw_case(r, seed, cap, i / caps.len() as u64);
            });
        });
    }

    // stall (hand-polled)
    if want("stall") {
        let caps2 = caps.clone();
        bounded_section(&mut r, "stall-hand", sec_limit, move |r| {
            for &cap in &caps2 {
                for kind in BlockKind::all() {
                    let t = if cfg!(miri) { Duration::from_millis(1) } else { Duration::from_millis(3) };
                    stall_hand(r, cap, t, kind);
                }
            }
        });
    }

    #[cfg(not(miri))]
    {
        // worker threads sleep for real between polls: scale their delays
        emit_batcher::verif::set_delay_divisor(1000);
        // first of all: do caller-supplied watchers behave? (later sections rely on them)
        if want("watchers") {
            let args2 = args.clone();
            bounded_section(&mut r, "watchers", sec_limit, move |r| {
                let wcaps = [1usize, 2, 8];
                let mut cells: Vec<(threads::Reg, Option<threads::Reentry>, threads::RecvKind, usize)> = Vec::new();
                for reg in threads::Reg::ALL {
                    for rk in threads::RecvKind::all() {
                        for &cap in &wcaps {
                            cells.push((reg, None, rk, cap));
                        }
                        for (k, op) in threads::Reentry::ALL.into_iter().enumerate() {
                            cells.push((reg, Some(op), rk, wcaps[k % wcaps.len()]));
                        }
                    }
                }
                let _ = &args2;
                par_each(r, &cells, |cell, r| {
                    let (reg, op, rk, cap) = *cell;
                    match op {
                        None => threads::blocking_watcher_case(r, reg, rk, cap),
                        Some(op) => threads::reentrant_watcher_case(r, reg, op, rk, cap),
                    }
                });
            });
        }
        // the two sections that read the process-wide live heap run while nothing else does
        if want("retained") {
            let args2 = args.clone();
            bounded_section(&mut r, "retained", sec_limit, move |r| {
                let print = args2.get_u64("print-series", 0) != 0;
                let blocks = if args2.thorough() { 64 } else { 32 };
                for &cap in &[8usize, 64, 1000] {
                    for rk in threads::RecvKind::all() {
                        threads::retained_case(r, cap, rk, blocks, 1024, print);
                    }
                }
            });
        }
        if want("spin") {
            let args2 = args.clone();
            bounded_section(&mut r, "spin", sec_limit, move |r| {
                if threads::WATCHERS_BROKEN.load(std::sync::atomic::Ordering::SeqCst) {
                    r.inconclusive("spin: skipped, watchers that call back into the channel were seen to hang");
                    return;
                }
                emit_batcher::verif::set_hook(Some(threads::pts::hook));
                let scaps: Vec<usize> = if args2.thorough() { vec![1, 2, 8] } else { vec![1 + (seed as usize % 3)] };
                let mut n = seed as usize;
                for &cap in &scaps {
                    for kind in BlockKind::all() {
                        for rk in threads::RecvKind::all() {
                            for tmo in [threads::Tmo::Hour, threads::Tmo::Max] {
                                // (Tmo::Hour stands for the finite timeout of this section, 60 s)
                                threads::spin_case(r, cap, kind, rk, tmo, n % 3);
                                n += 1;
                            }
                        }
                    }
                }
                emit_batcher::verif::set_hook(None);
            });
        }
        // the `late` cases mostly sleep (T = 2 s each): run them next to the other sections
        let late_dones: Vec<Done<Report>> = if want("late") {
            let lcaps: Vec<usize> = if args.thorough() { vec![1, 2, 8] } else { vec![1 + (seed as usize % 3)] };
            let mut ds = Vec::new();
            for &cap in &lcaps {
                for kind in BlockKind::all() {
                    let mut child = r.child();
                    let d: Done<Report> = Done::new();
                    let d2 = d.clone();
                    let _ = std::thread::Builder::new().name("c09_late_case".into()).spawn(move || {
                        threads::late_case(&mut child, cap, kind);
                        d2.set(child);
                    });
                    ds.push(d);
                }
            }
            ds
        } else {
            Vec::new()
        };
        if want("metrics") {
            let (args2, caps2) = (args.clone(), caps.clone());
            bounded_section(&mut r, "metrics", sec_limit, move |r| {
                let n = args2.n(16, 160);
                let caps = &caps2;
                par_cases(r, &args2, n, |i, r| {
                    let cap = caps[(i % caps.len() as u64) as usize];
                    threads::metrics_cases(r, seed, i, cap);
                });
            });
        }
        if want("stall") {
            let (args2, caps2) = (args.clone(), caps.clone());
            bounded_section(&mut r, "stall-threads", sec_limit, move |r| {
                let mut cells = Vec::new();
                for &cap in &caps2 {
                    for kind in BlockKind::all() {
                        for rk in threads::RecvKind::all() {
                            cells.push((cap, kind, rk));
                        }
                    }
                }
                let cells = &cells;
                par_cases(r, &args2, cells.len() as u64, |i, r| {
                    let (cap, kind, rk) = cells[i as usize];
                    threads::stall_thread(r, cap, Duration::from_millis(5), kind, rk);
                });
            });
        }
        if want("extreme") {
            let args2 = args.clone();
            bounded_section(&mut r, "extreme", sec_limit, move |r| {
                let ecaps: Vec<usize> = if args2.thorough() { vec![1, 2, 3, 8, 64] } else { vec![1, 2, 8] };
                let mut cells = Vec::new();
                for &cap in &ecaps {
                    for kind in BlockKind::all() {
                        for tmo in threads::Tmo::ALL {
                            for rk in threads::RecvKind::all() {
                                cells.push((cap, kind, tmo, rk));
                            }
                        }
                    }
                }
                let cells = &cells;
                par_cases(r, &args2, cells.len() as u64, |i, r| {
                    let (cap, kind, tmo, rk) = cells[i as usize];
                    threads::extreme_case(r, cap, kind, tmo, rk);
                });
            });
        }
        if want("flood") {
            let caps2 = caps.clone();
            bounded_section(&mut r, "flood", sec_limit, move |r| {
                for &cap in &caps2 {
                    threads::flood_no_receiver(r, cap);
                }
            });
        }
        if want("refill") {
            let (args2, caps2) = (args.clone(), caps.clone());
            bounded_section(&mut r, "refill", sec_limit, move |r| {
                let n = args2.n(96, 1_600);
                let caps = &caps2;
                par_cases(r, &args2, n, |i, r| {
                    let cap = caps[(i % caps.len() as u64) as usize];
                    threads::refill_case(r, seed, i, cap);
                });
            });
        }
        if want("conc") {
            let (args2, caps2) = (args.clone(), caps.clone());
            bounded_section(&mut r, "conc", sec_limit, move |r| {
                let n = args2.n(80, 800);
                let ops_per = if args2.thorough() { 1_500 } else { 400 };
                for i in 0..n {
                    let cap = caps2[(i % caps2.len() as u64) as usize];
                    threads::conc_case(r, seed, i, cap, ops_per);
                }
            });
        }
        if want("herd") {
            let args2 = args.clone();
            bounded_section(&mut r, "herd", sec_limit, move |r| {
                // one case at a time: the woken senders of a case should really run at once
                let n = args2.n(20, 400);
                for i in 0..n {
                    threads::herd_case(r, seed, i);
                }
            });
        }
        for d in late_dones {
            match d.wait(Duration::from_secs(260)) {
                Some(child) => r.merge(child),
                None => r.inconclusive("a `late` case did not come back within the watchdog"),
            }
        }
        emit_batcher::verif::set_delay_divisor(1);
    }

    #[cfg(miri)]
    {
        // a tiny multi-threaded run: Miri's scheduler picks the interleaving and watches for data races
        emit_batcher::verif::set_delay_divisor(1000);
        if want("conc") {
            let n = args.get_u64("miri-conc", 1);
            let ops_per = args.get_u64("miri-conc-ops", 6);
            for i in 0..n {
                let cap = caps[((i + seed) % caps.len() as u64) as usize];
                threads::conc_case(&mut r, seed, i, cap, ops_per);
            }
        }
        emit_batcher::verif::set_delay_divisor(1);
    }

    std::process::exit(r.finish());
}
