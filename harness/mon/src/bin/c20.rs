/*!
C20 — a runtime slot is initialised at most once and is inert before that.

Workload: one *round* = a fresh `AmbientSlot` on the stack (scoped threads, no statics).
Before any initialiser exists the round thread emits, opens a span and flushes through the
empty slot. Then 2–16 initialisers race — each with five *tagged* components (the emitter
records its tag, the filter records its tag, the ctxt injects `who = tag`, the clock returns
`tag` seconds, the rng returns `tag` in every 8-byte word) and calling either
`emit::setup()…try_init_slot(&slot)` or the panicking `init_slot(&slot)` — while 0–8 observers
spin on `slot.is_enabled()` / `slot.get()`, probe all five components of what `get()` returned,
and emit / open spans / flush through it. Initialisers keep using the slot after their attempt.
After everything joined the round thread probes and emits once more. The last round of every
process is played on the process-wide static slot behind `emit::runtime::shared()` through
`Setup::try_init()` / `Setup::init()`.

Oracle (written from the statement):
* exactly one attempt succeeds; a losing `try_init_slot` returns `None` without panicking, a
  losing `init_slot` panics; the winner's `Init` handle exposes its own emitter / ctxt / runtime;
* one `get()` is either the inert runtime (all five probes empty) or all five components of the
  winner; `is_enabled()` followed by `get()` on the same thread never shows the inert runtime;
* once a thread saw the slot enabled it never sees it inert again, and (through a global SeqCst
  stamp counter, so the claim follows from happens-before, not from wall-clock time) neither does
  any step of any other thread that *started* after some thread had already seen it enabled;
* everything emitted / flushed through an inert `get()` is a no-op: nothing delivered, no panic,
  flush true;
* every event delivered anywhere was delivered to the winner's emitter and carries the winner's
  ctxt tag, clock tag and rng-derived ids; no component of a loser is ever called.

All monitor state is thread-local and handed back at join: the monitor adds no synchronisation
between the racing threads apart from the start gate (which precedes every initialisation)
and the stamp counter.

Unconstrained: *which* initialiser wins; whether a loser that was told `None` already sees the
slot enabled (the real once-cell guarantees it, the statement does not); how many of the events
emitted through the winner are delivered (that is C01) — except once, after the race, as a
liveness sanity check.
*/

use std::{
    cell::{Cell, RefCell},
    collections::{BTreeMap, BTreeSet},
    ops::ControlFlow,
    sync::atomic::{AtomicBool, AtomicUsize, Ordering},
    time::Duration,
};

use emit::{
    runtime::{AmbientRuntime, AmbientSlot},
    Clock, Ctxt, Emitter, Filter, Props, SpanId, Str, Timestamp, TraceId, Value,
};
use vcommon::*;

// ---------------------------------------------------------------------------
// thread-local log
// ---------------------------------------------------------------------------

#[derive(Clone, Debug)]
struct Delivered {
    tag: u64,
    id: Option<u64>,
    msg: String,
    who: Option<u64>,
    /// seconds of (start, end) of the extent
    secs: Option<(Option<u64>, u64)>,
    trace: Option<String>,
    span: Option<String>,
}

const EMITTER: u8 = 0;
const FILTER: u8 = 1;
const CTXT: u8 = 2;
const CLOCK: u8 = 3;
const RNG: u8 = 4;
const FLUSH: u8 = 5;
const COMPONENT: [&str; 6] = ["emitter", "filter", "ctxt", "clock", "rng", "emitter-flush"];

#[derive(Default)]
struct ThreadLog {
    delivered: Vec<Delivered>,
    uses: BTreeMap<(u8, u64), u64>,
    foreign_frames: u64,
}

thread_local! {
    static LOG: RefCell<ThreadLog> = RefCell::new(ThreadLog::default());
    static LAST_EMITTER: Cell<Option<u64>> = const { Cell::new(None) };
    static LAST_FILTER: Cell<Option<u64>> = const { Cell::new(None) };
    static LAST_FLUSH: Cell<Option<u64>> = const { Cell::new(None) };
    static NANOS: Cell<u32> = const { Cell::new(0) };
}

fn used(component: u8, tag: u64) {
    LOG.with(|l| *l.borrow_mut().uses.entry((component, tag)).or_insert(0) += 1);
}

fn take_log() -> ThreadLog {
    LOG.with(|l| std::mem::take(&mut *l.borrow_mut()))
}

// ---------------------------------------------------------------------------
// tagged components
// ---------------------------------------------------------------------------

struct TEmitter {
    tag: u64,
}

impl Emitter for TEmitter {
    fn emit<E: emit::event::ToEvent>(&self, evt: E) {
        let evt = evt.to_event();
        let props = evt.props();
        let d = Delivered {
            tag: self.tag,
            id: props.pull::<u64, _>("id"),
            msg: evt.msg().to_string(),
            who: props.pull::<u64, _>("who"),
            secs: evt.extent().map(|e| match e.as_range() {
                Some(r) => (Some(r.start.to_unix().as_secs()), r.end.to_unix().as_secs()),
                None => (None, e.as_point().to_unix().as_secs()),
            }),
            trace: props.get("trace_id").map(|v| v.to_string()),
            span: props.get("span_id").map(|v| v.to_string()),
        };
        used(EMITTER, self.tag);
        LAST_EMITTER.with(|c| c.set(Some(self.tag)));
        LOG.with(|l| l.borrow_mut().delivered.push(d));
    }

    fn blocking_flush(&self, _: Duration) -> bool {
        used(FLUSH, self.tag);
        LAST_FLUSH.with(|c| c.set(Some(self.tag)));
        true
    }
}

struct TFilter {
    tag: u64,
}

impl Filter for TFilter {
    fn matches<E: emit::event::ToEvent>(&self, _: E) -> bool {
        used(FILTER, self.tag);
        LAST_FILTER.with(|c| c.set(Some(self.tag)));
        true
    }
}

struct TCtxt {
    tag: u64,
}

/// What a frame of the tagged ctxt carries: the few properties the oracle looks at.
#[derive(Clone, Default)]
struct Carried {
    id: Option<u64>,
    trace: Option<TraceId>,
    span: Option<SpanId>,
}

struct TFrame {
    /// the tag of the ctxt that opened the frame
    tag: u64,
    carried: Carried,
}

thread_local! {
    static ENTERED: RefCell<Vec<Carried>> = const { RefCell::new(Vec::new()) };
}

struct Who {
    tag: u64,
    carried: Carried,
}

impl Props for Who {
    fn for_each<'kv, F: FnMut(Str<'kv>, Value<'kv>) -> ControlFlow<()>>(&'kv self, mut for_each: F) -> ControlFlow<()> {
        for_each(Str::new("who"), Value::from(self.tag))?;
        if let Some(id) = self.carried.id {
            for_each(Str::new("id"), Value::from(id))?;
        }
        if let Some(t) = &self.carried.trace {
            for_each(Str::new("trace_id"), Value::from_any(t))?;
        }
        if let Some(s) = &self.carried.span {
            for_each(Str::new("span_id"), Value::from_any(s))?;
        }
        ControlFlow::Continue(())
    }
}

impl TCtxt {
    fn audit(&self, frame: &TFrame) {
        used(CTXT, self.tag);
        if frame.tag != self.tag {
            LOG.with(|l| l.borrow_mut().foreign_frames += 1);
        }
    }
}

impl Ctxt for TCtxt {
    type Current = Who;
    type Frame = TFrame;

    // `open_push` is the trait's default: `open_root(props + current)`
    fn open_root<P: Props>(&self, props: P) -> TFrame {
        used(CTXT, self.tag);
        TFrame { tag: self.tag, carried: Carried { id: props.pull("id"), trace: props.pull("trace_id"), span: props.pull("span_id") } }
    }

    fn enter(&self, frame: &mut TFrame) {
        self.audit(frame);
        ENTERED.with(|e| e.borrow_mut().push(frame.carried.clone()));
    }

    fn with_current<R, F: FnOnce(&Who) -> R>(&self, with: F) -> R {
        used(CTXT, self.tag);
        let carried = ENTERED.with(|e| e.borrow().last().cloned()).unwrap_or_default();
        with(&Who { tag: self.tag, carried })
    }

    fn exit(&self, frame: &mut TFrame) {
        self.audit(frame);
        ENTERED.with(|e| e.borrow_mut().pop());
    }

    fn close(&self, frame: TFrame) {
        self.audit(&frame);
    }
}

struct TClock {
    tag: u64,
}

impl Clock for TClock {
    fn now(&self) -> Option<Timestamp> {
        used(CLOCK, self.tag);
        // strictly increasing within a thread so spans have start < end
        let n = NANOS.with(|c| {
            c.set((c.get() + 1) % 900_000_000);
            c.get()
        });
        Timestamp::from_unix(Duration::new(self.tag, n))
    }
}

struct TRng {
    tag: u64,
}

impl emit::Rng for TRng {
    fn fill<A: AsMut<[u8]>>(&self, mut arr: A) -> Option<A> {
        used(RNG, self.tag);
        let bytes = self.tag.to_le_bytes();
        for (i, b) in arr.as_mut().iter_mut().enumerate() {
            *b = bytes[i % 8];
        }
        Some(arr)
    }
}

fn trace_text(tag: u64) -> String {
    format!("{:032x}", (tag as u128) << 64 | tag as u128)
}

fn span_text(tag: u64) -> String {
    format!("{:016x}", tag)
}

// ---------------------------------------------------------------------------
// observations
// ---------------------------------------------------------------------------

/// Which configuration each of the five components of one `get()` belongs to
/// (emitter, filter, ctxt, clock, rng); `None` = the inert component.
type View = [Option<u64>; 5];

fn probe(rt: &AmbientRuntime) -> View {
    let who = rt.ctxt().with_current(|p| p.pull::<u64, _>("who"));
    let clock = rt.clock().now().map(|t| t.to_unix().as_secs());
    let rng = emit::Rng::gen_u64(rt.rng());
    let evt = emit::evt!("c20 probe");
    LAST_FILTER.with(|c| c.set(None));
    let _ = rt.filter().matches(&evt);
    let filter = LAST_FILTER.with(|c| c.get());
    LAST_EMITTER.with(|c| c.set(None));
    rt.emitter().emit(&evt);
    let emitter = LAST_EMITTER.with(|c| c.get());
    [emitter, filter, who, clock, rng]
}

fn is_inert(v: &View) -> bool {
    v.iter().all(|c| c.is_none())
}

#[derive(Clone, Debug)]
struct Step {
    s0: u64,
    s1: u64,
    enabled: bool,
    view: View,
}

#[derive(Clone, Debug)]
struct Emission {
    id: u64,
    kind: &'static str,
    through_inert: bool,
    flush: Option<bool>,
    panic: Option<String>,
}

/// One observation of the slot followed by one use of what was observed.
fn step(slot: &AmbientSlot, g: &mut Rng, next_id: &mut u64, steps: &mut Vec<Step>, emissions: &mut Vec<Emission>) -> bool {
    let s0 = stamp();
    let enabled = slot.is_enabled();
    let rt = slot.get();
    let view = probe(rt);
    let s1 = stamp();
    let inert = is_inert(&view);
    steps.push(Step { s0, s1, enabled, view });
    let id = *next_id;
    *next_id += 1;
    let kind = *g.pick(&["emit", "emit", "span", "flush"]);
    let res = catch(|| match kind {
        "emit" => {
            emit::emit!(rt, "c20 event {id}", id);
            None
        }
        "span" => {
            let (mut guard, frame) = emit::new_span!(rt, "c20 span {id}", id);
            frame.call(move || {
                guard.start();
            });
            None
        }
        _ => Some(rt.emitter().blocking_flush(Duration::from_millis(1))),
    });
    emissions.push(match res {
        Ok(flush) => Emission { id, kind, through_inert: inert, flush, panic: None },
        Err(m) => Emission { id, kind, through_inert: inert, flush: None, panic: Some(m) },
    });
    enabled || !inert
}

#[derive(Debug)]
enum Outcome {
    Won { own_handle: bool, handle_view: View },
    Lost,
    Panicked(String),
}

struct ActorOut {
    role: &'static str,
    idx: usize,
    tag: u64,
    used_init_slot: bool,
    attempt: Option<(u64, u64, Outcome)>,
    steps: Vec<Step>,
    emissions: Vec<Emission>,
    log: ThreadLog,
}

struct Sizes {
    max_init: u64,
    max_obs: u64,
    spin_cap: u64,
    post_steps: u64,
}

/// A spinning start gate: everyone who waits is released within nanoseconds of each other (a
/// `Barrier` wakes its waiters one futex at a time, which lets the first one win unopposed).
struct Gate {
    ready: AtomicUsize,
    go: AtomicBool,
}

impl Gate {
    fn wait(&self) {
        self.ready.fetch_add(1, Ordering::SeqCst);
        let mut n = 0u32;
        while !self.go.load(Ordering::Acquire) {
            n = n.wrapping_add(1);
            if cfg!(miri) || n % 256 == 0 {
                std::thread::yield_now();
            } else {
                std::hint::spin_loop();
            }
        }
    }

    fn open(&self, waiters: usize) {
        while self.ready.load(Ordering::SeqCst) < waiters {
            std::thread::yield_now();
        }
        self.go.store(true, Ordering::Release);
    }
}

fn tag_of(round: u64, i: usize) -> u64 {
    (round % 1_000_000 + 1) * 32 + i as u64
}

/// `on_static`: the round uses the process-wide `emit::runtime::shared_slot()` (once per process)
/// through `Setup::try_init()` / `Setup::init()` instead of a fresh slot on the stack.
fn run_round(r: &mut Report, seed: u64, round: u64, sz: &Sizes, on_static: bool) {
    let mut g = Rng::stream(seed, &[20, 1, round]);
    let n_init = g.range(2, sz.max_init.max(2)) as usize;
    let n_obs = g.range(0, sz.max_obs) as usize;
    let use_init_slot: Vec<bool> = (0..n_init).map(|_| g.chance(1, 4)).collect();
    let jitter: Vec<u64> = (0..n_init).map(|_| if g.chance(1, 2) { 0 } else { g.below(400) }).collect();
    let actor_seeds: Vec<u64> = (0..n_init + n_obs + 1).map(|_| g.next()).collect();
    let case = json!({"seed": seed, "round": round, "initialisers": n_init, "observers": n_obs,
                      "static_shared_slot": on_static, "max_init": sz.max_init, "max_obs": sz.max_obs, "spin_cap": sz.spin_cap, "post_steps": sz.post_steps,
                      "init_slot_callers": use_init_slot.iter().enumerate().filter(|(_, b)| **b).map(|(i, _)| i).collect::<Vec<_>>()});
    r.eval();
    r.observe(if on_static { "rounds-on-the-static-shared-slot" } else { "rounds" }, 1);

    let fresh = AmbientSlot::new();
    let slot: &AmbientSlot = if on_static { emit::runtime::shared_slot() } else { &fresh };
    let _ = take_log();

    // ---- phase 0: the slot is empty ----
    let mut pre = ActorOut { role: "round-thread", idx: 0, tag: 0, used_init_slot: false, attempt: None, steps: Vec::new(), emissions: Vec::new(), log: ThreadLog::default() };
    let mut pre_g = Rng::new(actor_seeds[n_init + n_obs]);
    let mut next_id = 200u64 << 40;
    for _ in 0..4 {
        step(slot, &mut pre_g, &mut next_id, &mut pre.steps, &mut pre.emissions);
    }
    let pre_steps = pre.steps.len();
    let pre_log = take_log();
    r.observe("pre-init:steps", pre_steps as u64);
    if !pre_log.delivered.is_empty() || !pre_log.uses.is_empty() {
        r.violation(
            "C20:before-init:something-delivered",
            &format!("{} event(s) delivered / {} component call(s) before any initialiser existed", pre_log.delivered.len(), pre_log.uses.len()),
            case.clone(),
        );
    }
    for s in &pre.steps {
        if s.enabled || !is_inert(&s.view) {
            r.violation("C20:before-init:not-inert", &format!("before any initialiser ran the slot showed enabled={} view={:?}", s.enabled, s.view), case.clone());
        }
    }

    // ---- phase 1: the race ----
    let gate = Gate { ready: AtomicUsize::new(0), go: AtomicBool::new(false) };
    let outs: Vec<ActorOut> = std::thread::scope(|s| {
        let mut handles = Vec::new();
        for o in 0..n_obs {
            let gate = &gate;
            let aseed = actor_seeds[n_init + o];
            let (spin_cap, post_steps) = (sz.spin_cap, sz.post_steps);
            handles.push(s.spawn(move || {
                let mut g = Rng::new(aseed);
                let mut out = ActorOut { role: "observer", idx: o, tag: 0, used_init_slot: false, attempt: None, steps: Vec::new(), emissions: Vec::new(), log: ThreadLog::default() };
                let mut next_id = ((100 + o as u64) << 40) + 1;
                let mut post = 0;
                let mut n = 0;
                // released together with the initialisers so the spinning overlaps the race
                gate.wait();
                // logical bounds only: no verdict depends on how far the observer got
                while post < post_steps && n < spin_cap {
                    if step(slot, &mut g, &mut next_id, &mut out.steps, &mut out.emissions) {
                        post += 1;
                    }
                    n += 1;
                }
                out.log = take_log();
                out
            }));
        }
        for i in 0..n_init {
            let gate = &gate;
            let aseed = actor_seeds[i];
            let tag = tag_of(round, i);
            let by_init_slot = use_init_slot[i];
            let spins = jitter[i];
            let post_steps = sz.post_steps;
            handles.push(s.spawn(move || {
                let mut g = Rng::new(aseed);
                let mut out = ActorOut { role: "initialiser", idx: i, tag, used_init_slot: by_init_slot, attempt: None, steps: Vec::new(), emissions: Vec::new(), log: ThreadLog::default() };
                let mut next_id = ((1 + i as u64) << 40) + 1;
                let setup = emit::setup()
                    .emit_to(TEmitter { tag })
                    .emit_when(TFilter { tag })
                    .with_ctxt(TCtxt { tag })
                    .with_clock(TClock { tag })
                    .with_rng(TRng { tag });
                gate.wait();
                for _ in 0..spins {
                    std::hint::spin_loop();
                }
                let s0 = stamp();
                let res = catch(|| match (on_static, by_init_slot) {
                    (false, true) => Some(setup.init_slot(slot)),
                    (false, false) => setup.try_init_slot(slot),
                    (true, true) => Some(setup.init()),
                    (true, false) => setup.try_init(),
                });
                let s1 = stamp();
                let outcome = match res {
                    Ok(Some(init)) => {
                        let own_handle = init.emitter().tag == tag && init.ctxt().tag == tag;
                        let handle_view = probe(init.get());
                        let _ = init.blocking_flush(Duration::from_millis(1));
                        Outcome::Won { own_handle, handle_view }
                    }
                    Ok(None) => Outcome::Lost,
                    Err(m) => Outcome::Panicked(m),
                };
                out.attempt = Some((s0, s1, outcome));
                for _ in 0..post_steps {
                    step(slot, &mut g, &mut next_id, &mut out.steps, &mut out.emissions);
                }
                out.log = take_log();
                out
            }));
        }
        gate.open(n_init + n_obs);
        handles.into_iter().map(|h| h.join().expect("actor threads catch their own panics")).collect()
    });

    // ---- phase 2: after the race, on the round thread ----
    let mut post = ActorOut { role: "round-thread", idx: 1, tag: 0, used_init_slot: false, attempt: None, steps: Vec::new(), emissions: Vec::new(), log: ThreadLog::default() };
    let mut next_id = (200u64 << 40) + 1000;
    for _ in 0..3 {
        step(slot, &mut pre_g, &mut next_id, &mut post.steps, &mut post.emissions);
    }
    post.log = take_log();
    let post_ids: BTreeSet<u64> = post.emissions.iter().filter(|e| e.kind != "flush").map(|e| e.id).collect();

    let mut all = outs;
    all.push(pre);
    all.push(post);

    // ---- the oracle ----
    let inits: Vec<&ActorOut> = all.iter().filter(|a| a.role == "initialiser").collect();
    let winners: Vec<&&ActorOut> = inits.iter().filter(|a| matches!(a.attempt, Some((_, _, Outcome::Won { .. })))).collect();
    if winners.len() != 1 {
        r.violation(
            if winners.is_empty() { "C20:winners:none" } else { "C20:winners:more-than-one" },
            &format!("{} of {} racing initialisers were told they succeeded: {:?}", winners.len(), n_init, winners.iter().map(|w| w.idx).collect::<Vec<_>>()),
            case.clone(),
        );
    }
    // the configuration everyone must agree on: the (first) attempt that was told it won
    let w = winners.first().map(|a| a.tag);
    if let Some(a) = winners.first() {
        r.observe(&format!("winner-index:{:02}", a.idx), 1);
        r.observe(if a.used_init_slot { "winner-via:init_slot" } else { "winner-via:try_init_slot" }, 1);
    }
    for a in &inits {
        match &a.attempt {
            Some((_, _, Outcome::Won { own_handle, handle_view })) => {
                if !own_handle || handle_view.iter().any(|c| *c != Some(a.tag)) {
                    r.violation(
                        "C20:winner-handle-not-its-own-components",
                        &format!("initialiser {} (tag {}) was told it won but its Init handle shows own emitter/ctxt = {} and runtime view {:?}", a.idx, a.tag, own_handle, handle_view),
                        case.clone(),
                    );
                }
            }
            Some((_, _, Outcome::Lost)) => {
                r.observe("losers:try_init_slot-none", 1);
                if a.used_init_slot {
                    r.violation("C20:init_slot:returned-none", "init_slot cannot return None", case.clone());
                }
            }
            Some((_, _, Outcome::Panicked(m))) => {
                if a.used_init_slot {
                    r.observe("losers:init_slot-panicked", 1);
                } else {
                    r.violation("C20:try_init_slot:panicked", &format!("try_init_slot of initialiser {} panicked: {}", a.idx, m), case.clone());
                }
            }
            None => {}
        }
    }

    // first stamp at which any thread had finished observing the slot enabled
    let mut first_seen = u64::MAX;
    for a in &all {
        for s in &a.steps {
            if s.enabled || !is_inert(&s.view) {
                first_seen = first_seen.min(s.s1);
            }
        }
        if let Some((_, s1, Outcome::Won { .. })) = &a.attempt {
            first_seen = first_seen.min(*s1);
        }
    }

    let mut inert_ids: BTreeSet<u64> = BTreeSet::new();
    let mut saw_both = 0;
    for a in &all {
        let mut seen = false;
        let mut before = 0u64;
        let mut after = 0u64;
        for s in &a.steps {
            let inert = is_inert(&s.view);
            let who = format!("{} {}", a.role, a.idx);
            if !inert {
                if s.view.iter().any(|c| c.is_none()) {
                    r.violation(
                        "C20:view:inert-and-live-components-mixed",
                        &format!("{}: one get() returned components (emitter, filter, ctxt, clock, rng) = {:?}", who, s.view),
                        case.clone(),
                    );
                } else if s.view.iter().any(|c| *c != s.view[0]) {
                    r.violation(
                        "C20:view:components-of-different-configurations",
                        &format!("{}: one get() returned components of several configurations: {:?}", who, s.view),
                        case.clone(),
                    );
                } else if w.is_some() && s.view[0] != w {
                    r.violation(
                        "C20:view:not-the-winner",
                        &format!("{}: get() shows configuration {:?} but the attempt that succeeded was {:?}", who, s.view[0], w),
                        case.clone(),
                    );
                }
            }
            if s.enabled && inert {
                r.violation(
                    "C20:enabled-but-get-is-inert",
                    &format!("{}: is_enabled() returned true and the following get() on the same thread returned the inert runtime", who),
                    case.clone(),
                );
            }
            if seen && (inert || !s.enabled) {
                r.violation(
                    "C20:regressed:same-thread",
                    &format!("{}: after having seen the slot enabled, a later step saw enabled={} view={:?}", who, s.enabled, s.view),
                    case.clone(),
                );
            } else if s.s0 > first_seen && (inert || !s.enabled) {
                r.violation(
                    "C20:regressed:other-thread",
                    &format!("{}: a step that started at stamp {} (after stamp {} at which some thread had seen the slot enabled) saw enabled={} view={:?}", who, s.s0, first_seen, s.enabled, s.view),
                    case.clone(),
                );
            }
            if s.enabled || !inert {
                seen = true;
                after += 1;
            } else {
                before += 1;
            }
        }
        if a.role != "round-thread" {
            r.observe("steps:saw-inert-slot", before);
            r.observe("steps:saw-initialised-slot", after);
            if before > 0 && after > 0 {
                saw_both += 1;
            }
        } else {
            r.observe("round-thread:steps", a.steps.len() as u64);
        }
        for e in &a.emissions {
            if let Some(m) = &e.panic {
                r.violation(
                    &format!("C20:panic:{}:{}", e.kind, if e.through_inert { "through-inert-runtime" } else { "through-initialised-runtime" }),
                    &format!("{} {}: {} through the slot panicked: {}", a.role, a.idx, e.kind, m),
                    case.clone(),
                );
            }
            if e.through_inert {
                inert_ids.insert(e.id);
                r.observe(&format!("through-inert-runtime:{}", e.kind), 1);
                if e.flush == Some(false) {
                    r.violation("C20:flush-false-through-inert-runtime", &format!("{} {}: flushing the uninitialised slot returned false", a.role, a.idx), case.clone());
                }
            } else {
                r.observe(&format!("through-initialised-runtime:{}", e.kind), 1);
            }
        }
    }
    r.observe("threads-that-saw-inert-then-initialised", saw_both);

    let mut delivered_ids: BTreeSet<u64> = BTreeSet::new();
    for a in &all {
        if a.log.foreign_frames > 0 {
            r.violation(
                "C20:ctxt-frame-of-another-configuration",
                &format!("{} {}: {} frame operation(s) reached a ctxt with a frame opened by a different configuration's ctxt", a.role, a.idx, a.log.foreign_frames),
                case.clone(),
            );
        }
        for ((component, tag), n) in &a.log.uses {
            r.observe(&format!("component-calls:{}", COMPONENT[*component as usize]), *n);
            if Some(*tag) != w {
                r.violation(
                    &format!("C20:loser-component-called:{}", COMPONENT[*component as usize]),
                    &format!("{} {}: the {} of configuration {} (initialiser {}) was called {} time(s) but the winner is {:?}", a.role, a.idx, COMPONENT[*component as usize], tag, tag % 32, n, w),
                    case.clone(),
                );
            }
        }
        for d in &a.log.delivered {
            r.observe("events-delivered", 1);
            if let Some(id) = d.id {
                delivered_ids.insert(id);
            }
            if Some(d.tag) != w {
                r.violation(
                    "C20:event-delivered-to-loser",
                    &format!("{} {}: event {:?} was delivered to the emitter of configuration {} but the winner is {:?}", a.role, a.idx, d.msg, d.tag, w),
                    case.clone(),
                );
            }
            if d.msg == "c20 probe" {
                continue; // handed to the emitter directly: no ctxt / clock involved
            }
            let t = d.tag;
            if d.who != Some(t) {
                r.violation("C20:event:ctxt-of-other-configuration", &format!("event {:?} delivered to emitter {} carries who={:?}", d.msg, t, d.who), case.clone());
            }
            match d.secs {
                Some((start, end)) if end == t && start.map(|s| s == t).unwrap_or(true) => {}
                other => r.violation("C20:event:clock-of-other-configuration", &format!("event {:?} delivered to emitter {} has extent seconds {:?}", d.msg, t, other), case.clone()),
            }
            if d.msg.starts_with("c20 span") {
                r.observe("span-events-delivered", 1);
                if d.trace.as_deref() != Some(&trace_text(t)) || d.span.as_deref() != Some(&span_text(t)) {
                    r.violation(
                        "C20:event:rng-of-other-configuration",
                        &format!("span event {:?} delivered to emitter {} has trace_id={:?} span_id={:?}", d.msg, t, d.trace, d.span),
                        case.clone(),
                    );
                }
            }
        }
    }
    let leaked: Vec<&u64> = inert_ids.intersection(&delivered_ids).collect();
    if !leaked.is_empty() {
        r.violation(
            "C20:delivered-through-inert-runtime",
            &format!("{} event(s) emitted through a get() whose five components were all inert were delivered nevertheless", leaked.len()),
            case.clone(),
        );
    }
    if w.is_some() && winners.len() == 1 {
        let missing = post_ids.difference(&delivered_ids).count();
        if missing > 0 {
            r.violation(
                "C20:after-race:event-not-delivered",
                &format!("{} of {} events emitted by the round thread after every initialiser returned were not delivered to anyone", missing, post_ids.len()),
                case.clone(),
            );
        }
    }

    // evidence: was this round a real race?
    let attempts: Vec<(u64, u64)> = inits.iter().filter_map(|a| a.attempt.as_ref().map(|(s0, s1, _)| (*s0, *s1))).collect();
    let mut overlapping = 0;
    for (i, a) in attempts.iter().enumerate() {
        if attempts.iter().enumerate().any(|(j, b)| i != j && a.0 < b.1 && b.0 < a.1) {
            overlapping += 1;
        }
    }
    r.observe("attempts", attempts.len() as u64);
    r.observe("attempts-overlapping-another", overlapping);
    if overlapping >= 2 {
        let widx = winners.first().map(|a| a.idx);
        r.nontrivial(&(n_init, n_obs, widx, saw_both, use_init_slot.iter().filter(|b| **b).count()));
        if r.wants_sample() {
            r.sample(|| json!({"seed": seed, "round": round, "initialisers": n_init, "observers": n_obs, "winner": widx,
                               "attempts_overlapping": overlapping, "threads_that_saw_both_phases": saw_both}));
        }
    }
}

// ---------------------------------------------------------------------------
// the SHARED slot through the root crate's convenience accessors: one process = one race
// ---------------------------------------------------------------------------
//
// `emit::emitter()`, `emit::filter()`, `emit::ctxt()`, `emit::clock()`, `emit::rng()` and
// `emit::blocking_flush(..)` read the process-wide shared slot. It can be initialised once per
// process, so the monitor re-executes itself (`--child-shared-race <k>`) once per race. A child:
// N poller threads spin on the accessors from a common start gate (each call probes the ONE component
// it returned and is classified by three flags read around it: had any initialisation started when
// it finished, had a successful `init()` returned when it started, had any thread already seen a
// live component when it started); the main thread uses the empty slot first (accessors, macros,
// flush), opens the gate and initialises through `emit::setup()..init()` / `try_init()` after a seeded
// delay, in half of the children against a rival initialiser thread; afterwards the pollers, the main
// thread and a freshly spawned thread sweep all six accessors again and the main thread emits through
// the macros. The child prints one `@@CHILD {json}` line; the parent merges and judges.
//
// Rules (the statement, applied to the accessors):
// * a call that FINISHED before any initialisation started is inert: no clock reading, no rng output,
//   no ambient property, the event handed to the emitter is dropped, the filter is nobody's, flush is
//   true and reaches nobody's emitter;
// * a call that STARTED after a successful `init()` had returned shows the winner's component - on
//   every thread, including the pollers that polled during the initialisation
//   (`stale-empty-after-init:<accessor>:<role>`);
// * per thread monotonic: once a thread has seen a live component through ANY accessor it never sees an
//   inert one again; and across threads: nor does any call that started after some thread had finished
//   seeing one;
// * every live component ever returned belongs to the one attempt that was told it succeeded; no
//   component of a loser is ever called; nothing panics.
//
// How many children really raced is measured, not assumed: a call OVERLAPPED the initialisation window
// iff no successful init had returned when it started and an attempt had started when it finished.

const ACCESSOR: [&str; 6] = ["emitter", "filter", "ctxt", "clock", "rng", "blocking_flush"];

static SH_STARTED: AtomicUsize = AtomicUsize::new(0);
static SH_WON: AtomicBool = AtomicBool::new(false);
static SH_SEEN: AtomicBool = AtomicBool::new(false);

/// One call of accessor `k`: the configuration whose component answered (`None` = inert) and, for
/// the flush, its result.
fn accessor_call(k: usize) -> (Option<u64>, Option<bool>) {
    match k {
        0 => {
            let evt = emit::evt!("c20 probe");
            LAST_EMITTER.with(|c| c.set(None));
            emit::emitter().emit(&evt);
            (LAST_EMITTER.with(|c| c.get()), None)
        }
        1 => {
            let evt = emit::evt!("c20 probe");
            LAST_FILTER.with(|c| c.set(None));
            let _ = emit::filter().matches(&evt);
            (LAST_FILTER.with(|c| c.get()), None)
        }
        2 => (emit::ctxt().with_current(|p| p.pull::<u64, _>("who")), None),
        3 => (emit::clock().now().map(|t| t.to_unix().as_secs()), None),
        4 => (emit::Rng::gen_u64(&emit::rng()), None),
        _ => {
            LAST_FLUSH.with(|c| c.set(None));
            let ok = emit::blocking_flush(Duration::from_millis(1));
            (LAST_FLUSH.with(|c| c.get()), Some(ok))
        }
    }
}

#[derive(Default, Clone)]
struct AccStat {
    calls: u64,
    inert: u64,
    live: u64,
    before: u64,
    after: u64,
    overlap: u64,
    overlap_inert: u64,
    overlap_live: u64,
}

struct ShThread {
    role: &'static str,
    idx: usize,
    stats: [AccStat; 6],
    tags: BTreeSet<(usize, u64)>,
    viol: Vec<(String, String)>,
    seen_live: bool,
    saw_inert: bool,
    current: usize,
    log: ThreadLog,
}

impl ShThread {
    fn new(role: &'static str, idx: usize) -> ShThread {
        ShThread { role, idx, stats: Default::default(), tags: BTreeSet::new(), viol: Vec::new(), seen_live: false, saw_inert: false, current: 0, log: ThreadLog::default() }
    }

    fn bad(&mut self, sig: String, what: String) {
        if self.viol.len() < 12 && !self.viol.iter().any(|(s, _)| *s == sig) {
            self.viol.push((sig, what));
        }
    }

    /// One accessor call, classified and judged against the thread's own history.
    fn call(&mut self, k: usize) {
        self.current = k;
        let seen0 = SH_SEEN.load(Ordering::SeqCst);
        let won0 = SH_WON.load(Ordering::SeqCst);
        let (view, flush) = accessor_call(k);
        let started1 = SH_STARTED.load(Ordering::SeqCst);
        let (acc, role, idx) = (ACCESSOR[k], self.role, self.idx);
        let st = &mut self.stats[k];
        st.calls += 1;
        match view {
            Some(tag) => {
                st.live += 1;
                self.tags.insert((k, tag));
                if !seen0 {
                    SH_SEEN.store(true, Ordering::SeqCst);
                }
            }
            None => st.inert += 1,
        }
        if started1 == 0 {
            st.before += 1;
            if let Some(tag) = view {
                self.bad(format!("C20:shared-accessor:not-inert-before-init:{}", acc), format!("{} {}: emit::{}() answered with the component of configuration {} before any initialisation had started", role, idx, acc, tag));
            }
            if flush == Some(false) {
                self.bad("C20:shared-accessor:flush-false-before-init".into(), format!("{} {}: emit::blocking_flush on the uninitialised shared slot returned false", role, idx));
            }
        } else if won0 {
            self.stats[k].after += 1;
            if view.is_none() {
                self.bad(
                    format!("C20:shared-accessor:stale-empty-after-init:{}:{}", acc, role),
                    format!("{} {}: a call of emit::{}() that started after the successful init() had returned still answered with the inert component (this thread had {}seen a live component before)", role, idx, acc, if self.seen_live { "" } else { "not " }),
                );
            }
        } else {
            let st = &mut self.stats[k];
            st.overlap += 1;
            if view.is_some() {
                st.overlap_live += 1;
            } else {
                st.overlap_inert += 1;
            }
        }
        if view.is_none() && !won0 {
            if self.seen_live {
                self.bad(
                    format!("C20:shared-accessor:regressed:same-thread:{}:{}", acc, role),
                    format!("{} {}: after this thread had seen a live component through an accessor, emit::{}() answered with the inert one", role, idx, acc),
                );
            } else if seen0 {
                self.bad(
                    format!("C20:shared-accessor:regressed:other-thread:{}:{}", acc, role),
                    format!("{} {}: a call of emit::{}() that started after another thread had finished seeing a live component answered with the inert one", role, idx, acc),
                );
            }
        }
        if view.is_some() {
            self.seen_live = true;
        } else {
            self.saw_inert = true;
        }
    }

    fn sweep(&mut self, times: usize) {
        for _ in 0..times {
            for k in 0..6 {
                self.call(k);
            }
        }
    }
}

/// Run `f` over the thread's record, turning a panic into a violation that names the accessor.
fn sh_guarded(mut t: ShThread, f: impl FnOnce(&mut ShThread)) -> ShThread {
    if let Err(m) = catch(|| f(&mut t)) {
        let (acc, role) = (ACCESSOR[t.current], t.role);
        t.viol.push((format!("C20:shared-accessor:panic:{}:{}", acc, role), format!("{} {}: emit::{}() (or using what it returned) panicked: {}", role, t.idx, acc, m)));
    }
    t.log = take_log();
    t
}

fn shared_race_child(seed: u64, k: u64) {
    install_quiet_panic_hook();
    let mut g = Rng::stream(seed, &[20, 7, k]);
    let n_pollers = g.range(2, 7) as usize;
    let rival = g.bool();
    let via_try = [g.bool(), g.bool()];
    let delays: [u64; 2] = [*g.pick(&[200u64, 2_000, 20_000, 200_000, 2_000_000]), *g.pick(&[200u64, 2_000, 20_000, 200_000, 2_000_000])];
    let focus: Vec<Option<usize>> = (0..n_pollers).map(|_| if g.chance(1, 2) { Some(g.usize(6)) } else { None }).collect();
    // in a third of the children the main thread initialises from the `setup:` fn of a span on the implicit
    // (shared) runtime: `#[emit::span(setup: init, "main")] fn main_like()`, sync or async, plain or result-aware
    let setup_span: Option<u64> = if g.chance(1, 3) { Some(g.below(4)) } else { None };
    let t0 = std::time::Instant::now();

    // a process that cannot finish is reported as such (never as a verdict)
    std::thread::spawn(move || {
        std::thread::sleep(Duration::from_secs(40));
        println!("@@CHILD {}", json!({"k": k, "gave_up": true}));
        std::process::exit(3);
    });

    let _ = take_log();
    // ---- the empty shared slot, before anything else exists ----
    let mut pre = sh_guarded(ShThread::new("main-before", 0), |t| {
        t.sweep(2);
        t.current = 0;
        let id = 7u64;
        emit::emit!("c20 shared pre {id}", id);
        let (mut guard, frame) = emit::new_span!("c20 shared pre span {id}", id);
        frame.call(move || guard.start());
    });
    if !pre.log.delivered.is_empty() || !pre.log.uses.is_empty() {
        pre.viol.push(("C20:shared-accessor:before-init:something-delivered".into(), format!("{} event(s) delivered / {} component call(s) through the shared slot before any initialiser existed", pre.log.delivered.len(), pre.log.uses.len())));
    }

    let gate = Gate { ready: AtomicUsize::new(0), go: AtomicBool::new(false) };
    let tags = [tag_of(k, 0), tag_of(k, 1)];
    let attempt = |i: usize| -> Result<bool, String> {
        let tag = tags[i];
        let setup = emit::setup().emit_to(TEmitter { tag }).emit_when(TFilter { tag }).with_ctxt(TCtxt { tag }).with_clock(TClock { tag }).with_rng(TRng { tag });
        for _ in 0..delays[i] {
            std::hint::spin_loop();
        }
        SH_STARTED.fetch_add(1, Ordering::SeqCst);
        let res = catch(|| {
            if via_try[i] {
                setup.try_init().is_some()
            } else {
                let _ = setup.init();
                true
            }
        });
        if let Ok(true) = res {
            SH_WON.store(true, Ordering::SeqCst);
        }
        res
    };

    let mut span_panic: Option<String> = None;
    let span_panic_ref = &mut span_panic;
    let (mut threads, outcomes): (Vec<ShThread>, Vec<Result<bool, String>>) = std::thread::scope(|s| {
        let span_panic = span_panic_ref;
        let mut handles = Vec::new();
        for (p, focus) in focus.iter().enumerate() {
            let gate = &gate;
            let focus = *focus;
            handles.push(s.spawn(move || {
                sh_guarded(ShThread::new("poller", p), |t| {
                    gate.wait();
                    let mut n = 0u64;
                    // spin until a successful init() has returned (logical cap: no verdict depends on it)
                    while !SH_WON.load(Ordering::SeqCst) && n < 400_000_000 {
                        t.call(focus.unwrap_or((n % 6) as usize));
                        n += 1;
                    }
                    t.sweep(3);
                })
            }));
        }
        let rival_h = if rival {
            let gate = &gate;
            let attempt = &attempt;
            Some(s.spawn(move || {
                gate.wait();
                let r = attempt(1);
                (r, sh_guarded(ShThread::new("rival", 0), |t| t.sweep(2)))
            }))
        } else {
            None
        };
        gate.open(n_pollers + rival as usize);
        let mine = match setup_span {
            None => attempt(0),
            Some(form) => {
                let out = RefCell::new(None);
                let init = || {
                    *out.borrow_mut() = Some(attempt(0));
                };
                let id = 11u64;
                if let Err(m) = catch(|| match form {
                    0 => sh_main_like(&init, id),
                    1 => sp_block_on(sh_main_like_async(&init, id)),
                    2 => {
                        let _ = sh_main_like_result(&init, id, k % 2 == 0);
                    }
                    _ => {
                        let _ = sp_block_on(sh_main_like_result_async(&init, id, k % 2 == 0));
                    }
                }) {
                    *span_panic = Some(m);
                }
                out.into_inner().unwrap_or_else(|| Err("the setup fn of the span was never invoked".into()))
            }
        };
        let mut outcomes = vec![mine];
        let mut threads: Vec<ShThread> = Vec::new();
        if let Some(h) = rival_h {
            let (r, t) = h.join().expect("rival thread catches its own panics");
            outcomes.push(r);
            threads.push(t);
        }
        // if nobody won (only possible when something is badly wrong) release the pollers anyway
        let nobody = !outcomes.iter().any(|o| matches!(o, Ok(true)));
        if nobody {
            SH_WON.store(true, Ordering::SeqCst);
        }
        threads.push(sh_guarded(ShThread::new("main", 0), |t| {
            t.sweep(3);
            t.current = 0;
            let id = 9u64;
            emit::emit!("c20 shared event {id}", id);
        }));
        threads.push(
            s.spawn(|| sh_guarded(ShThread::new("fresh-thread", 0), |t| t.sweep(3))).join().expect("fresh thread catches its own panics"),
        );
        for h in handles {
            threads.push(h.join().expect("poller threads catch their own panics"));
        }
        (threads, outcomes)
    });
    threads.insert(0, pre);

    // ---- judge ----
    let mut viol: Vec<(String, String)> = Vec::new();
    let winners: Vec<usize> = outcomes.iter().enumerate().filter(|(_, o)| matches!(o, Ok(true))).map(|(i, _)| i).collect();
    if winners.len() != 1 {
        viol.push((if winners.is_empty() { "C20:shared-accessor:winners:none".into() } else { "C20:shared-accessor:winners:more-than-one".into() }, format!("{} of {} initialisations of the shared slot were told they succeeded: {:?}", winners.len(), outcomes.len(), outcomes)));
    }
    for (i, o) in outcomes.iter().enumerate() {
        if let Err(m) = o {
            // the panicking form may only panic when it lost
            if via_try[i] || winners.is_empty() || winners == [i] {
                viol.push((format!("C20:shared-accessor:{}:panicked", if via_try[i] { "try_init" } else { "init" }), format!("initialiser {} panicked: {}", i, m)));
            }
        }
    }
    let w = winners.first().map(|i| tags[*i]);
    let mut both = 0u64;
    let mut delivered_after = 0u64;
    let mut setup_span_seen = [0u64; 2];
    if let Some(m) = &span_panic {
        viol.push(("C20:shared-accessor:setup-param:panicked".into(), format!("the span fn whose setup fn initialises the shared slot panicked: {}", m)));
    }
    for t in &mut threads {
        for (acc, tag) in t.tags.clone() {
            if Some(tag) != w {
                t.bad(format!("C20:shared-accessor:not-the-winner:{}:{}", ACCESSOR[acc], t.role), format!("{} {}: emit::{}() answered with the component of configuration {} but the attempt that succeeded was {:?}", t.role, t.idx, ACCESSOR[acc], tag, w));
            }
        }
        for ((component, tag), n) in &t.log.uses {
            if Some(*tag) != w {
                let sig = format!("C20:shared-accessor:loser-component-called:{}", COMPONENT[*component as usize]);
                let what = format!("{} {}: the {} of configuration {} was called {} time(s) but the winner is {:?}", t.role, t.idx, COMPONENT[*component as usize], tag, n, w);
                t.viol.push((sig, what));
            }
        }
        for d in &t.log.delivered {
            if Some(d.tag) != w {
                t.viol.push(("C20:shared-accessor:event-delivered-to-loser".into(), format!("{} {}: event {:?} was delivered to the emitter of configuration {} but the winner is {:?}", t.role, t.idx, d.msg, d.tag, w)));
            }
            if d.msg.starts_with("c20 shared event") {
                delivered_after += 1;
                let ok_secs = matches!(d.secs, Some((None, end)) if Some(end) == w);
                if d.who != w || !ok_secs {
                    t.viol.push(("C20:shared-accessor:macro-event:components-of-other-configuration".into(), format!("the event emitted through the macros after init carries who={:?} extent={:?}, winner {:?}", d.who, d.secs, w)));
                }
            }
            if d.msg.starts_with("c20 shared setup") {
                // emitted by / inside the span fn whose setup fn ran the main thread's initialisation
                let is_span = d.msg.starts_with("c20 shared setup main");
                setup_span_seen[if is_span { 0 } else { 1 }] += 1;
                let ok_secs = if is_span { matches!(d.secs, Some((Some(a), b)) if Some(a) == w && Some(b) == w) } else { matches!(d.secs, Some((None, b)) if Some(b) == w) };
                let ok_ids = w.map(|w| d.trace.as_deref() == Some(trace_text(w).as_str()) && d.span.as_deref() == Some(span_text(w).as_str())).unwrap_or(false);
                if d.who != w || !ok_secs || !ok_ids {
                    t.viol.push(("C20:shared-accessor:setup-param:components-of-other-configuration".into(), format!("`{}` (span fn whose setup fn initialises the shared slot) carries who={:?} extent={:?} trace={:?} span={:?}, winner {:?}", d.msg, d.who, d.secs, d.trace, d.span, w)));
                }
            }
            if d.msg.starts_with("c20 shared pre") {
                t.viol.push(("C20:shared-accessor:before-init:event-delivered".into(), format!("an event emitted before any initialisation was delivered: {:?}", d.msg)));
            }
        }
        if t.role == "poller" && t.saw_inert && t.seen_live {
            both += 1;
        }
        viol.append(&mut t.viol);
    }
    if winners.len() == 1 && delivered_after != 1 {
        viol.push(("C20:shared-accessor:after-init:macro-event-not-delivered-once".into(), format!("the event emitted through emit::emit! after init() returned was delivered {} times", delivered_after)));
    }
    // the setup fn runs BEFORE the span is created: when the main thread's own attempt won, the span and the event in
    // its body went through the shared slot after this very thread had initialised it (a lost attempt constrains nothing)
    let setup_span_won = setup_span.is_some() && winners == [0] && span_panic.is_none();
    if setup_span_won && setup_span_seen != [1, 1] {
        viol.push(("C20:shared-accessor:setup-param:span-not-emitted-through-the-runtime-its-setup-initialised".into(), format!("the span fn (form {:?}) whose setup fn initialised the shared slot: its span event was delivered {} time(s), the event in its body {} time(s) (expected once each, through configuration {:?})", setup_span, setup_span_seen[0], setup_span_seen[1], w)));
    }
    let col = |f: &dyn Fn(&AccStat) -> u64, roles: &[&str]| -> Vec<u64> { (0..6).map(|k| threads.iter().filter(|t| roles.contains(&t.role)).map(|t| f(&t.stats[k])).sum()).collect() };
    let all = ["main-before", "poller", "rival", "main", "fresh-thread"];
    let viol_json: Vec<Json> = viol.iter().map(|(s, w)| json!([s, w])).collect();
    println!(
        "@@CHILD {}",
        json!({
            "k": k, "pollers": n_pollers, "rival": rival, "via": via_try.iter().map(|t| if *t { "try_init" } else { "init" }).collect::<Vec<_>>(),
            "delays": delays, "focus": focus, "winner": winners.first(),
            "calls": col(&|s| s.calls, &all), "before": col(&|s| s.before, &all), "after": col(&|s| s.after, &all),
            "after_pollers": col(&|s| s.after, &["poller"]),
            "overlap": col(&|s| s.overlap, &all), "overlap_inert": col(&|s| s.overlap_inert, &all), "overlap_live": col(&|s| s.overlap_live, &all),
            "setup_span": setup_span, "setup_span_won": setup_span_won,
            "pollers_that_saw_both": both, "viol": viol_json, "wall_ms": t0.elapsed().as_millis() as u64,
        })
    );
    use std::io::Write;
    let _ = std::io::stdout().flush();
    std::process::exit(0);
}

/// Parent side: run `n` races (one child process each, a few at a time), merge and judge.
fn run_shared_children(r: &mut Report, args: &Args, n: u64, ks: Option<Vec<u64>>) {
    let exe = match std::env::current_exe() {
        Ok(e) => e,
        Err(e) => {
            r.inconclusive(format!("shared-accessor lane: no current_exe: {}", e));
            return;
        }
    };
    let ks: Vec<u64> = ks.unwrap_or_else(|| (0..n).collect());
    let cores = std::thread::available_parallelism().map(|n| n.get()).unwrap_or(4);
    // every child runs 4-10 threads: a few at a time so that the pollers really run in parallel
    let par = (cores / 4).clamp(1, 6);
    let next = AtomicUsize::new(0);
    let outs: Vec<(u64, Result<std::process::Output, String>)> = std::thread::scope(|s| {
        let hs: Vec<_> = (0..par)
            .map(|_| {
                let (next, ks, exe) = (&next, &ks, &exe);
                s.spawn(move || {
                    let mut mine = Vec::new();
                    loop {
                        let i = next.fetch_add(1, Ordering::SeqCst);
                        if i >= ks.len() {
                            break;
                        }
                        let k = ks[i];
                        let out = std::process::Command::new(exe)
                            .args(["--child-shared-race", &k.to_string(), "--seed", &args.seed.to_string(), "--lane", &args.lane])
                            .stdin(std::process::Stdio::null())
                            .output()
                            .map_err(|e| e.to_string());
                        mine.push((k, out));
                    }
                    mine
                })
            })
            .collect();
        hs.into_iter().flat_map(|h| h.join().expect("spawner")).collect()
    });

    let mut overlapped_children = 0u64;
    let mut overlapping_calls = [0u64; 6];
    let mut children = 0u64;
    for (k, out) in outs {
        let case = json!({"seed": args.seed, "shared_child": k});
        let out = match out {
            Ok(o) => o,
            Err(e) => {
                r.inconclusive(format!("shared-accessor lane: could not spawn child {}: {}", k, e));
                continue;
            }
        };
        let stdout = String::from_utf8_lossy(&out.stdout);
        let stderr = String::from_utf8_lossy(&out.stderr);
        if stderr.contains("ThreadSanitizer") || stderr.contains("AddressSanitizer") {
            // let the driver see the sanitizer's report
            eprintln!("{}", stderr);
        }
        let line = stdout.lines().find_map(|l| l.strip_prefix("@@CHILD "));
        let v: Option<Json> = line.and_then(|l| serde_json::from_str(l).ok());
        let v = match v {
            Some(v) if v.get("gave_up").is_none() && out.status.success() => v,
            Some(_) => {
                r.inconclusive(format!("shared-accessor lane: child {} hit its 40 s watchdog", k));
                continue;
            }
            None => {
                // the child died: a panic raised inside emit is an observation, anything else is not a verdict
                let locs: Vec<&str> = stderr.lines().filter_map(|l| l.strip_prefix("@@REPO-PANIC ")).collect();
                let last_panic = stderr.lines().filter(|l| l.contains("panicked at")).last().unwrap_or("");
                if let Some(loc) = locs.last().filter(|_| last_panic.contains("repo/")) {
                    let file = loc.rsplit_once("repo/").map(|(_, f)| f).unwrap_or(loc);
                    let file = file.split(':').next().unwrap_or(file);
                    r.eval();
                    r.observe("shared-accessor:children", 1);
                    r.violation(
                        &format!("C20:shared-accessor:child-died:panic-in:{}", file),
                        &format!("race process {} died ({:?}) of a panic raised inside emit: {}", k, out.status, last_panic),
                        json!({"seed": args.seed, "shared_child": k, "stderr_tail": stderr.chars().rev().take(1500).collect::<String>().chars().rev().collect::<String>()}),
                    );
                } else {
                    r.inconclusive(format!("shared-accessor lane: child {} exited {:?} without a result: {}", k, out.status, stderr.lines().last().unwrap_or("")));
                }
                continue;
            }
        };
        children += 1;
        r.eval();
        r.observe("shared-accessor:children", 1);
        let arr = |key: &str| -> Vec<u64> { v.get(key).and_then(|a| a.as_array()).map(|a| a.iter().map(|x| x.as_u64().unwrap_or(0)).collect()).unwrap_or_else(|| vec![0; 6]) };
        let (calls, before, after, after_p, ov, ovi, ovl) = (arr("calls"), arr("before"), arr("after"), arr("after_pollers"), arr("overlap"), arr("overlap_inert"), arr("overlap_live"));
        for a in 0..6 {
            r.observe(&format!("shared-accessor:calls:{}", ACCESSOR[a]), calls[a]);
            r.observe(&format!("shared-accessor:calls-finished-before-any-init:{}", ACCESSOR[a]), before[a]);
            r.observe(&format!("shared-accessor:calls-started-after-init-returned:{}", ACCESSOR[a]), after[a]);
            r.observe(&format!("shared-accessor:calls-started-after-init-returned:by-pollers:{}", ACCESSOR[a]), after_p[a]);
            r.observe(&format!("shared-accessor:calls-overlapping-init:{}", ACCESSOR[a]), ov[a]);
            overlapping_calls[a] += ov[a];
        }
        r.observe("shared-accessor:calls-overlapping-init:answered-inert", ovi.iter().sum());
        r.observe("shared-accessor:calls-overlapping-init:answered-live", ovl.iter().sum());
        let both = v.get("pollers_that_saw_both").and_then(|x| x.as_u64()).unwrap_or(0);
        r.observe("shared-accessor:pollers-that-saw-inert-then-live", both);
        if v.get("setup_span").map(|x| !x.is_null()).unwrap_or(false) {
            r.observe("shared-accessor:children-initialising-from-the-setup-fn-of-a-span", 1);
            if v.get("setup_span_won").and_then(|x| x.as_bool()).unwrap_or(false) {
                r.observe("shared-accessor:children-initialising-from-the-setup-fn-of-a-span:that-attempt-won", 1);
            }
        }
        let n_ov: u64 = ov.iter().sum();
        if n_ov > 0 {
            overlapped_children += 1;
            r.observe("shared-accessor:children-with-calls-overlapping-init", 1);
            let which: Vec<usize> = (0..6).filter(|a| ov[*a] > 0).collect();
            r.nontrivial(&("shared-accessor", v.get("pollers").and_then(|x| x.as_u64()), v.get("rival").and_then(|x| x.as_bool()), v.get("winner").and_then(|x| x.as_u64()), which, both.min(3)));
            if r.wants_sample() && k % 7 == 0 {
                let mut s = v.clone();
                s["viol"] = json!([]);
                r.sample(|| json!({"shared_accessor_race": s}));
            }
        }
        if let Some(vs) = v.get("viol").and_then(|x| x.as_array()) {
            for x in vs {
                let sig = x.get(0).and_then(|s| s.as_str()).unwrap_or("C20:shared-accessor:unparsed");
                let what = x.get(1).and_then(|s| s.as_str()).unwrap_or("");
                let mut c = case.clone();
                c["child"] = json!({"pollers": v.get("pollers"), "rival": v.get("rival"), "via": v.get("via"), "delays": v.get("delays"), "focus": v.get("focus"), "winner": v.get("winner"), "overlap": v.get("overlap")});
                r.violation(sig, what, c);
            }
        }
    }
    r.set(
        "shared_accessor_races",
        json!({"children": children, "children_with_accessor_calls_overlapping_the_init_window": overlapped_children,
               "overlapping_calls_per_accessor": ACCESSOR.iter().zip(overlapping_calls.iter()).map(|(a, n)| json!([a, n])).collect::<Vec<_>>()}),
    );
    if children > 0 && overlapped_children == 0 {
        r.inconclusive("shared-accessor lane: no child had an accessor call overlapping the initialisation window");
    }
}

// ---------------------------------------------------------------------------
// `setup:` on a span whose setup fn INITIALISES the slot the span goes through
// ---------------------------------------------------------------------------
//
// `#[emit::span(rt: SLOT.get(), setup: init, "main")] fn main_like()` where `init` does
// `emit::setup()...init_slot(&SLOT)`: the macro documents `setup:` as "invoke the expression before
// creating the span", so the slot is observed enabled (by this very thread, inside `init`) before the
// span exists, and from that moment every use of the slot - the span's own creation and completion
// included - goes through all five components of the winning configuration. One case = one fresh
// `AmbientSlot` on the stack and one call of a span fn (sync / async x plain / result-aware ok / err /
// `guard:` form) whose body emits an event and opens a nested span through the same slot.
//
// Scenarios: the setup fn initialises the empty slot with `init_slot` / `try_init_slot`; controls: the
// slot was initialised before the call and the setup fn does nothing / loses a `try_init_slot` with a
// second configuration; the slot stays empty (setup fn does nothing): everything is a no-op.
//
// Rules (single thread, every filter says yes, so delivery is deterministic):
// * exactly one span event of the outer fn, one body event, one nested span event, one nested body
//   event - all delivered by the winner's emitter, with the winner's ctxt tag, extents read from the
//   winner's clock (span events: start AND end) and trace / span ids made by the winner's rng;
// * no component of any other configuration is called, nothing is swallowed by the inert runtime;
// * the empty-slot scenario delivers nothing, calls nothing, panics nowhere.

const SP_FORMS: [&str; 8] = ["sync:plain", "sync:result-ok", "sync:result-err", "sync:guard", "async:plain", "async:result-ok", "async:result-err", "async:guard"];
const SP_SCEN: [&str; 5] = ["setup-init_slot", "setup-try_init_slot", "control:initialised-before:setup-noop", "control:initialised-before:setup-loses-try_init_slot", "control:never-initialised"];

type SpGuard<'a> = Option<emit::setup::Init<'a, TEmitter, TCtxt>>;

/// The setup fn of the span sites: `how` 0 = `init_slot`, 1 = `try_init_slot`, else nothing.
fn sp_setup<'a>(slot: &'a AmbientSlot, tag: u64, how: u8) -> SpGuard<'a> {
    if how > 1 {
        return None;
    }
    let s = emit::setup().emit_to(TEmitter { tag }).emit_when(TFilter { tag }).with_ctxt(TCtxt { tag }).with_clock(TClock { tag }).with_rng(TRng { tag });
    if how == 0 {
        Some(s.init_slot(slot))
    } else {
        s.try_init_slot(slot)
    }
}

#[derive(Debug)]
struct SpErr;
impl std::fmt::Display for SpErr {
    fn fmt(&self, f: &mut std::fmt::Formatter) -> std::fmt::Result {
        f.write_str("c20 scripted error")
    }
}
impl std::error::Error for SpErr {}

struct SpYield(bool);
impl std::future::Future for SpYield {
    type Output = ();
    fn poll(mut self: std::pin::Pin<&mut Self>, _: &mut std::task::Context<'_>) -> std::task::Poll<()> {
        if self.0 {
            std::task::Poll::Ready(())
        } else {
            self.0 = true;
            std::task::Poll::Pending
        }
    }
}

fn sp_block_on<F: std::future::Future>(f: F) -> F::Output {
    let mut f = std::pin::pin!(f);
    let mut cx = std::task::Context::from_waker(std::task::Waker::noop());
    for _ in 0..1_000 {
        if let std::task::Poll::Ready(v) = f.as_mut().poll(&mut cx) {
            return v;
        }
    }
    panic!("c20 setup-param executor: poll budget exhausted");
}

#[emit::span(rt: slot.get(), "c20 setup nested {id}", id)]
fn sp_nested(slot: &AmbientSlot, id: u64) {
    emit::emit!(rt: slot.get(), "c20 setup nested-body {id}", id);
}

fn sp_body(slot: &AmbientSlot, id: u64) {
    emit::emit!(rt: slot.get(), "c20 setup body {id}", id);
    sp_nested(slot, id);
}

#[emit::span(rt: slot.get(), "c20 setup nested {id}", id)]
async fn sp_nested_async(slot: &AmbientSlot, id: u64) {
    SpYield(false).await;
    emit::emit!(rt: slot.get(), "c20 setup nested-body {id}", id);
}

async fn sp_body_async(slot: &AmbientSlot, id: u64) {
    emit::emit!(rt: slot.get(), "c20 setup body {id}", id);
    SpYield(false).await;
    sp_nested_async(slot, id).await;
}

#[emit::span(rt: slot.get(), setup: (|| sp_setup(slot, tag, how)), "c20 setup main {id}", id)]
fn sp_sync_plain(slot: &AmbientSlot, tag: u64, how: u8, id: u64) -> u64 {
    sp_body(slot, id);
    id
}

#[emit::span(rt: slot.get(), setup: (|| sp_setup(slot, tag, how)), ok_lvl: emit::Level::Info, err_lvl: "warn", "c20 setup main {id}", id)]
fn sp_sync_result(slot: &AmbientSlot, tag: u64, how: u8, id: u64, fail: bool) -> Result<u64, SpErr> {
    sp_body(slot, id);
    if fail {
        return Err(SpErr);
    }
    Ok(id)
}

#[emit::span(rt: slot.get(), setup: (|| sp_setup(slot, tag, how)), guard: g, "c20 setup main {id}", id)]
fn sp_sync_guard(slot: &AmbientSlot, tag: u64, how: u8, id: u64) -> u64 {
    sp_body(slot, id);
    g.complete();
    id
}

#[emit::span(rt: slot.get(), setup: (|| sp_setup(slot, tag, how)), "c20 setup main {id}", id)]
async fn sp_async_plain(slot: &AmbientSlot, tag: u64, how: u8, id: u64) -> u64 {
    sp_body_async(slot, id).await;
    id
}

#[emit::span(rt: slot.get(), setup: (|| sp_setup(slot, tag, how)), ok_lvl: emit::Level::Info, err_lvl: "warn", "c20 setup main {id}", id)]
async fn sp_async_result(slot: &AmbientSlot, tag: u64, how: u8, id: u64, fail: bool) -> Result<u64, SpErr> {
    sp_body_async(slot, id).await;
    if fail {
        Err(SpErr)?;
    }
    Ok(id)
}

#[emit::span(rt: slot.get(), setup: (|| sp_setup(slot, tag, how)), guard: g, "c20 setup main {id}", id)]
async fn sp_async_guard(slot: &AmbientSlot, tag: u64, how: u8, id: u64) -> u64 {
    sp_body_async(slot, id).await;
    g.complete();
    id
}

// the implicit form on the process-wide shared slot (used inside the race children, once per process)
#[emit::span(setup: init, "c20 shared setup main {id}", id)]
fn sh_main_like(init: &dyn Fn(), id: u64) {
    emit::emit!("c20 shared setup body {id}", id);
}

#[emit::span(setup: init, "c20 shared setup main {id}", id)]
async fn sh_main_like_async(init: &dyn Fn(), id: u64) {
    SpYield(false).await;
    emit::emit!("c20 shared setup body {id}", id);
}

#[emit::span(setup: init, ok_lvl: emit::Level::Info, err_lvl: "warn", "c20 shared setup main {id}", id)]
fn sh_main_like_result(init: &dyn Fn(), id: u64, fail: bool) -> Result<u64, SpErr> {
    emit::emit!("c20 shared setup body {id}", id);
    if fail {
        return Err(SpErr);
    }
    Ok(id)
}

#[emit::span(setup: init, ok_lvl: emit::Level::Info, err_lvl: "warn", "c20 shared setup main {id}", id)]
async fn sh_main_like_result_async(init: &dyn Fn(), id: u64, fail: bool) -> Result<u64, SpErr> {
    SpYield(false).await;
    emit::emit!("c20 shared setup body {id}", id);
    if fail {
        Err(SpErr)?;
    }
    Ok(id)
}

fn setup_param_case(r: &mut Report, seed: u64, k: u64) {
    let form = (k % 8) as usize;
    let scen = ((k / 8) % 5) as usize;
    let mut g = Rng::stream(seed, &[20, 9, k]);
    let (w_tag, l_tag) = (tag_of(g.below(1_000_000), 3), tag_of(g.below(1_000_000), 4));
    let id = (300u64 << 40) + k;
    let is_async = form >= 4;
    let kind = if is_async { "async" } else { "sync" };
    let case = json!({"section": "setup-param", "seed": seed, "k": k, "form": SP_FORMS[form], "scenario": SP_SCEN[scen], "winner_tag": w_tag, "other_tag": l_tag});
    r.eval();
    r.observe("setup-param:cases", 1);
    r.observe(&format!("setup-param:{}:{}", SP_SCEN[scen], SP_FORMS[form]), 1);

    let slot = AmbientSlot::new();
    let _ = take_log();
    let pre = scen == 2 || scen == 3;
    if pre {
        let _ = sp_setup(&slot, w_tag, (k / 40 % 2) as u8);
    }
    let (tag, how) = match scen {
        0 => (w_tag, 0u8),
        1 => (w_tag, 1),
        2 => (l_tag, 2),
        3 => (l_tag, 1),
        _ => (l_tag, 2),
    };
    let w = if scen == 4 { None } else { Some(w_tag) };
    let slot_ref = &slot;
    let res: Result<Result<u64, ()>, String> = catch(move || match form {
        0 => Ok(sp_sync_plain(slot_ref, tag, how, id)),
        1 => sp_sync_result(slot_ref, tag, how, id, false).map_err(|_| ()),
        2 => sp_sync_result(slot_ref, tag, how, id, true).map_err(|_| ()),
        3 => Ok(sp_sync_guard(slot_ref, tag, how, id)),
        4 => Ok(sp_block_on(sp_async_plain(slot_ref, tag, how, id))),
        5 => sp_block_on(sp_async_result(slot_ref, tag, how, id, false)).map_err(|_| ()),
        6 => sp_block_on(sp_async_result(slot_ref, tag, how, id, true)).map_err(|_| ()),
        _ => Ok(sp_block_on(sp_async_guard(slot_ref, tag, how, id))),
    });
    let log = take_log();
    let enabled_after = slot.is_enabled();
    let view_after = probe(slot.get());
    let _ = take_log();
    // a span fn left half-way by a panic may leave frames of the tagged ctxt entered on this thread
    ENTERED.with(|e| e.borrow_mut().clear());

    let mut case = case;
    case["delivered"] = json!(log.delivered.iter().map(|d| json!({"emitter": d.tag, "msg": d.msg, "who": d.who, "secs": format!("{:?}", d.secs), "trace": d.trace, "span": d.span})).collect::<Vec<_>>());
    case["component_calls"] = json!(log.uses.iter().map(|((c, t), n)| json!([COMPONENT[*c as usize], t, n])).collect::<Vec<_>>());

    match &res {
        Err(m) => {
            r.violation(&format!("C20:setup-param:panicked:{}", kind), &format!("{} / {}: the span fn panicked: {}", SP_SCEN[scen], SP_FORMS[form], m), case.clone());
            return;
        }
        Ok(v) => {
            let want = if form == 2 || form == 6 { Err(()) } else { Ok(id) };
            if *v != want {
                // not the property's business, but nothing else looks at it: keep it visible
                r.observe("setup-param:return-value-differs", 1);
            }
        }
    }

    let Some(w) = w else {
        if !log.delivered.is_empty() || !log.uses.is_empty() || enabled_after || !is_inert(&view_after) {
            r.violation(
                &format!("C20:setup-param:never-initialised-slot-not-inert:{}", kind),
                &format!("{}: a span fn whose setup fn initialises nothing ran on an empty slot: {} event(s) delivered, {} component call(s), enabled afterwards = {}", SP_FORMS[form], log.delivered.len(), log.uses.len(), enabled_after),
                case,
            );
        }
        return;
    };

    let ctl = if pre { "control:" } else { "" };
    // which of the four expected events arrived, and how often
    let names = [("c20 setup main", true, "span"), ("c20 setup body", false, "body-event"), ("c20 setup nested-body", false, "nested-body-event"), ("c20 setup nested ", true, "nested-span")];
    for (prefix, is_span, what) in names {
        let got: Vec<&Delivered> = log.delivered.iter().filter(|d| d.msg.starts_with(prefix)).collect();
        if got.len() != 1 {
            let sig = if what == "span" {
                format!("C20:setup-param:{}span-not-emitted-through-the-runtime-its-setup-initialised:{}", ctl, kind)
            } else {
                format!("C20:setup-param:{}{}-not-delivered-once:{}", ctl, what, kind)
            };
            r.violation(&sig, &format!("{} / {}: the {} was delivered {} time(s) (expected once, by the emitter of configuration {}); the slot is {} afterwards", SP_SCEN[scen], SP_FORMS[form], what, got.len(), w, if enabled_after { "enabled" } else { "NOT enabled" }), case.clone());
        }
        for d in got {
            let secs_ok = if is_span { d.secs == Some((Some(w), w)) } else { d.secs == Some((None, w)) };
            let mut wrong = Vec::new();
            if d.tag != w {
                wrong.push(format!("emitter of configuration {}", d.tag));
            }
            if d.who != Some(w) {
                wrong.push(format!("ctxt tag {:?}", d.who));
            }
            if !secs_ok {
                wrong.push(format!("extent {:?} (clock)", d.secs));
            }
            if d.trace.as_deref() != Some(trace_text(w).as_str()) || d.span.as_deref() != Some(span_text(w).as_str()) {
                wrong.push(format!("ids trace={:?} span={:?} (rng; the body's events carry the span's ids)", d.trace, d.span));
            }
            if !wrong.is_empty() {
                r.violation(
                    &format!("C20:setup-param:{}{}:components-of-other-configuration:{}", ctl, what, kind),
                    &format!("{} / {}: the {} `{}` shows {} but the configuration that initialised the slot is {}", SP_SCEN[scen], SP_FORMS[form], what, d.msg, wrong.join(", "), w),
                    case.clone(),
                );
            }
        }
    }
    for ((component, t), n) in &log.uses {
        if *t != w {
            r.violation(
                &format!("C20:setup-param:{}loser-component-called:{}", ctl, COMPONENT[*component as usize]),
                &format!("{} / {}: the {} of configuration {} was called {} time(s), the slot holds {}", SP_SCEN[scen], SP_FORMS[form], COMPONENT[*component as usize], t, n, w),
                case.clone(),
            );
        }
    }
    for c in [EMITTER, FILTER, CTXT, CLOCK, RNG] {
        if !log.uses.contains_key(&(c, w)) {
            r.violation(
                &format!("C20:setup-param:{}winner-component-never-called:{}", ctl, COMPONENT[c as usize]),
                &format!("{} / {}: the {} of the configuration that initialised the slot was never called by the span fn", SP_SCEN[scen], SP_FORMS[form], COMPONENT[c as usize]),
                case.clone(),
            );
        }
    }
    if !enabled_after || view_after.iter().any(|c| *c != Some(w)) {
        r.violation(
            &format!("C20:setup-param:{}slot-after-the-call", ctl),
            &format!("{} / {}: after the span fn returned the slot shows enabled={} view={:?}, expected all five components of {}", SP_SCEN[scen], SP_FORMS[form], enabled_after, view_after, w),
            case.clone(),
        );
    }
    if !pre {
        r.nontrivial(&("setup-param", form, scen));
    }
    if r.wants_sample() && k % 13 == 0 {
        r.sample(|| case);
    }
}

fn main() {
    let args = Args::parse();
    if let Some(k) = args.get("child-shared-race") {
        shared_race_child(args.seed, k.parse().unwrap_or(0));
        return;
    }
    let mut r = Report::new(
        "C20",
        &args,
        "one evaluation = one round (fresh AmbientSlot, racing tagged initialisers, observers, pre- and post-race use) judged by the tagged-component oracle; \
         non-trivial = distinct (initialisers, observers, winner index, threads that saw the slot both inert and initialised, init_slot callers) shapes among rounds in which \
         at least two initialisation attempts overlapped in time (by SeqCst stamps); plus the (form, scenario) pairs of the setup-param section in which \
         the setup fn of the span itself initialised the fresh slot",
    );
    let sz = Sizes {
        max_init: args.get_u64("max-init", 16).clamp(2, 16),
        max_obs: args.get_u64("max-obs", 8).min(8),
        spin_cap: args.get_u64("spin-cap", if cfg!(miri) { 12 } else { 3000 }),
        post_steps: args.get_u64("post-steps", if cfg!(miri) { 2 } else { 4 }),
    };

    if let Some(path) = &args.replay {
        let case = load_replay(path);
        let seed = case.get("seed").and_then(|v| v.as_u64()).unwrap_or(args.seed);
        let round = case.get("round").and_then(|v| v.as_u64()).unwrap_or(0);
        let u = |k: &str, d: u64| case.get(k).and_then(|v| v.as_u64()).unwrap_or(d);
        let sz = Sizes { max_init: u("max_init", sz.max_init), max_obs: u("max_obs", sz.max_obs), spin_cap: u("spin_cap", sz.spin_cap), post_steps: u("post_steps", sz.post_steps) };
        // schedules are not replayable: repeat the round
        if let Some(k) = case.get("shared_child").and_then(|v| v.as_u64()) {
            // one process = one race; schedules are not replayable: repeat the same child
            let mut a = args.clone();
            a.seed = seed;
            run_shared_children(&mut r, &a, 0, Some(vec![k; 24]));
            std::process::exit(r.finish());
        }
        let on_static = case.get("static_shared_slot").and_then(|v| v.as_bool()).unwrap_or(false);
        for k in 0..200 {
            // the static slot can be raced for once per process
            run_round(&mut r, seed, round, &sz, on_static && k == 0);
        }
        std::process::exit(r.finish());
    }

    let n = args.get_u64("rounds", args.n(2_000, 120_000));
    let seed = args.seed;
    // rounds spawn up to 24 threads each: a few rounds in parallel keep all cores contended
    let mut a = args.clone();
    if a.get("threads").is_none() {
        a.extra.insert("threads".into(), "4".into());
    }
    par_cases(&mut r, &a, n, |i, r| run_round(r, seed, i, &sz, false));
    // last: one round on the process-wide static slot behind `emit::runtime::shared()`
    run_round(&mut r, seed, n, &sz, true);

    // span fns whose `setup:` fn initialises the slot the span goes through (fresh slot per case, one thread)
    if !cfg!(miri) {
        for k in 0..args.get_u64("setup-param-cases", args.n(400, 4_000)) {
            setup_param_case(&mut r, seed, k);
        }
    }

    // the shared slot through the root crate's accessors, raced once per child process
    if !cfg!(miri) {
        let children = args.get_u64("shared-children", args.n(96, 960));
        run_shared_children(&mut r, &args, children, None);
    }

    let code = r.finish();
    if code != 0 {
        std::process::exit(code);
    }
}
