/*!
C03 — ambient context is a per-thread stack; frames leave no trace once exited.

Workload: seeded, well-nested *programs* (5–60 ops, nesting depth <= 8) over the real frame API:
`Frame::push / root / disabled / current` x `enter`-guard / `with` / `call` / `in_fn` /
`in_future`, re-entering a frame, frames created at one program point and entered at another,
frames moved to spawned threads (and back) and into other tasks, 2–4 context instances obtained
through every construction route (`ThreadLocalCtxt::new()`, `shared()` - also twice -,
`Default::default()`, `emit::setup()...init_slot(slot)` runtimes on separate `AmbientSlot`s, copies and
clones of another instance; an identity oracle says which of them are the same *logical* context:
copies / clones of one another and any two `shared()`, nothing else - see `Route`) whose constructor calls
are made on *different threads* (the long-lived worker thread, helper threads that only create a
ctxt and send it back over a channel, one sibling thread creating several, the thread that then
runs the program - a fresh one for a third of the programs) and which are then used together, every one of them
reachable through many handle types (by value, `&`, `&dyn ErasedCtxt` over the plain ctxt /
`Option` / `AssertInternal` / `Box<dyn ErasedCtxt>` / a padding wrapper, `Box<dyn>`, `Arc<dyn>`,
`Option`, and the erased ctxt of an `AmbientSlot`-held runtime) so that `ErasedFrame` stores its
payload inline (8 and 16 bytes) *and* boxed (64-byte padded frames, erased-inside-erased frames).
A third of the instances are `emit_traceparent::TraceparentCtxt<ThreadLocalCtxt>` (the other ctxt
of the workspace with per-frame state of its own in a thread-local: a traceparent slot swapped
with the thread's active traceparent on enter and handed back on exit), reached through the same
handle types; a third of the frames carry `trace_id` / `span_id` properties (typed or as hex
text) so the slot is populated.
Futures run on a single-threaded executor written here: seeded poll order over 1–5 frame-wrapped
futures which suspend through a scripted `YieldNow`, may be cancelled while suspended, and may
migrate to another thread between polls. `panic!` is raised at seeded program points and caught
by an enclosing `catch_unwind` (or by the executor around a poll).

Oracle: a model written from the statement. Per (thread, logical instance) a stack of maps; a
frame's map is fixed when the frame is created (push = what the model says is visible at creation
overlaid by the frame's own properties, own wins; root = own only; disabled / current = what is
visible at creation). At every program point — block start, after every op, inside `with`, on
entry to / exit from every poll, between polls on the executor thread, on thread start and end,
in destructors that run *during unwinding* between two frames, and at the very end where
everything must be empty through every handle — `with_current` is read through a rotating handle
for every instance and compared with the model *as a first-wins map*. Events emitted through the
instance's runtime at seeded points must carry exactly the model's map as ambient properties.

Dropping a frame-wrapped future (after it completed, after a panic, or cancelled after exactly
0, 1 or 2 polls / at a seeded suspension, possibly nested several frames deep) is a program point
too: the futures hold probe values whose destructors look at the ambient state. While the inner
future of a `FrameFuture` is dropped its frame is the innermost active one (what completes during
a cancellation still sees the frame), nested wrapped futures inside it see their own frames, and
after the drop everything is exactly as before it. A fixed fragment with such cancellations is
run by every process (so by every Miri seed) before the generated programs.

For traceparent instances the model is extended by one traceparent stack per thread (shared by
all traceparent instances, as the crate documents): a frame's traceparent is fixed when it is
created (own ids: a new traceparent, child of the one active at creation if any; no own ids: a
pushed / disabled / current frame carries the one active at creation, a root frame leaves the
traceparent alone); the innermost active frame that set one wins, none -> none. At every program
point the ids the ctxt contributes to `with_current` (when sampled) and `Traceparent::current()`
are compared with it, so every kind of leave must restore it and every re-entry (second guard /
`with`, next poll after a suspension, another thread) must show what the first entry showed.
How a child traceparent is derived from its parent (same trace id and flags, disabled -> unsampled)
is taken as implemented: that is C04 / C18's business.

Unconstrained: out-of-stack-order exits (never generated); duplicate keys inside one frame
(never generated); the order in which `with_current` enumerates properties.
*/

use std::{
    cell::{Cell, RefCell},
    collections::BTreeMap,
    future::Future,
    ops::ControlFlow,
    pin::Pin,
    sync::{
        atomic::{AtomicI64, AtomicU64, Ordering},
        Arc, Mutex,
    },
    task::{Context, Poll, Waker},
};

use emit::{
    ctxt::ErasedCtxt,
    platform::thread_local_ctxt::ThreadLocalCtxt,
    runtime::{AmbientSlot, AssertInternal, Runtime},
    value::ToValue,
    Ctxt, Emitter, Frame, Props, SpanId, TraceId, Value,
};
use emit_traceparent::{Traceparent, TraceparentCtxt};
use vcommon::*;

/// The other `Ctxt` the workspace ships that keeps per-frame state of its own in a thread-local.
type Tp = TraceparentCtxt<ThreadLocalCtxt>;

const MAXI: usize = 4; // logical instances per program
/// index of the (per-thread, shared by all traceparent instances) traceparent stack in `depths`
const TPD: usize = MAXI;
const SEEDED_PANIC: &str = "c03-seeded-panic";

type Map = BTreeMap<String, String>;
type AMap = Arc<Map>;
type Dyn<'a> = &'a (dyn ErasedCtxt + Send + Sync + 'static);
type BoxDyn = Box<dyn ErasedCtxt + Send + Sync>;
type ArcDyn = Arc<dyn ErasedCtxt + Send + Sync>;

// ---------------------------------------------------------------------------
// property values
// ---------------------------------------------------------------------------

#[derive(Clone, Debug, Hash)]
enum Val {
    I(i64),
    S(String),
    T(TraceId),
    P(SpanId),
}

impl Val {
    fn text(&self) -> String {
        match self {
            Val::I(v) => v.to_string(),
            Val::S(s) => s.clone(),
            Val::T(t) => t.to_string(),
            Val::P(p) => p.to_string(),
        }
    }
}

impl ToValue for Val {
    fn to_value(&self) -> Value<'_> {
        match self {
            Val::I(v) => v.to_value(),
            Val::S(s) => s.to_value(),
            Val::T(t) => t.to_value(),
            Val::P(p) => p.to_value(),
        }
    }
}

type OwnProps = Vec<(String, Val)>;

/// The properties a piece of real code shows, as a first-wins map of Display texts.
fn to_map<P: Props + ?Sized>(p: &P) -> Map {
    let mut m = Map::new();
    let _ = p.for_each(|k, v| {
        m.entry(k.get().to_string()).or_insert_with(|| v.to_string());
        ControlFlow::Continue(())
    });
    m
}

// ---------------------------------------------------------------------------
// a delegating ctxt whose frames are too big for ErasedFrame's inline storage
// ---------------------------------------------------------------------------

const HEAD: u64 = 0xA5A5_5A5A_C3C3_3C3C;
const TAIL: u64 = 0x0F1E_2D3C_4B5A_6978;
static CORRUPT_CANARIES: AtomicU64 = AtomicU64::new(0);

#[derive(Clone)]
struct Pad<C> {
    inner: C,
    live: Arc<AtomicI64>,
}

struct PadFrame<F> {
    head: u64,
    inner: Option<F>,
    fill: [u64; 3],
    live: Arc<AtomicI64>,
    tail: u64,
}

impl<F> PadFrame<F> {
    fn new(inner: F, live: &Arc<AtomicI64>) -> Self {
        live.fetch_add(1, Ordering::Relaxed);
        PadFrame { head: HEAD, inner: Some(inner), fill: [HEAD ^ 1, HEAD ^ 2, HEAD ^ 3], live: live.clone(), tail: TAIL }
    }

    fn audit(&self) {
        if self.head != HEAD || self.tail != TAIL || self.fill != [HEAD ^ 1, HEAD ^ 2, HEAD ^ 3] {
            CORRUPT_CANARIES.fetch_add(1, Ordering::Relaxed);
        }
    }
}

impl<F> Drop for PadFrame<F> {
    fn drop(&mut self) {
        self.audit();
        self.live.fetch_sub(1, Ordering::Relaxed);
    }
}

impl<C: Ctxt> Ctxt for Pad<C> {
    type Current = C::Current;
    type Frame = PadFrame<C::Frame>;

    fn open_root<P: Props>(&self, props: P) -> Self::Frame {
        PadFrame::new(self.inner.open_root(props), &self.live)
    }

    fn open_push<P: Props>(&self, props: P) -> Self::Frame {
        PadFrame::new(self.inner.open_push(props), &self.live)
    }

    fn open_disabled<P: Props>(&self, props: P) -> Self::Frame {
        PadFrame::new(self.inner.open_disabled(props), &self.live)
    }

    fn enter(&self, frame: &mut Self::Frame) {
        frame.audit();
        if let Some(f) = frame.inner.as_mut() {
            self.inner.enter(f)
        }
    }

    fn with_current<R, F: FnOnce(&Self::Current) -> R>(&self, with: F) -> R {
        self.inner.with_current(with)
    }

    fn exit(&self, frame: &mut Self::Frame) {
        frame.audit();
        if let Some(f) = frame.inner.as_mut() {
            self.inner.exit(f)
        }
    }

    fn close(&self, mut frame: Self::Frame) {
        frame.audit();
        if let Some(f) = frame.inner.take() {
            self.inner.close(f)
        }
    }
}

// ---------------------------------------------------------------------------
// an emitter that records into a thread-local (no cross-thread synchronisation)
// ---------------------------------------------------------------------------

thread_local! {
    static EVENTS: RefCell<Vec<Map>> = const { RefCell::new(Vec::new()) };
}

struct TlsRecorder;

impl Emitter for TlsRecorder {
    fn emit<E: emit::event::ToEvent>(&self, evt: E) {
        let evt = evt.to_event();
        let m = to_map(evt.props());
        EVENTS.with(|e| e.borrow_mut().push(m));
    }

    fn blocking_flush(&self, _: std::time::Duration) -> bool {
        true
    }
}

// ---------------------------------------------------------------------------
// logical instances and the handles through which they are reached
// ---------------------------------------------------------------------------

#[derive(Clone, Copy, Debug, PartialEq, Eq, Hash)]
enum H {
    Val,
    Ref,
    DynTl,
    DynOpt,
    DynAssert,
    DynPad,
    DynOptPad,
    DynBox,
    Slot,
    Boxed,
    Arcd,
    Opt,
    Pad,
    RefBox,
}

const HANDLES: [H; 14] = [
    H::Val,
    H::Ref,
    H::DynTl,
    H::DynOpt,
    H::DynAssert,
    H::DynPad,
    H::DynOptPad,
    H::DynBox,
    H::Slot,
    H::Boxed,
    H::Arcd,
    H::Opt,
    H::Pad,
    H::RefBox,
];

impl H {
    fn name(self) -> &'static str {
        match self {
            H::Val => "handle:by-value",
            H::Ref => "handle:&ctxt",
            H::DynTl => "handle:&dyn(ctxt)/inline-8",
            H::DynOpt => "handle:&dyn(Option)/inline-16",
            H::DynAssert => "handle:&dyn(AssertInternal)/inline-8",
            H::DynPad => "handle:&dyn(Pad)/boxed-64",
            H::DynOptPad => "handle:&dyn(Option<Pad>)/boxed-64",
            H::DynBox => "handle:&dyn(Box<dyn>)/boxed-erased-in-erased",
            H::Slot => "handle:AmbientSlot.get().ctxt()",
            H::Boxed => "handle:Box<dyn>",
            H::Arcd => "handle:Arc<dyn>",
            H::Opt => "handle:Option<ctxt>",
            H::Pad => "handle:Pad<ctxt>",
            H::RefBox => "handle:&Box<dyn>",
        }
    }
}

struct Inst {
    tl: ThreadLocalCtxt,
    opt: Option<ThreadLocalCtxt>,
    assert: AssertInternal<ThreadLocalCtxt>,
    pad: Pad<ThreadLocalCtxt>,
    opt_pad: Option<Pad<ThreadLocalCtxt>>,
    boxed: BoxDyn,
    /// `Some` if this instance is `TraceparentCtxt<ThreadLocalCtxt>`: every handle then goes through these
    tpx: Option<TpObjs>,
    slot: AmbientSlot,
    live: Arc<AtomicI64>,
    shared: bool,
    slot_kind: u8,
    place: Place,
}

struct TpObjs {
    c: Tp,
    opt: Option<Tp>,
    assert: AssertInternal<Tp>,
    pad: Pad<Tp>,
    opt_pad: Option<Pad<Tp>>,
    boxed: BoxDyn,
}

/// The only call sites of `ThreadLocalCtxt::new()` / `shared()` / `default()` for program instances
/// (`None`: the route does not build the ctxt here - `emit::setup()` does it inside `Inst::new`,
/// copies and clones are taken from the instance they alias).
fn make_ctxt(route: Route) -> Option<ThreadLocalCtxt> {
    match route {
        Route::New => Some(ThreadLocalCtxt::new()),
        Route::Shared => Some(ThreadLocalCtxt::shared()),
        Route::Default => Some(<ThreadLocalCtxt as Default>::default()),
        Route::SetupSlot | Route::CopyOf(_) | Route::CloneOf(_) => None,
    }
}

/// Whether the route's constructor call can be made on any thread ahead of the program.
fn make_ctxt_elsewhere(route: Route) -> bool {
    matches!(route, Route::New | Route::Shared | Route::Default)
}

impl Inst {
    /// `given`: the ctxt made by `make_ctxt` (on whichever thread), or a copy / clone of another
    /// instance's; `None` = `Route::SetupSlot`: `emit::setup()` builds it.
    fn new(given: Option<ThreadLocalCtxt>, def: InstDef) -> Inst {
        let (shared, slot_kind) = (def.route == Route::Shared, def.slot_kind);
        // the application's way: `emit::setup()` default-constructs its ctxt; the runtime then goes
        // into this instance's own slot (`try_init_slot` below), next to the other instances' slots
        let mut setup = None;
        let tl = match given {
            Some(tl) => tl,
            None => {
                let mut got = None;
                let s = emit::setup().map_ctxt(|c: ThreadLocalCtxt| {
                    got = Some(c);
                    c
                });
                // (no system clock / OS randomness: the monitor also runs under Miri)
                setup = Some(s.emit_to(TlsRecorder).with_clock(emit::Empty).with_rng(emit::Empty));
                got.expect("map_ctxt maps the ctxt")
            }
        };
        let live = Arc::new(AtomicI64::new(0));
        let pad = Pad { inner: tl, live: live.clone() };
        let slot = AmbientSlot::new();
        let tpx = def.tp.then(|| {
            let c = TraceparentCtxt::new(tl);
            let pad = Pad { inner: c, live: live.clone() };
            TpObjs { c, opt: Some(c), assert: AssertInternal(c), opt_pad: Some(pad.clone()), pad, boxed: Box::new(c) }
        });
        macro_rules! init {
            ($wrap:expr) => {
                match setup.take() {
                    // the ctxt `emit::setup()` made, wrapped like every other instance's
                    Some(s) => s.map_ctxt($wrap).try_init_slot(&slot).is_some(),
                    None => slot.init(Runtime::new().with_emitter(TlsRecorder).with_ctxt(($wrap)(tl))).is_some(),
                }
            };
        }
        let ok = match (&tpx, slot_kind) {
            (None, 0) => init!(|c: ThreadLocalCtxt| c),
            (None, 1) => init!(|c: ThreadLocalCtxt| Pad { inner: c, live: live.clone() }),
            (None, _) => init!(|c: ThreadLocalCtxt| Some(Pad { inner: c, live: live.clone() })),
            (Some(_), 0) => init!(|c: ThreadLocalCtxt| TraceparentCtxt::new(c)),
            (Some(_), 1) => init!(|c: ThreadLocalCtxt| Pad { inner: TraceparentCtxt::new(c), live: live.clone() }),
            (Some(_), _) => init!(|c: ThreadLocalCtxt| Some(Pad { inner: TraceparentCtxt::new(c), live: live.clone() })),
        };
        assert!(ok, "fresh slot initialises");
        Inst {
            tpx,
            tl,
            opt: Some(tl),
            assert: AssertInternal(tl),
            opt_pad: Some(pad.clone()),
            pad,
            boxed: Box::new(tl),
            slot,
            live,
            shared,
            slot_kind,
            place: def.place,
        }
    }

    fn is_tp(&self) -> bool {
        self.tpx.is_some()
    }

    fn fresh_box(&self) -> BoxDyn {
        match &self.tpx {
            Some(x) => Box::new(x.c),
            None => Box::new(self.tl),
        }
    }

    fn fresh_arc(&self) -> ArcDyn {
        match &self.tpx {
            Some(x) => Arc::new(x.c),
            None => Arc::new(self.tl),
        }
    }

    fn ref_box(&self) -> &BoxDyn {
        match &self.tpx {
            Some(x) => &x.boxed,
            None => &self.boxed,
        }
    }

    fn dyn_of(&self, h: H) -> Dyn<'_> {
        if let Some(x) = &self.tpx {
            return match h {
                H::DynTl => &x.c,
                H::DynOpt => &x.opt,
                H::DynAssert => &x.assert,
                H::DynPad => &x.pad,
                H::DynOptPad => &x.opt_pad,
                H::DynBox => &x.boxed,
                _ => *self.slot.get().ctxt(),
            };
        }
        match h {
            H::DynTl => &self.tl,
            H::DynOpt => &self.opt,
            H::DynAssert => &self.assert,
            H::DynPad => &self.pad,
            H::DynOptPad => &self.opt_pad,
            H::DynBox => &self.boxed,
            _ => *self.slot.get().ctxt(),
        }
    }

    /// What `with_current` shows through handle `h`, on the calling thread.
    fn read(&self, h: H) -> Map {
        if let Some(x) = &self.tpx {
            match h {
                H::Val => return x.c.with_current(|p| to_map(p)),
                H::Ref => return (&x.c).with_current(|p| to_map(p)),
                H::Opt => return x.opt.with_current(|p| to_map(p)),
                H::Pad => return x.pad.with_current(|p| to_map(p)),
                _ => {}
            }
        }
        match h {
            H::Val => self.tl.with_current(|p| to_map(p)),
            H::Ref => (&self.tl).with_current(|p| to_map(p)),
            H::DynTl | H::DynOpt | H::DynAssert | H::DynPad | H::DynOptPad | H::DynBox | H::Slot => {
                self.dyn_of(h).with_current(|p| to_map(p))
            }
            H::Boxed => self.fresh_box().with_current(|p| to_map(p)),
            H::Arcd => self.fresh_arc().with_current(|p| to_map(p)),
            H::Opt => self.opt.with_current(|p| to_map(p)),
            H::Pad => self.pad.with_current(|p| to_map(p)),
            H::RefBox => self.ref_box().with_current(|p| to_map(p)),
        }
    }
}

#[derive(Clone, Copy, Debug, PartialEq, Eq, Hash)]
enum FK {
    Push,
    Root,
    Disabled,
    Current,
}

impl FK {
    fn name(self) -> &'static str {
        match self {
            FK::Push => "push",
            FK::Root => "root",
            FK::Disabled => "disabled",
            FK::Current => "current",
        }
    }
}

enum AnyFrame<'a> {
    V(Frame<ThreadLocalCtxt>),
    R(Frame<&'a ThreadLocalCtxt>),
    D(Frame<Dyn<'a>>),
    B(Frame<BoxDyn>),
    A(Frame<ArcDyn>),
    O(Frame<Option<ThreadLocalCtxt>>),
    P(Frame<Pad<ThreadLocalCtxt>>),
    RB(Frame<&'a BoxDyn>),
    TV(Frame<Tp>),
    TR(Frame<&'a Tp>),
    TO(Frame<Option<Tp>>),
    TP(Frame<Pad<Tp>>),
}

macro_rules! each_frame {
    ($frame:expr, $f:ident => $body:expr) => {
        match $frame {
            AnyFrame::V($f) => $body,
            AnyFrame::R($f) => $body,
            AnyFrame::D($f) => $body,
            AnyFrame::B($f) => $body,
            AnyFrame::A($f) => $body,
            AnyFrame::O($f) => $body,
            AnyFrame::P($f) => $body,
            AnyFrame::RB($f) => $body,
            AnyFrame::TV($f) => $body,
            AnyFrame::TR($f) => $body,
            AnyFrame::TO($f) => $body,
            AnyFrame::TP($f) => $body,
        }
    };
}

fn create<'a>(inst: &'a Inst, h: H, kind: FK, props: &[(String, Val)]) -> AnyFrame<'a> {
    macro_rules! mk {
        ($variant:ident, $c:expr) => {
            AnyFrame::$variant(match kind {
                FK::Push => Frame::push($c, props),
                FK::Root => Frame::root($c, props),
                FK::Disabled => Frame::disabled($c, props),
                FK::Current => Frame::current($c),
            })
        };
    }
    if let Some(x) = &inst.tpx {
        match h {
            H::Val => return mk!(TV, x.c),
            H::Ref => return mk!(TR, &x.c),
            H::Opt => return mk!(TO, x.opt),
            H::Pad => return mk!(TP, x.pad.clone()),
            _ => {}
        }
    }
    match h {
        H::Val => mk!(V, inst.tl),
        H::Ref => mk!(R, &inst.tl),
        H::DynTl | H::DynOpt | H::DynAssert | H::DynPad | H::DynOptPad | H::DynBox | H::Slot => mk!(D, inst.dyn_of(h)),
        H::Boxed => mk!(B, inst.fresh_box()),
        H::Arcd => mk!(A, inst.fresh_arc()),
        H::Opt => mk!(O, inst.opt),
        H::Pad => mk!(P, inst.pad.clone()),
        H::RefBox => mk!(RB, inst.ref_box()),
    }
}

/// The model's image of the traceparent a frame carries in its slot.
#[derive(Clone, Copy, Debug, PartialEq, Eq)]
struct TpVal {
    trace: TraceId,
    span: SpanId,
    parent: Option<SpanId>,
    flags: u8,
}

impl TpVal {
    /// What `TraceparentCtxt::with_current` contributes: the ids, if the traceparent is sampled.
    fn overlay(&self, m: &mut Map) {
        if self.flags & 1 == 1 {
            m.insert("trace_id".into(), self.trace.to_string());
            m.insert("span_id".into(), self.span.to_string());
            if let Some(p) = self.parent {
                m.insert("span_parent".into(), p.to_string());
            }
        }
    }
}

struct FVar<'a> {
    frame: AnyFrame<'a>,
    map: AMap,
    /// the traceparent this frame sets while entered (`None`: it leaves the traceparent alone)
    slot: Option<TpVal>,
    inst: usize,
    kind: FK,
    // bookkeeping for the evidence only
    created_under: AMap,
    created_on: std::thread::ThreadId,
    entries: u32,
}

impl FVar<'_> {
    /// Counts the shapes the statement quantifies over, as they actually happen.
    fn note_entry(&mut self) {
        if self.entries > 0 {
            bump("frame-re-entered");
        }
        self.entries += 1;
        if *top(self.inst) != *self.created_under {
            bump("frame-entered-under-other-ambient-than-created");
        }
        if std::thread::current().id() != self.created_on {
            bump("frame-entered-on-other-thread-than-created");
        }
        if self.slot.is_some() {
            bump("traceparent-frame-entered");
            if self.entries > 1 {
                bump("traceparent-frame-re-entered");
            }
        }
    }
}

struct Env<'a> {
    vars: Vec<Option<FVar<'a>>>,
}

impl<'a> Env<'a> {
    fn new(n: usize) -> Self {
        Env { vars: (0..n).map(|_| None).collect() }
    }

    /// Frames that travelled with another thread / closure come home.
    fn absorb(&mut self, other: Env<'a>) {
        for (i, v) in other.vars.into_iter().enumerate() {
            if v.is_some() && self.vars[i].is_none() {
                self.vars[i] = v;
            }
        }
    }
}

// ---------------------------------------------------------------------------
// programs
// ---------------------------------------------------------------------------

#[derive(Debug, Hash)]
enum Op {
    /// `ids`: (trace id, span id, as hex text instead of typed values) added to the frame's props
    Create { var: usize, inst: usize, h: H, kind: FK, props: OwnProps, ids: Option<(u128, u64, bool)> },
    Guard { var: usize, body: Vec<Op> },
    With { var: usize, body: Vec<Op> },
    Call { var: usize, body: Vec<Op> },
    InFn { var: usize, thread: bool, moved: Vec<usize>, body: Vec<Op> },
    Tasks { tasks: Vec<TaskDef>, order_seed: u64, cancel_pct: u64, migrate_after: Option<u32> },
    Spawn { moved: Vec<usize>, child: Vec<Op>, meanwhile: Vec<Op> },
    Catch { body: Vec<Op> },
    Panic,
    Drop { var: usize },
    Emit { inst: usize },
}

#[derive(Debug, Hash)]
struct TaskDef {
    var: usize,
    moved: Vec<usize>,
    body: Vec<AItem>,
    /// drop the frame-wrapped future once it has been polled this many times (0 = never polled)
    /// if it has not completed by then
    drop_after: Option<u8>,
}

#[derive(Debug, Hash)]
enum AItem {
    Sync(Vec<Op>),
    Yield,
    Nested { var: usize, body: Vec<AItem> },
}

#[derive(Debug, Hash)]
struct Program {
    insts: Vec<InstDef>,
    /// run the whole program on a freshly spawned thread (which also creates the
    /// `Place::ProgramThread` instances) instead of the long-lived worker thread
    fresh_thread: bool,
    n_vars: usize,
    ops: Vec<Op>,
}

/// On which thread an instance's `ThreadLocalCtxt::new()` / `shared()` call is made. The ctxt is
/// `Copy + Send`: wherever it was made, it is *used* together with the others by the program.
#[derive(Clone, Copy, Debug, PartialEq, Eq, Hash)]
enum Place {
    /// the long-lived par_cases worker thread (many earlier `new()` calls happened there)
    Worker,
    /// a helper thread of its own that does nothing else and sends the ctxt back over a channel
    OwnHelper,
    /// one sibling helper thread shared by all `Sibling` instances of the program
    Sibling,
    /// the thread that then runs the program (a fresh one if `fresh_thread`)
    ProgramThread,
}

impl Place {
    fn name(self) -> &'static str {
        match self {
            Place::Worker => "instance-created-on:worker-thread",
            Place::OwnHelper => "instance-created-on:own-helper-thread",
            Place::Sibling => "instance-created-on:shared-sibling-thread",
            Place::ProgramThread => "instance-created-on:program-thread",
        }
    }
}

/// How the `ThreadLocalCtxt` of an instance comes into being. Identity oracle (from the type's
/// documentation: `new()` = "fully isolated storage", `shared()` = "sharing the same storage as any
/// other `shared()`", and a `Copy` type whose copies are the value itself): two instances are THE
/// SAME context iff one is a copy / clone of the other or both are `shared()`; anything else -
/// including two `default()`s, `default()` next to `shared()`, two `emit::setup()` runtimes - is
/// isolated.
#[derive(Clone, Copy, Debug, PartialEq, Eq, Hash)]
enum Route {
    /// `ThreadLocalCtxt::new()`
    New,
    /// `ThreadLocalCtxt::shared()`
    Shared,
    /// `<ThreadLocalCtxt as Default>::default()`
    Default,
    /// `emit::setup()` (= `Setup::new()`, which builds its ctxt with `Default::default()`) initialised
    /// into the instance's own `AmbientSlot` with `init_slot`: an application's and a library's runtime
    SetupSlot,
    /// a copy (`let b = a;`) of the earlier instance with that index
    CopyOf(usize),
    /// `a.clone()` of the earlier instance with that index
    CloneOf(usize),
}

impl Route {
    fn base(self) -> Option<usize> {
        match self {
            Route::CopyOf(j) | Route::CloneOf(j) => Some(j),
            _ => None,
        }
    }
}

/// The name of a route as signatures and evidence show it (`copy-of-default`, ...).
fn route_name(defs: &[InstDef], i: usize) -> String {
    match defs[i].route {
        Route::New => "new".into(),
        Route::Shared => "shared".into(),
        Route::Default => "default".into(),
        Route::SetupSlot => "setup-slot".into(),
        Route::CopyOf(j) => format!("copy-of-{}", route_name(defs, j)),
        Route::CloneOf(j) => format!("clone-of-{}", route_name(defs, j)),
    }
}

/// The identity oracle: the class (smallest member index) of every instance.
fn classes(defs: &[InstDef]) -> Vec<usize> {
    let mut cls: Vec<usize> = Vec::new();
    for (i, d) in defs.iter().enumerate() {
        let c = match d.route {
            Route::CopyOf(j) | Route::CloneOf(j) => cls[j],
            Route::Shared => defs[..i].iter().position(|e| e.route == Route::Shared).map(|j| cls[j]).unwrap_or(i),
            Route::New | Route::Default | Route::SetupSlot => i,
        };
        cls.push(c);
    }
    cls
}

#[derive(Clone, Copy, Debug, Hash)]
struct InstDef {
    route: Route,
    slot_kind: u8,
    place: Place,
    /// the instance is `TraceparentCtxt<ThreadLocalCtxt>` instead of a plain `ThreadLocalCtxt`
    tp: bool,
}

#[derive(Clone, Copy, PartialEq)]
enum VS {
    None,
    Free,
    Busy,
    Dead,
}

#[derive(Clone)]
struct Scope {
    st: Vec<VS>,
}

impl Scope {
    fn free(&self) -> Vec<usize> {
        self.st.iter().enumerate().filter(|(_, s)| **s == VS::Free).map(|(i, _)| i).collect()
    }

    fn set(&mut self, v: usize, s: VS) {
        if self.st.len() <= v {
            self.st.resize(v + 1, VS::None);
        }
        self.st[v] = s;
    }

    fn get(&self, v: usize) -> VS {
        self.st.get(v).copied().unwrap_or(VS::None)
    }
}

struct Gen<'r> {
    r: &'r mut Rng,
    n_inst: usize,
    n_vars: usize,
    budget: i64,
    max_depth: usize,
}

const KEYS: [&str; 8] = ["k0", "k1", "k2", "k3", "k4", "k5", "k6", "k7"];

impl<'r> Gen<'r> {
    fn props(&mut self) -> OwnProps {
        let n = *self.r.pick(&[0usize, 1, 1, 1, 2, 2, 3, 4, 8]);
        let mut keys: Vec<&str> = KEYS.to_vec();
        self.r.shuffle(&mut keys);
        keys.truncate(n);
        keys.into_iter()
            .map(|k| {
                let v = match self.r.below(8) {
                    0..=3 => Val::I(self.r.irange(-3, 40)),
                    4 => Val::S(String::new()),
                    5 => Val::S(format!("s{}\u{e9}", self.r.below(50))),
                    6 => Val::T(TraceId::from_u128(self.r.next() as u128 | 1).unwrap()),
                    _ => Val::P(SpanId::from_u64(self.r.next() | 1).unwrap()),
                };
                (k.to_string(), v)
            })
            .collect()
    }

    fn new_var(&mut self, sc: &mut Scope) -> usize {
        let v = self.n_vars;
        self.n_vars += 1;
        sc.set(v, VS::Free);
        v
    }

    fn create(&mut self, sc: &mut Scope) -> (usize, Op) {
        let var = self.new_var(sc);
        let kind = *self.r.pick(&[FK::Push, FK::Push, FK::Push, FK::Push, FK::Root, FK::Root, FK::Disabled, FK::Disabled, FK::Current]);
        let props = if kind == FK::Current { Vec::new() } else { self.props() };
        self.budget -= 1;
        // both ids or neither, never equal to an earlier span id (fresh 64 random bits)
        let ids = if kind != FK::Current && self.r.chance(1, 3) {
            Some((((self.r.next() as u128) << 64) | self.r.next() as u128 | 1, self.r.next() | 1, self.r.bool()))
        } else {
            None
        };
        (var, Op::Create { var, inst: self.r.usize(self.n_inst), h: *self.r.pick(&HANDLES), kind, props, ids })
    }

    fn take_some(&mut self, sc: &mut Scope, max: usize, to: VS) -> Vec<usize> {
        let mut free = sc.free();
        self.r.shuffle(&mut free);
        let n = self.r.usize(max + 1).min(free.len());
        free.truncate(n);
        for v in &free {
            sc.set(*v, to);
        }
        free
    }

    fn body(&mut self, sc: &mut Scope, depth: usize, catching: bool, hint: usize) -> (Vec<Op>, bool) {
        if depth < self.max_depth && self.budget > 0 {
            self.block(sc, depth + 1, catching, hint)
        } else {
            (Vec::new(), false)
        }
    }

    fn block(&mut self, sc: &mut Scope, depth: usize, catching: bool, hint: usize) -> (Vec<Op>, bool) {
        let n = 1 + self.r.usize(hint.max(1));
        let mut ops = Vec::new();
        for _ in 0..n {
            if self.budget <= 0 {
                break;
            }
            let panicked = self.op(sc, depth, catching, &mut ops);
            if panicked {
                return (ops, true);
            }
        }
        (ops, false)
    }

    /// Appends one op (sometimes preceded by the creates it needs); true if control cannot
    /// continue past it because a seeded panic unwinds through this block.
    fn op(&mut self, sc: &mut Scope, depth: usize, catching: bool, out: &mut Vec<Op>) -> bool {
        let free = sc.free();
        let deeper = depth < self.max_depth;
        let weights = [
            ("create", if self.n_vars < 24 { 26 } else { 0 }),
            ("enter", if free.is_empty() { 0 } else { 46 }),
            ("tasks", if deeper { 6 } else { 0 }),
            ("spawn", if deeper { 6 } else { 0 }),
            ("catch", if deeper { 7 } else { 0 }),
            ("panic", if catching { 4 } else { 0 }),
            ("drop", if free.is_empty() { 0 } else { 3 }),
            ("emit", 6),
        ];
        let total: u64 = weights.iter().map(|w| w.1).sum();
        let mut x = self.r.below(total);
        let mut choice = "emit";
        for (name, w) in weights {
            if x < w {
                choice = name;
                break;
            }
            x -= w;
        }
        match choice {
            "create" => {
                let (_, op) = self.create(sc);
                out.push(op);
                false
            }
            "enter" => {
                let var = *self.r.pick(&free);
                self.budget -= 1;
                match self.r.below(100) {
                    0..=29 => {
                        sc.set(var, VS::Busy);
                        let (body, p) = self.body(sc, depth, catching, 4);
                        sc.set(var, if p { VS::Dead } else { VS::Free });
                        out.push(Op::Guard { var, body });
                        p
                    }
                    30..=47 => {
                        sc.set(var, VS::Busy);
                        let (body, p) = self.body(sc, depth, catching, 3);
                        sc.set(var, if p { VS::Dead } else { VS::Free });
                        out.push(Op::With { var, body });
                        p
                    }
                    48..=65 => {
                        sc.set(var, VS::Dead);
                        let (body, p) = self.body(sc, depth, catching, 4);
                        out.push(Op::Call { var, body });
                        p
                    }
                    66..=82 => {
                        sc.set(var, VS::Dead);
                        if self.r.chance(1, 2) {
                            let (body, p) = self.body(sc, depth, catching, 4);
                            out.push(Op::InFn { var, thread: false, moved: Vec::new(), body });
                            p
                        } else {
                            let moved = self.take_some(sc, 2, VS::Busy);
                            let mut child = Scope { st: Vec::new() };
                            for v in &moved {
                                child.set(*v, VS::Free);
                            }
                            let (body, _) = self.body(&mut child, depth, false, 4);
                            self.rejoin(sc, &child);
                            out.push(Op::InFn { var, thread: true, moved, body });
                            false
                        }
                    }
                    _ => {
                        // a single frame-wrapped future
                        sc.set(var, VS::Busy);
                        let t = self.task(sc, var, depth);
                        out.push(Op::Tasks { tasks: vec![t], order_seed: self.r.next(), cancel_pct: 0, migrate_after: self.migrate() });
                        false
                    }
                }
            }
            "tasks" => {
                self.budget -= 1;
                let n = 2 + self.r.usize(4);
                let mut vars = Vec::new();
                for _ in 0..n {
                    let free = sc.free();
                    if !free.is_empty() && self.r.chance(1, 2) {
                        let v = *self.r.pick(&free);
                        sc.set(v, VS::Busy);
                        vars.push(v);
                    } else {
                        let (v, op) = self.create(sc);
                        out.push(op);
                        sc.set(v, VS::Busy);
                        vars.push(v);
                    }
                }
                let tasks = vars.into_iter().map(|v| self.task(sc, v, depth)).collect();
                let cancel_pct = *self.r.pick(&[0, 0, 15]);
                out.push(Op::Tasks { tasks, order_seed: self.r.next(), cancel_pct, migrate_after: self.migrate() });
                false
            }
            "spawn" => {
                self.budget -= 1;
                let moved = self.take_some(sc, 3, VS::Busy);
                let mut child = Scope { st: Vec::new() };
                for v in &moved {
                    child.set(*v, VS::Free);
                }
                let (child_ops, _) = self.block(&mut child, depth + 1, false, 4);
                let (meanwhile, p) = self.body(sc, depth, catching, 2);
                if p {
                    // the unwinding parent drops whatever the child would have handed back
                    for (v, s) in child.st.iter().enumerate() {
                        if *s != VS::None {
                            sc.set(v, VS::Dead);
                        }
                    }
                } else {
                    self.rejoin(sc, &child);
                }
                out.push(Op::Spawn { moved, child: child_ops, meanwhile });
                p
            }
            "catch" => {
                self.budget -= 1;
                let (mut body, p) = self.block(sc, depth + 1, true, 4);
                if !p {
                    body.push(Op::Panic);
                }
                out.push(Op::Catch { body });
                false
            }
            "panic" => {
                self.budget -= 1;
                out.push(Op::Panic);
                true
            }
            "drop" => {
                let var = *self.r.pick(&free);
                sc.set(var, VS::Dead);
                self.budget -= 1;
                out.push(Op::Drop { var });
                false
            }
            _ => {
                self.budget -= 1;
                out.push(Op::Emit { inst: self.r.usize(self.n_inst) });
                false
            }
        }
    }

    fn migrate(&mut self) -> Option<u32> {
        if self.r.chance(1, 4) {
            Some(1 + self.r.below(3) as u32)
        } else {
            None
        }
    }

    /// States of the frames a finished thread hands back.
    fn rejoin(&mut self, sc: &mut Scope, child: &Scope) {
        for (v, s) in child.st.iter().enumerate() {
            match s {
                VS::Free => sc.set(v, VS::Free),
                VS::None => {}
                _ => sc.set(v, VS::Dead),
            }
        }
    }

    fn task(&mut self, sc: &mut Scope, var: usize, depth: usize) -> TaskDef {
        sc.set(var, VS::Dead);
        let moved = self.take_some(sc, 2, VS::Dead);
        let mut tsc = Scope { st: Vec::new() };
        for v in &moved {
            tsc.set(*v, VS::Free);
        }
        let body = self.items(&mut tsc, depth + 1);
        let drop_after = *self.r.pick(&[None, None, None, None, Some(0), Some(1), Some(2)]);
        TaskDef { var, moved, body, drop_after }
    }

    fn items(&mut self, sc: &mut Scope, depth: usize) -> Vec<AItem> {
        let n = 1 + self.r.usize(4);
        let mut items = Vec::new();
        for _ in 0..n {
            self.budget -= 1;
            match self.r.below(100) {
                0..=44 => {
                    let (ops, p) = if self.budget > 0 { self.block(sc, depth, true, 3) } else { (Vec::new(), false) };
                    items.push(AItem::Sync(ops));
                    if p {
                        break;
                    }
                }
                45..=84 => items.push(AItem::Yield),
                _ => {
                    if depth >= self.max_depth {
                        items.push(AItem::Yield);
                        continue;
                    }
                    let free = sc.free();
                    let var = if !free.is_empty() && self.r.chance(2, 3) {
                        *self.r.pick(&free)
                    } else {
                        let (v, op) = self.create(sc);
                        items.push(AItem::Sync(vec![op]));
                        v
                    };
                    sc.set(var, VS::Dead);
                    let body = self.items(sc, depth + 1);
                    items.push(AItem::Nested { var, body });
                }
            }
        }
        items
    }
}

fn generate(r: &mut Rng, min_ops: u64, max_ops: u64) -> Program {
    let n_inst = 2 + r.usize(3);
    let mut insts: Vec<InstDef> = Vec::new();
    for i in 0..n_inst {
        // every construction route of a `ThreadLocalCtxt`; copies / clones always name the instance
        // that was really constructed (never another copy)
        let route = match r.below(100) {
            0..=33 => Route::New,
            34..=53 => Route::Default,
            54..=65 => Route::SetupSlot,
            66..=80 => Route::Shared,
            _ if i > 0 => {
                let j = r.usize(i);
                let j = insts[j].route.base().unwrap_or(j);
                if r.bool() {
                    Route::CopyOf(j)
                } else {
                    Route::CloneOf(j)
                }
            }
            _ => Route::Default,
        };
        let place = *r.pick(&[Place::Worker, Place::OwnHelper, Place::OwnHelper, Place::Sibling, Place::Sibling, Place::ProgramThread]);
        insts.push(InstDef {
            route,
            slot_kind: r.below(3) as u8,
            // `emit::setup()` runs, and copies are taken, on the thread that runs the program
            place: if make_ctxt_elsewhere(route) { place } else { Place::ProgramThread },
            tp: r.chance(1, 3),
        });
    }
    let fresh_thread = r.chance(1, 3);
    let budget = r.range(min_ops.max(1), max_ops.max(min_ops).max(1)) as i64;
    let mut g = Gen { r, n_inst, n_vars: 0, budget, max_depth: 8 };
    let mut sc = Scope { st: Vec::new() };
    let mut ops = Vec::new();
    while g.budget > 0 {
        g.op(&mut sc, 0, false, &mut ops);
    }
    let _ = sc.get(0);
    Program { insts, fresh_thread, n_vars: g.n_vars, ops }
}

// ---------------------------------------------------------------------------
// per-thread monitor state (model + findings); merged when the thread ends
// ---------------------------------------------------------------------------

struct Viol {
    sig: String,
    what: String,
    detail: Json,
}

#[derive(Default)]
struct Ts {
    /// one model stack per identity class (indexed by the class = its smallest instance index)
    stacks: Vec<Vec<(AMap, FK)>>,
    /// instance index -> identity class (copy of `Cx::cls`)
    cls: Vec<usize>,
    /// the thread's traceparent stack (one per thread, shared by every traceparent instance)
    tp: Vec<TpVal>,
    viols: Vec<Viol>,
    /// (name, count); a short linear scan is far cheaper under Miri than a map
    counters: Vec<(&'static str, u64)>,
    max_depth: usize,
    thread: &'static str,
}

impl Ts {
    fn count(&mut self, name: &'static str, n: u64) {
        match self.counters.iter_mut().find(|(k, _)| *k == name) {
            Some((_, c)) => *c += n,
            None => self.counters.push((name, n)),
        }
    }

    fn depths(&self) -> [usize; MAXI + 1] {
        let mut d = [0; MAXI + 1];
        for (i, s) in self.stacks.iter().enumerate() {
            d[i] = s.len();
        }
        d[TPD] = self.tp.len();
        d
    }

    fn truncate(&mut self, d: &[usize; MAXI + 1]) {
        for (i, s) in self.stacks.iter_mut().enumerate() {
            s.truncate(d[i]);
        }
        self.tp.truncate(d[TPD]);
    }

    /// What instance `inst` must show right now.
    fn expected(&self, cx: &Cx, inst: usize) -> (AMap, &'static str) {
        let (inner, kind) = match self.stacks[self.cls[inst]].last() {
            Some((m, k)) => (m.clone(), k.name()),
            None => (AMap::default(), "none"),
        };
        match (cx.insts[inst].is_tp(), self.tp.last()) {
            (true, Some(tp)) if tp.flags & 1 == 1 => {
                let mut m = (*inner).clone();
                tp.overlay(&mut m);
                (Arc::new(m), kind)
            }
            _ => (inner, kind),
        }
    }
}

thread_local! {
    static TS: RefCell<Ts> = RefCell::new(Ts::default());
    static ROT: Cell<usize> = const { Cell::new(0) };
}

fn ts<R>(f: impl FnOnce(&mut Ts) -> R) -> R {
    TS.with(|t| f(&mut t.borrow_mut()))
}

fn bump(name: &'static str) {
    ts(|t| t.count(name, 1))
}

fn top(inst: usize) -> AMap {
    ts(|t| t.stacks[t.cls[inst]].last().map(|(m, _)| m.clone())).unwrap_or_default()
}

struct Cx {
    insts: Vec<Inst>,
    defs: Vec<InstDef>,
    /// the identity oracle: instances with the same class are the same context and share one model stack
    cls: Vec<usize>,
    /// the program uses a construction route other than `new()` / one `shared()`: signatures name the routes
    routes_named: bool,
    any_tp: bool,
    n_vars: usize,
    seed: u64,
    index: u64,
    min_ops: u64,
    max_ops: u64,
    check_every: usize,
    /// `Some(name)`: not a generated program but the fixed fragment of that name
    fixed: Option<&'static str>,
    done: Mutex<Vec<Ts>>,
}

impl Cx {
    fn case(&self) -> Json {
        json!({"seed": self.seed, "index": self.index, "min_ops": self.min_ops, "max_ops": self.max_ops, "check_every": self.check_every,
               "fixed_program": self.fixed})
    }
}

fn diff_class(got: &Map, want: &Map) -> &'static str {
    if got.keys().any(|k| !want.contains_key(k)) {
        "extra-props"
    } else if want.keys().any(|k| !got.contains_key(k)) {
        "missing-props"
    } else {
        "wrong-value"
    }
}

fn compare(cx: &Cx, site: &'static str, inst: usize, via: &str, got: &Map) {
    ts(|t| {
        let (want, kind) = t.expected(cx, inst);
        if *got != *want {
            let class = diff_class(got, &want);
            let thread = t.thread;
            let mut flavour = if cx.insts[inst].is_tp() { ":ctxt=traceparent".to_string() } else { String::new() };
            if cx.routes_named {
                // which construction routes are involved: this instance's, and - if what it wrongly
                // shows (or lacks) is exactly what another instance holds - that instance's too
                let mine = route_name(&cx.defs, inst);
                let wrong = |m: &Map, k: &String, v: &String| m.get(k) != Some(v);
                let others = || (0..cx.insts.len()).filter(|j| *j != inst);
                // isolated by the oracle, yet everything `got` has beyond `want` is what they hold
                let leaked_from = others().filter(|j| t.cls[*j] != t.cls[inst]).find(|j| {
                    let (theirs, _) = t.expected(cx, *j);
                    let mut extra = got.iter().filter(|(k, v)| wrong(&*want, k, v)).peekable();
                    extra.peek().is_some() && extra.all(|(k, v)| !wrong(&*theirs, k, v))
                });
                // the same context by the oracle, but this copy of it lacks what the model says it holds
                let other = leaked_from.or_else(|| others().filter(|_| class != "extra-props").find(|j| t.cls[*j] == t.cls[inst]));
                let mut names = vec![mine];
                if let Some(j) = other {
                    names.push(route_name(&cx.defs, j));
                    names.sort();
                }
                flavour = format!("{}{}{}", if flavour.is_empty() { ":ctxt=" } else { ":ctxt=traceparent/" }, names[0], names.get(1).map(|n| format!("+{}", n)).unwrap_or_default());
            }
            t.viols.push(Viol {
                sig: format!("C03:{}:{}:innermost={}{}", site, class, kind, flavour),
                what: format!(
                    "at program point `{}` on thread `{}` instance {} (read through {}) shows {:?} but the innermost active frame ({}) has {:?}",
                    site, thread, inst, via, got, kind, want
                ),
                detail: json!({"site": site, "thread": thread, "instance": inst, "via": via, "got": got, "want": *want,
                               "traceparent_instance": cx.insts[inst].is_tp(), "model_traceparent": format!("{:?}", t.tp.last()),
                               "shared_instance": cx.insts[inst].shared, "slot_kind": cx.insts[inst].slot_kind,
                               "instance_routes": (0..cx.defs.len()).map(|i| route_name(&cx.defs, i)).collect::<Vec<_>>(), "identity_classes": cx.cls,
                               "instances_created_on": cx.insts.iter().map(|i| i.place.name()).collect::<Vec<_>>()}),
            });
        }
    })
}

/// The oracle's observation point: every instance, through a rotating handle.
fn check(cx: &Cx, site: &'static str) {
    let rot = ROT.with(|c| {
        c.set(c.get().wrapping_add(1));
        c.get()
    });
    // `--check-every K` (Miri lanes only, where one read costs ~30 ms): look at every K-th
    // program point of each thread so that more programs fit into the lane
    if cx.check_every > 1 && rot % cx.check_every != 0 && site != "thread-end" && site != "future-drop:inside-frame" {
        return;
    }
    for (i, inst) in cx.insts.iter().enumerate() {
        let h = HANDLES[(rot + i * 5) % HANDLES.len()];
        let got = inst.read(h);
        compare(cx, site, i, h.name(), &got);
    }
    compare_traceparent(cx, site);
    ts(|t| {
        t.count("program-points-checked", 1);
        t.count("with_current-reads", cx.insts.len() as u64);
    });
}

/// `Traceparent::current()` against the model: the innermost active frame that set a traceparent
/// wins; none -> the empty traceparent.
fn compare_traceparent(cx: &Cx, site: &'static str) {
    if !cx.any_tp {
        return;
    }
    let cur = Traceparent::current();
    let got = (cur.trace_id().copied(), cur.span_id().copied(), cur.trace_flags().to_u8());
    ts(|t| {
        t.count("Traceparent::current-reads", 1);
        // with nothing active `current()` is the empty traceparent: no ids (its flags are not constrained)
        let want = match t.tp.last() {
            Some(tp) => (Some(tp.trace), Some(tp.span), tp.flags),
            None => (None, None, got.2),
        };
        if got != want {
            let class = match (got.1.is_some(), want.1.is_some()) {
                (true, false) => "leaked",
                (false, true) => "lost",
                _ => "wrong",
            };
            let thread = t.thread;
            t.viols.push(Viol {
                sig: format!("C03:{}:traceparent-current-{}:ctxt=traceparent", site, class),
                what: format!(
                    "at program point `{}` on thread `{}` Traceparent::current() is {} but the innermost active frame that set a traceparent has {:?}",
                    site, thread, cur, t.tp.last()
                ),
                detail: json!({"site": site, "thread": thread, "got": cur.to_string(), "want": format!("{:?}", t.tp.last())}),
            });
        }
    })
}

fn check_all_handles(cx: &Cx, site: &'static str) {
    for (i, inst) in cx.insts.iter().enumerate() {
        for h in HANDLES {
            let got = inst.read(h);
            compare(cx, site, i, h.name(), &got);
        }
    }
    compare_traceparent(cx, site);
    ts(|t| {
        t.count("program-points-checked", 1);
        t.count("with_current-reads", (cx.insts.len() * HANDLES.len()) as u64);
    });
}

/// The model side of "this frame is now the innermost one". Dropped during unwinding it checks
/// that everything entered inside it is gone while the frame itself is still visible.
struct ModelScope<'c> {
    cx: &'c Cx,
    inst: usize,
    set_tp: bool,
    depths: [usize; MAXI + 1],
    armed: bool,
}

impl<'c> ModelScope<'c> {
    fn push(cx: &'c Cx, inst: usize, map: &AMap, kind: FK, slot: Option<TpVal>) -> Self {
        let depths = ts(|t| {
            let class = t.cls[inst];
            t.stacks[class].push((map.clone(), kind));
            if let Some(tp) = slot {
                t.tp.push(tp);
            }
            let d = t.depths();
            t.max_depth = t.max_depth.max(d[..MAXI].iter().sum());
            d
        });
        ModelScope { cx, inst, set_tp: slot.is_some(), depths, armed: true }
    }

    fn pop(mut self) {
        self.armed = false;
        let inst = self.inst;
        let want = self.depths;
        let set_tp = self.set_tp;
        let ok = ts(|t| {
            let ok = t.depths() == want;
            let class = t.cls[inst];
            t.stacks[class].pop();
            if set_tp {
                t.tp.pop();
            }
            ok
        });
        if !ok {
            bump("monitor-model-out-of-step");
        }
    }
}

impl Drop for ModelScope<'_> {
    fn drop(&mut self) {
        if self.armed {
            let d = self.depths;
            ts(|t| t.truncate(&d));
            bump("checks-during-unwinding");
            check(self.cx, "during-unwinding");
            let inst = self.inst;
            let set_tp = self.set_tp;
            ts(|t| {
                let class = t.cls[inst];
                t.stacks[class].pop();
                if set_tp {
                    t.tp.pop();
                }
            });
        }
    }
}

/// Run `f` as the whole life of one thread of the program: nothing visible before, nothing after.
fn run_thread<R>(cx: &Cx, name: &'static str, f: impl FnOnce() -> R) -> R {
    let prev = TS.with(|t| {
        std::mem::replace(
            &mut *t.borrow_mut(),
            Ts { stacks: (0..cx.insts.len()).map(|_| Vec::new()).collect(), cls: cx.cls.clone(), thread: name, ..Ts::default() },
        )
    });
    struct Finish<'c>(&'c Cx, Option<Ts>);
    impl Drop for Finish<'_> {
        fn drop(&mut self) {
            // also runs when the thread's body unwinds: the findings must not be lost
            let prev = self.1.take().unwrap_or_default();
            let mine = TS.with(|t| std::mem::replace(&mut *t.borrow_mut(), prev));
            if let Ok(mut d) = self.0.done.lock() {
                d.push(mine);
            }
        }
    }
    let _fin = Finish(cx, Some(prev));
    // the handle rotation is a function of the program alone, so a replay reads through the same handles
    ROT.with(|c| c.set(cx.index as usize));
    check(cx, "thread-start");
    let r = f();
    ts(|t| {
        if t.stacks.iter().any(|s| !s.is_empty()) {
            t.count("monitor-model-out-of-step", 1);
        }
    });
    if cx.check_every == 1 || name == "main" {
        check_all_handles(cx, "thread-end");
    } else {
        check(cx, "thread-end");
    }
    r
}

// ---------------------------------------------------------------------------
// the interpreter
// ---------------------------------------------------------------------------

fn exec_block<'a>(cx: &'a Cx, ops: &'a [Op], env: &mut Env<'a>, start: &'static str) {
    check(cx, start);
    for op in ops {
        let after = exec_op(cx, op, env);
        check(cx, after);
    }
}

fn exec_op<'a>(cx: &'a Cx, op: &'a Op, env: &mut Env<'a>) -> &'static str {
    match op {
        Op::Create { var, inst, h, kind, props, ids } => {
            let visible = top(*inst);
            let is_tp = cx.insts[*inst].is_tp();
            // the props handed to the real frame: the frame's own, plus the ids (typed or hex text)
            let with_ids: OwnProps;
            let real_props: &[(String, Val)] = match ids {
                Some((t, sp, hex)) => {
                    let (t, sp) = (TraceId::from_u128(*t).unwrap(), SpanId::from_u64(*sp).unwrap());
                    let mut p = props.clone();
                    if *hex {
                        p.push(("trace_id".into(), Val::S(t.to_string())));
                        p.push(("span_id".into(), Val::S(sp.to_string())));
                    } else {
                        p.push(("trace_id".into(), Val::T(t)));
                        p.push(("span_id".into(), Val::P(sp)));
                    }
                    bump(if *hex { "create:with-trace-ids-as-hex-text" } else { "create:with-typed-trace-ids" });
                    with_ids = p;
                    &with_ids
                }
                None => props,
            };
            // a plain ctxt treats the ids as ordinary properties; the traceparent ctxt moves them
            // into the frame's traceparent slot and keeps them out of the wrapped ctxt
            let model_props: &[(String, Val)] = if is_tp { props } else { real_props };
            let map = match kind {
                FK::Push => {
                    let mut m = (*visible).clone();
                    for (k, v) in model_props {
                        m.insert(k.clone(), v.text());
                    }
                    Arc::new(m)
                }
                FK::Root => Arc::new(model_props.iter().map(|(k, v)| (k.clone(), v.text())).collect()),
                FK::Disabled | FK::Current => visible.clone(),
            };
            let slot = if is_tp {
                let active = ts(|t| t.tp.last().copied());
                match ids {
                    Some((t, sp, _)) => {
                        let span = SpanId::from_u64(*sp).unwrap();
                        let keep = if *kind == FK::Disabled { 0 } else { 0xff };
                        // how a child relates to its parent is C04 / C18's business and is taken
                        // as implemented: same trace and flags, parent = the active span
                        Some(match active {
                            Some(a) => TpVal { trace: a.trace, span, parent: Some(a.span), flags: a.flags & keep },
                            None => TpVal { trace: TraceId::from_u128(*t).unwrap(), span, parent: None, flags: 1 & keep },
                        })
                    }
                    // no ids of its own: a pushed / disabled / current frame carries what was
                    // active when it was created, a root frame leaves the traceparent alone
                    None if *kind == FK::Root => None,
                    None => active,
                }
            } else {
                None
            };
            let frame = create(&cx.insts[*inst], *h, *kind, real_props);
            if is_tp {
                bump("create:on-traceparent-instance");
                if slot.is_some() {
                    bump("create:frame-that-sets-a-traceparent");
                }
            }
            env.vars[*var] = Some(FVar {
                frame,
                map,
                slot,
                inst: *inst,
                kind: *kind,
                created_under: visible,
                created_on: std::thread::current().id(),
                entries: 0,
            });
            bump(match kind {
                FK::Push => "create:push",
                FK::Root => "create:root",
                FK::Disabled => "create:disabled",
                FK::Current => "create:current",
            });
            bump(h.name());
            "after-create"
        }
        Op::Guard { var, body } => {
            let Some(mut fv) = env.vars[*var].take() else {
                bump("ops-skipped");
                return "after-skipped-op";
            };
            fv.note_entry();
            each_frame!(&mut fv.frame, f => {
                let mut g = f.enter();
                let m = ModelScope::push(cx, fv.inst, &fv.map, fv.kind, fv.slot);
                let seen = g.with(|cur| to_map(cur));
                compare(cx, "guard.with", fv.inst, "EnterGuard::with", &seen);
                exec_block(cx, body, env, "inside-guard");
                m.pop();
                drop(g);
            });
            env.vars[*var] = Some(fv);
            bump("enter:guard");
            "after-guard-drop"
        }
        Op::With { var, body } => {
            let Some(mut fv) = env.vars[*var].take() else {
                bump("ops-skipped");
                return "after-skipped-op";
            };
            fv.note_entry();
            let (inst, kind, slot) = (fv.inst, fv.kind, fv.slot);
            let map = fv.map.clone();
            each_frame!(&mut fv.frame, f => f.with(|cur| {
                let m = ModelScope::push(cx, inst, &map, kind, slot);
                let seen = to_map(cur);
                compare(cx, "frame.with", inst, "Frame::with", &seen);
                exec_block(cx, body, env, "inside-with");
                m.pop();
            }));
            env.vars[*var] = Some(fv);
            bump("enter:with");
            "after-with"
        }
        Op::Call { var, body } => {
            let Some(mut fv) = env.vars[*var].take() else {
                bump("ops-skipped");
                return "after-skipped-op";
            };
            fv.note_entry();
            let FVar { frame, map, inst, kind, slot, .. } = fv;
            each_frame!(frame, f => f.call(|| {
                let m = ModelScope::push(cx, inst, &map, kind, slot);
                exec_block(cx, body, env, "inside-call");
                m.pop();
            }));
            bump("enter:call");
            "after-call"
        }
        Op::InFn { var, thread: false, body, .. } => {
            let Some(mut fv) = env.vars[*var].take() else {
                bump("ops-skipped");
                return "after-skipped-op";
            };
            fv.note_entry();
            let FVar { frame, map, inst, kind, slot, .. } = fv;
            each_frame!(frame, f => {
                let func = f.in_fn(|| {
                    let m = ModelScope::push(cx, inst, &map, kind, slot);
                    exec_block(cx, body, env, "inside-fn");
                    m.pop();
                });
                check(cx, "after-in_fn-created");
                func()
            });
            bump("enter:in_fn");
            "after-fn"
        }
        Op::InFn { var, thread: true, moved, body } => {
            let Some(fv) = env.vars[*var].take() else {
                bump("ops-skipped");
                return "after-skipped-op";
            };
            let mut child_env = Env::new(cx.n_vars);
            for v in moved {
                child_env.vars[*v] = env.vars[*v].take();
            }
            let FVar { frame, map, inst, kind, slot, .. } = fv;
            let back = each_frame!(frame, f => {
                let func = f.in_fn(move || {
                    let m = ModelScope::push(cx, inst, &map, kind, slot);
                    exec_block(cx, body, &mut child_env, "inside-fn-on-thread");
                    m.pop();
                    child_env
                });
                std::thread::scope(|s| {
                    let h = s.spawn(move || run_thread(cx, "in_fn-thread", func));
                    check(cx, "while-other-thread-runs");
                    h.join()
                })
            });
            match back {
                Ok(e) => env.absorb(e),
                Err(p) => unexpected_panic(cx, "in_fn-thread", &panic_message(&p)),
            }
            bump("enter:in_fn-on-thread");
            bump("nonlexical:thread-move");
            "after-fn-on-thread"
        }
        Op::Tasks { tasks, order_seed, cancel_pct, migrate_after } => {
            let mut futs = Vec::new();
            for def in tasks {
                if let Some(t) = build_task(cx, def, env) {
                    futs.push(t);
                } else {
                    bump("ops-skipped");
                }
            }
            check(cx, "after-futures-created");
            run_executor(cx, futs, Rng::new(*order_seed), *cancel_pct, *migrate_after);
            "after-executor"
        }
        Op::Spawn { moved, child, meanwhile } => {
            let mut child_env = Env::new(cx.n_vars);
            for v in moved {
                child_env.vars[*v] = env.vars[*v].take();
            }
            if !moved.is_empty() {
                bump("nonlexical:thread-move");
            }
            let back = std::thread::scope(|s| {
                let h = s.spawn(move || {
                    run_thread(cx, "spawned-thread", move || {
                        exec_block(cx, child, &mut child_env, "thread-body");
                        child_env
                    })
                });
                exec_block(cx, meanwhile, env, "while-other-thread-runs");
                h.join()
            });
            match back {
                Ok(e) => env.absorb(e),
                Err(p) => unexpected_panic(cx, "spawned-thread", &panic_message(&p)),
            }
            bump("threads-spawned");
            "after-join"
        }
        Op::Catch { body } => {
            let depths = ts(|t| t.depths());
            let res = catch(|| exec_block(cx, body, env, "inside-catch"));
            ts(|t| t.truncate(&depths));
            match res {
                Err(m) if m == SEEDED_PANIC => bump("nonlexical:panic-unwound"),
                Err(m) => unexpected_panic(cx, "catch-body", &m),
                Ok(()) => bump("monitor-model-out-of-step"),
            }
            "after-catch"
        }
        Op::Panic => {
            bump("panics-raised");
            panic!("{}", SEEDED_PANIC);
        }
        Op::Drop { var } => {
            env.vars[*var] = None;
            "after-frame-dropped"
        }
        Op::Emit { inst } => {
            let rt = cx.insts[*inst].slot.get();
            EVENTS.with(|e| e.borrow_mut().clear());
            emit::emit!(rt, "c03 point {c03_own}", c03_own: 1);
            let evs = EVENTS.with(|e| std::mem::take(&mut *e.borrow_mut()));
            if evs.len() == 1 {
                let mut m = evs.into_iter().next().unwrap();
                m.remove("c03_own");
                compare(cx, "event-props", *inst, "emit!(rt: slot.get())", &m);
                bump("events-compared");
            } else {
                bump("events-not-delivered-once");
            }
            "after-emit"
        }
    }
}

fn unexpected_panic(cx: &Cx, at: &'static str, msg: &str) {
    ts(|t| {
        t.viols.push(Viol {
            sig: format!("C03:unexpected-panic:{}", at),
            what: format!("a panic that the program did not raise itself escaped from {}: {}", at, msg),
            detail: json!({"site": at, "message": msg, "instances": cx.insts.len()}),
        })
    });
}

// ---- futures ----

type Task<'a> = Pin<Box<dyn Future<Output = ()> + Send + 'a>>;

struct YieldNow(bool);

impl Future for YieldNow {
    type Output = ();

    fn poll(mut self: Pin<&mut Self>, _: &mut Context<'_>) -> Poll<()> {
        if self.0 {
            Poll::Ready(())
        } else {
            self.0 = true;
            Poll::Pending
        }
    }
}

/// Sits directly inside a `FrameFuture`: the model's push / pop around every poll, and around
/// the drop of everything the future still holds (a `FrameFuture` drops its inner future with
/// its frame entered, so whatever completes while a future is cancelled still sees the frame).
struct Scoped<'c, F> {
    cx: &'c Cx,
    inst: usize,
    map: AMap,
    kind: FK,
    slot: Option<TpVal>,
    /// `Some` until dropped; only ever dropped in place
    fut: Option<F>,
}

impl<'c, F> Drop for Scoped<'c, F> {
    fn drop(&mut self) {
        // the probe at the top of the inner future: it must see this frame's view ...
        let m = ModelScope::push(self.cx, self.inst, &self.map, self.kind, self.slot);
        bump("future-drops-observed-from-inside");
        check(self.cx, "future-drop:inside-frame");
        // ... and so must everything nested in it (dropped in place: the future stays pinned)
        self.fut = None;
        check(self.cx, "future-drop:after-inner-dropped");
        m.pop();
    }
}

/// A value the futures hold across their suspension points; whenever it is dropped (completion,
/// cancellation after 0, 1, 2.. polls, unwinding) it looks at the ambient state.
struct DropProbe<'c> {
    cx: &'c Cx,
}

impl Drop for DropProbe<'_> {
    fn drop(&mut self) {
        bump("probes-dropped-inside-futures");
        check(self.cx, "future-drop:probe");
    }
}

impl<'c, F: Future<Output = ()>> Future for Scoped<'c, F> {
    type Output = ();

    fn poll(self: Pin<&mut Self>, c: &mut Context<'_>) -> Poll<()> {
        // SAFETY: `fut` is structurally pinned: it is never moved out of `self` (the `Drop` impl
        // drops it in place) and `Scoped` has no `Unpin` impl of its own.
        let this = unsafe { self.get_unchecked_mut() };
        let m = ModelScope::push(this.cx, this.inst, &this.map, this.kind, this.slot);
        check(this.cx, "poll-entered");
        let fut = unsafe { Pin::new_unchecked(this.fut.as_mut().expect("polled before drop")) };
        let r = fut.poll(c);
        check(this.cx, if r.is_ready() { "poll-returning-ready" } else { "poll-returning-pending" });
        m.pop();
        r
    }
}

fn run_items<'a, 'e>(cx: &'a Cx, items: &'a [AItem], env: &'e mut Env<'a>) -> Pin<Box<dyn Future<Output = ()> + Send + 'e>>
where
    'a: 'e,
{
    let probe = DropProbe { cx };
    Box::pin(async move {
        let _probe = probe;
        for item in items {
            match item {
                AItem::Sync(ops) => exec_block(cx, ops, env, "inside-future"),
                AItem::Yield => {
                    YieldNow(false).await;
                    check(cx, "resumed-after-yield");
                }
                AItem::Nested { var, body } => {
                    let Some(fv) = env.vars[*var].take() else {
                        bump("ops-skipped");
                        continue;
                    };
                    let FVar { frame, map, inst, kind, slot, .. } = fv;
                    bump("enter:in_future-nested");
                    each_frame!(frame, f => {
                        f.in_future(Scoped { cx, inst, map, kind, slot, fut: Some(run_items(cx, body, env)) }).await
                    });
                    check(cx, "after-nested-future");
                }
            }
        }
    })
}

struct Running<'a> {
    fut: Task<'a>,
    polls: u8,
    drop_after: Option<u8>,
}

fn build_task<'a>(cx: &'a Cx, def: &'a TaskDef, env: &mut Env<'a>) -> Option<Running<'a>> {
    let fv = env.vars[def.var].take()?;
    let mut tenv = Env::new(cx.n_vars);
    for v in &def.moved {
        tenv.vars[*v] = env.vars[*v].take();
    }
    if !def.moved.is_empty() {
        bump("frames-moved-into-task");
    }
    let FVar { frame, map, inst, kind, slot, .. } = fv;
    let body = &def.body;
    let probe = DropProbe { cx };
    let inner = Scoped {
        cx,
        inst,
        map,
        kind,
        slot,
        fut: Some(async move {
            let _probe = probe;
            let mut tenv = tenv;
            run_items(cx, body, &mut tenv).await;
        }),
    };
    bump("enter:in_future");
    let fut = each_frame!(frame, f => Box::pin(f.in_future(inner)) as Task<'a>);
    Some(Running { fut, polls: 0, drop_after: def.drop_after })
}

fn run_executor<'a>(cx: &'a Cx, mut tasks: Vec<Running<'a>>, mut g: Rng, cancel_pct: u64, migrate_after: Option<u32>) {
    let mut ctx = Context::from_waker(Waker::noop());
    let mut polls = 0u32;
    if tasks.len() >= 2 {
        bump("executor-runs-with-2+-futures");
    }
    loop {
        // scripted cancellation: after exactly k = 0, 1, 2 polls
        while let Some(i) = tasks.iter().position(|t| t.drop_after == Some(t.polls)) {
            let t = tasks.swap_remove(i);
            bump(match t.polls {
                0 => "futures-dropped-after-0-polls",
                1 => "futures-dropped-after-1-poll",
                _ => "futures-dropped-after-2-polls",
            });
            let polls = t.polls;
            drop(t);
            check(cx, if polls == 0 { "after-unpolled-future-dropped" } else { "after-future-cancelled" });
        }
        if tasks.is_empty() {
            break;
        }
        if migrate_after.map(|k| polls >= k).unwrap_or(false) {
            // work stealing: the suspended futures continue on another thread
            let rest = std::mem::take(&mut tasks);
            let g2 = g.fork();
            bump("nonlexical:futures-migrated-to-thread");
            let res = std::thread::scope(|s| {
                let h = s.spawn(move || run_thread(cx, "executor-thread", move || run_executor(cx, rest, g2, cancel_pct, None)));
                check(cx, "while-other-thread-runs");
                h.join()
            });
            if let Err(p) = res {
                unexpected_panic(cx, "executor-thread", &panic_message(&p));
            }
            break;
        }
        let i = g.usize(tasks.len());
        let depths = ts(|t| t.depths());
        let res = catch(|| tasks[i].fut.as_mut().poll(&mut ctx));
        tasks[i].polls = tasks[i].polls.saturating_add(1);
        polls += 1;
        bump("polls");
        match res {
            Ok(Poll::Ready(())) => {
                drop(tasks.swap_remove(i));
                check(cx, "after-future-ready");
            }
            Ok(Poll::Pending) => {
                bump("nonlexical:future-suspended");
                check(cx, "between-polls");
                if g.below(100) < cancel_pct {
                    drop(tasks.swap_remove(i));
                    bump("futures-cancelled-while-suspended");
                    check(cx, "after-future-cancelled");
                }
            }
            Err(m) => {
                ts(|t| t.truncate(&depths));
                if m == SEEDED_PANIC {
                    bump("nonlexical:panic-unwound");
                } else {
                    unexpected_panic(cx, "future-poll", &m);
                }
                drop(tasks.swap_remove(i));
                check(cx, "after-future-panicked");
            }
        }
    }
}

// ---------------------------------------------------------------------------
// one program = one case
// ---------------------------------------------------------------------------

fn run_program(r: &mut Report, seed: u64, index: u64, (min_ops, max_ops): (u64, u64), check_every: usize, verbose: bool) {
    let mut g = Rng::stream(seed, &[3, 1, index]);
    let prog = generate(&mut g, min_ops, max_ops);
    execute(r, prog, seed, index, (min_ops, max_ops), check_every, verbose, None);
}

/// A fixed fragment run by every process (so also by every Miri seed): frame-wrapped futures nested
/// up to three deep over a plain and a traceparent instance and several wrappers, holding probes,
/// dropped after 0, 1 and 2 polls - the last one while suspended two frames deep.
fn fixed_cancel_program() -> Program {
    let p = |k: &str, v: i64| (k.to_string(), Val::I(v));
    let create = |var, inst, h, kind, props: OwnProps, ids| Op::Create { var, inst, h, kind, props, ids };
    let ops = vec![
        create(0, 0, H::DynPad, FK::Push, vec![p("k0", 1)], None),
        create(1, 1, H::Val, FK::Push, vec![p("k1", 2)], Some((0x1111_2222_3333_4444_5555_6666_7777_8888, 0xaaaa_bbbb_cccc_dddd, false))),
        create(2, 1, H::DynAssert, FK::Disabled, vec![p("k2", 3)], Some((0x9999, 0x1234_5678_9abc_def1, true))),
        create(3, 0, H::Boxed, FK::Root, vec![p("k3", 4)], None),
        create(4, 1, H::Opt, FK::Push, vec![p("k4", 5)], Some((0x4242, 0x4343, true))),
        create(5, 0, H::Arcd, FK::Push, vec![], None),
        create(6, 1, H::Slot, FK::Push, vec![p("k5", 6)], Some((0x5151, 0x5252, false))),
        Op::Tasks {
            tasks: vec![
                TaskDef {
                    var: 0,
                    moved: vec![1, 2],
                    body: vec![
                        AItem::Yield,
                        AItem::Nested { var: 1, body: vec![AItem::Yield, AItem::Nested { var: 2, body: vec![AItem::Yield, AItem::Yield] }, AItem::Yield] },
                        AItem::Yield,
                    ],
                    drop_after: Some(2),
                },
                TaskDef { var: 3, moved: vec![4], body: vec![AItem::Nested { var: 4, body: vec![AItem::Yield] }, AItem::Yield], drop_after: Some(1) },
                TaskDef { var: 5, moved: vec![6], body: vec![AItem::Nested { var: 6, body: vec![AItem::Yield] }], drop_after: Some(0) },
            ],
            order_seed: 7,
            cancel_pct: 0,
            migrate_after: None,
        },
        Op::Emit { inst: 1 },
    ];
    Program {
        insts: vec![
            InstDef { route: Route::New, slot_kind: 1, place: Place::Worker, tp: false },
            InstDef { route: Route::New, slot_kind: 2, place: Place::OwnHelper, tp: true },
        ],
        fresh_thread: false,
        n_vars: 7,
        ops,
    }
}

#[allow(clippy::too_many_arguments)]
fn execute(r: &mut Report, prog: Program, seed: u64, index: u64, (min_ops, max_ops): (u64, u64), check_every: usize, verbose: bool, fixed: Option<&'static str>) {
    if verbose {
        eprintln!("{:?}", prog);
    }
    // ---- the context instances are made on different threads ----
    let mut made: Vec<Option<ThreadLocalCtxt>> = prog
        .insts
        .iter()
        .map(|d| if d.place == Place::Worker { make_ctxt(d.route) } else { None })
        .collect();
    {
        let (tx, rx) = std::sync::mpsc::channel::<(usize, Option<ThreadLocalCtxt>)>();
        let siblings: Vec<(usize, Route)> = prog.insts.iter().enumerate().filter(|(_, d)| d.place == Place::Sibling).map(|(i, d)| (i, d.route)).collect();
        std::thread::scope(|s| {
            for (i, d) in prog.insts.iter().enumerate() {
                if d.place == Place::OwnHelper {
                    let tx = tx.clone();
                    let route = d.route;
                    s.spawn(move || {
                        let _ = tx.send((i, make_ctxt(route)));
                    });
                }
            }
            if !siblings.is_empty() {
                let tx = tx.clone();
                s.spawn(move || {
                    for (i, route) in siblings {
                        let _ = tx.send((i, make_ctxt(route)));
                    }
                });
            }
        });
        drop(tx);
        for (i, tl) in rx {
            made[i] = tl;
        }
    }
    let prog_ref = &prog;
    let cls = classes(&prog.insts);
    let routes_named = prog.insts.iter().any(|d| !matches!(d.route, Route::New | Route::Shared)) || prog.insts.iter().filter(|d| d.route == Route::Shared).count() > 1;
    let cls_for_cx = cls.clone();
    // the rest (`Place::ProgramThread`) is made by the thread that runs the program: `new()` /
    // `shared()` / `default()` placed there, every `emit::setup()` (inside `Inst::new`), every copy / clone
    let make_and_run = move || {
        let mut insts: Vec<Inst> = Vec::new();
        for (d, m) in prog_ref.insts.iter().zip(made) {
            #[allow(clippy::clone_on_copy)]
            let given = match d.route {
                Route::CopyOf(j) => {
                    let copy = insts[j].tl;
                    Some(copy)
                }
                Route::CloneOf(j) => Some(insts[j].tl.clone()),
                Route::SetupSlot => None,
                _ => m.or_else(|| make_ctxt(d.route)),
            };
            insts.push(Inst::new(given, *d));
        }
        let cx = Cx {
            any_tp: prog_ref.insts.iter().any(|d| d.tp),
            insts,
            defs: prog_ref.insts.clone(),
            cls: cls_for_cx,
            routes_named,
            n_vars: prog_ref.n_vars,
            seed,
            index,
            min_ops,
            max_ops,
            check_every,
            fixed,
            done: Mutex::new(Vec::new()),
        };
        let res = catch(|| {
            run_thread(&cx, "main", || {
                let mut env = Env::new(prog_ref.n_vars);
                exec_block(&cx, &prog_ref.ops, &mut env, "program-start");
                drop(env);
                check(&cx, "after-all-frames-dropped");
            })
        });
        (res, cx)
    };
    let (res, cx) = if prog.fresh_thread {
        match std::thread::scope(|s| s.spawn(make_and_run).join()) {
            Ok(x) => x,
            Err(p) => {
                r.eval();
                r.violation(
                    "C03:unexpected-panic:program-thread",
                    &format!("the program's own thread died outside the program: {}", panic_message(&p)),
                    json!({"seed": seed, "index": index, "min_ops": min_ops, "max_ops": max_ops, "check_every": check_every}),
                );
                return;
            }
        }
    } else {
        make_and_run()
    };
    r.eval();
    for d in &prog.insts {
        r.observe(d.place.name(), 1);
        r.observe(if d.tp { "instances:TraceparentCtxt<ThreadLocalCtxt>" } else { "instances:ThreadLocalCtxt" }, 1);
    }
    if prog.insts.iter().any(|d| d.tp) {
        r.observe("programs-with-a-traceparent-instance", 1);
    }
    if !cfg!(miri) || fixed.is_none() {
        for i in 0..prog.insts.len() {
            r.observe(&format!("instances-by-route:{}", route_name(&prog.insts, i)), 1);
        }
        // which pairs of routes met in one program, and what the identity oracle says about them
        let mut pairs: Vec<String> = Vec::new();
        for i in 0..prog.insts.len() {
            for j in 0..i {
                // (copies and clones are counted under one name here; `instances-by-route` has the details)
                let short = |k: usize| if prog.insts[k].route.base().is_some() { "a-copy-or-clone".to_string() } else { route_name(&prog.insts, k) };
                let mut names = [short(j), short(i)];
                names.sort();
                let p = format!("route-pairs:{}:{}+{}", if cls[i] == cls[j] { "same-context" } else { "isolated" }, names[0], names[1]);
                if !pairs.contains(&p) {
                    pairs.push(p);
                }
            }
        }
        for p in pairs {
            r.observe(&p, 1);
        }
        if (0..prog.insts.len()).any(|i| cls[i] != i) {
            r.observe("programs-with-two-handles-on-the-same-context", 1);
        }
    }
    if prog.fresh_thread {
        r.observe("programs-run-on-a-fresh-thread", 1);
    }
    {
        // distinct creating threads: the worker, every own helper, the sibling, the program thread if fresh
        let mut threads = prog.insts.iter().filter(|d| d.place == Place::OwnHelper).count();
        threads += prog.insts.iter().any(|d| d.place == Place::Sibling) as usize;
        let on_worker = prog.insts.iter().any(|d| d.place == Place::Worker || (d.place == Place::ProgramThread && !prog.fresh_thread));
        let on_fresh = prog.fresh_thread && prog.insts.iter().any(|d| d.place == Place::ProgramThread);
        threads += on_worker as usize + on_fresh as usize;
        if threads >= 2 {
            r.observe("programs-with-instances-created-on-2+-threads", 1);
        }
    }
    let mut case = cx.case();
    let done = std::mem::take(&mut *cx.done.lock().unwrap());
    let corrupt = CORRUPT_CANARIES.swap(0, Ordering::Relaxed);
    let failed = res.is_err() || corrupt > 0 || done.iter().any(|t| !t.viols.is_empty()) || cx.insts.iter().any(|i| i.live.load(Ordering::Relaxed) != 0);
    if failed {
        // the program text is only rendered when it is needed as a witness (it is slow under Miri)
        let shown: String = format!("{:?}", prog).chars().take(6000).collect();
        case["program"] = json!(shown);
    }
    if let Err(m) = res {
        r.violation(
            "C03:unexpected-panic:main",
            &format!("a panic that the program did not raise itself escaped to the top: {}", m),
            case.clone(),
        );
    }
    if corrupt > 0 {
        r.violation(
            "C03:erased-frame:canary-corrupted",
            &format!("{} frame payload(s) stored behind ErasedFrame came back with corrupted guard words", corrupt),
            case.clone(),
        );
    }
    for (i, inst) in cx.insts.iter().enumerate() {
        let live = inst.live.load(Ordering::Relaxed);
        if live != 0 {
            r.violation(
                "C03:erased-frame:payload-drop-count",
                &format!("instance {}: {} padded frame payload(s) neither closed nor dropped exactly once after every frame of the program was dropped", i, live),
                case.clone(),
            );
        }
    }
    let mut depth = 0;
    let mut nonlexical = 0;
    for t in done {
        depth = depth.max(t.max_depth);
        for (k, n) in &t.counters {
            r.observe(k, *n);
            if *k == "monitor-model-out-of-step" {
                r.inconclusive("the monitor's own model stack was not where the interpreter expected it (monitor bug): this program proves nothing");
            }
            if k.starts_with("nonlexical:") {
                nonlexical += *n;
            }
        }
        for v in t.viols {
            let mut c = case.clone();
            c["finding"] = v.detail;
            r.violation(&v.sig, &v.what, c);
        }
    }
    r.observe("programs", 1);
    r.observe(&format!("programs-reaching-depth:{}", depth.min(9)), 1);
    if depth >= 2 && nonlexical > 0 {
        r.nontrivial(&prog);
        if r.wants_sample() && !cfg!(miri) {
            let short: String = format!("{:?}", prog).chars().take(1500).collect();
            r.sample(|| json!({"seed": seed, "index": index, "max_depth_reached": depth, "nonlexical_exits": nonlexical, "program": short}));
        }
    }
}

/// The very first `ThreadLocalCtxt::new()` of the process next to `ThreadLocalCtxt::shared()`:
/// the boundary of the id allocation that keeps instances apart.
fn prelude(r: &mut Report) {
    let first = ThreadLocalCtxt::new();
    let shared = ThreadLocalCtxt::shared();
    // ... and the very first `Default::default()` (how `emit::setup()` builds its ctxt) next to both:
    // whichever allocation a constructor takes its identity from, the first values must not coincide
    let first_default = <ThreadLocalCtxt as Default>::default();
    let empty = Map::new();
    for (name, entered, other) in [
        ("shared-entered", shared, first),
        ("first-new-entered", first, shared),
        ("first-default-entered:ctxt=default+new", first_default, first),
        ("first-new-entered:ctxt=default+new", first, first_default),
        ("first-default-entered:ctxt=default+shared", first_default, shared),
        ("shared-entered:ctxt=default+shared", shared, first_default),
    ] {
        r.eval();
        r.observe("prelude-isolation-checks", 1);
        let mut f = Frame::push(entered, ("k0", 1));
        let (inside, seen_by_other) = {
            let _g = f.enter();
            (entered.with_current(|p| to_map(p)), other.with_current(|p| to_map(p)))
        };
        let after = (entered.with_current(|p| to_map(p)), other.with_current(|p| to_map(p)));
        if seen_by_other != empty || after.0 != empty || after.1 != empty || inside.len() != 1 {
            r.violation(
                &format!("C03:first-new-instance-next-to-shared:{}", name),
                &format!(
                    "the first ThreadLocalCtxt::new() / default() of the process and shared() next to each other ({}): inside the frame the entered instance shows {:?}, the other instance shows {:?}; after exit they show {:?} / {:?}",
                    name, inside, seen_by_other, after.0, after.1
                ),
                json!({"prelude": name}),
            );
        }
    }
}

fn with_entered(frame: &mut AnyFrame<'_>, body: impl FnOnce()) {
    each_frame!(frame, f => {
        let _g = f.enter();
        body()
    })
}

/// The ambient properties of one event emitted through the instance's slot-held runtime.
fn event_props(inst: &Inst) -> Option<Map> {
    let rt = inst.slot.get();
    EVENTS.with(|e| e.borrow_mut().clear());
    emit::emit!(rt, "c03 identity {c03_own}", c03_own: 1);
    let evs = EVENTS.with(|e| std::mem::take(&mut *e.borrow_mut()));
    if evs.len() != 1 {
        return None;
    }
    let mut m = evs.into_iter().next()?;
    m.remove("c03_own");
    Some(m)
}

/// One ordered pair of instances on one thread against the identity oracle. `same`: the oracle says
/// the two are the same context (copy / clone, or both `shared()`); otherwise they are isolated: a
/// frame entered on one is invisible through the other, a push on one does not inherit the other's
/// properties, a root frame on one does not hide the other's, and nothing is left after the exits.
fn identity_pair(a: &Inst, b: &Inst, hb: H, same: bool) -> Vec<(String, String)> {
    let m = |pairs: &[(&str, i64)]| -> Map { pairs.iter().map(|(k, v)| (k.to_string(), v.to_string())).collect() };
    let p = |k: &str, v: i64| -> OwnProps { vec![(k.to_string(), Val::I(v))] };
    let oracle = if same { "expected-same-context" } else { "expected-isolated" };
    let out: RefCell<Vec<(String, String)>> = RefCell::new(Vec::new());
    let rot = Cell::new(0usize);
    let expect = |point: &str, who: &str, inst: &Inst, want: Map| {
        // by value, through the slot-held runtime's erased ctxt, and through one more handle type
        rot.set(rot.get() + 3);
        let extra = HANDLES[rot.get() % HANDLES.len()];
        let handles: &[H] = if cfg!(miri) { &[H::Val, H::Slot] } else { &[H::Val, H::Slot, extra] };
        for h in handles {
            let got = inst.read(*h);
            if got != want {
                out.borrow_mut().push((
                    format!("{}:read-{}:{}", point, who, oracle),
                    format!("{}: the {} instance (read through {}) shows {:?}, the identity oracle ({}) wants {:?}", point, who, h.name(), got, oracle, want),
                ));
                break;
            }
        }
    };
    let expect_event = |point: &str, who: &str, inst: &Inst, want: Map| match event_props(inst) {
        Some(got) if got == want => {}
        got => out.borrow_mut().push((
            format!("{}:event-through-{}-runtime:{}", point, who, oracle),
            format!("{}: an event emitted through the {} instance's slot-held runtime carries {:?}, the identity oracle ({}) wants {:?}", point, who, got, oracle, want),
        )),
    };
    expect("before", "first", a, m(&[]));
    expect("before", "second", b, m(&[]));
    if cfg!(miri) {
        // every Miri seed creates, enters, leaves and closes one frame behind `dyn ErasedCtxt` with an
        // inline (8-byte) payload, whatever the few generated programs of that seed happen to use
        let mut fe = create(a, H::DynTl, FK::Push, &p("ke", 5));
        with_entered(&mut fe, || expect("erased-inline-frame-entered", "first", a, m(&[("ke", 5)])));
        drop(fe);
        expect("erased-inline-frame-closed", "first", a, m(&[]));
    }
    let mut fa = create(a, H::Val, FK::Push, &p("ka", 1));
    with_entered(&mut fa, || {
        expect("entered-on-first", "first", a, m(&[("ka", 1)]));
        expect("entered-on-first", "second", b, if same { m(&[("ka", 1)]) } else { m(&[]) });
        let mut fb = create(b, hb, FK::Push, &p("kb", 2));
        with_entered(&mut fb, || {
            let both = m(&[("ka", 1), ("kb", 2)]);
            expect("pushed-on-second", "second", b, if same { both.clone() } else { m(&[("kb", 2)]) });
            expect("pushed-on-second", "first", a, if same { both.clone() } else { m(&[("ka", 1)]) });
            expect_event("pushed-on-second", "first", a, if same { both.clone() } else { m(&[("ka", 1)]) });
            expect_event("pushed-on-second", "second", b, if same { both.clone() } else { m(&[("kb", 2)]) });
        });
        expect("after-inner-exit", "first", a, m(&[("ka", 1)]));
        expect("after-inner-exit", "second", b, if same { m(&[("ka", 1)]) } else { m(&[]) });
        let mut rb = create(b, hb, FK::Root, &p("kr", 3));
        with_entered(&mut rb, || {
            expect("root-on-second", "second", b, m(&[("kr", 3)]));
            expect("root-on-second", "first", a, if same { m(&[("kr", 3)]) } else { m(&[("ka", 1)]) });
        });
        let mut db = create(b, hb, FK::Disabled, &p("kd", 4));
        with_entered(&mut db, || {
            expect("disabled-on-second", "first", a, m(&[("ka", 1)]));
            expect("disabled-on-second", "second", b, if same { m(&[("ka", 1)]) } else { m(&[]) });
        });
    });
    expect("after-exit", "first", a, m(&[]));
    expect("after-exit", "second", b, m(&[]));
    drop(fa);
    // one cause shows at every later step too: the first two findings name it
    let mut out = out.into_inner();
    out.truncate(2);
    out
}

/// A fixed matrix run by every process before the generated programs: every construction route of
/// a `ThreadLocalCtxt` next to every other one (and next to a copy / a clone of itself), both
/// orders, on ONE thread.
fn identity_matrix(r: &mut Report, seed: u64) {
    const BASES: [Route; 4] = [Route::New, Route::Shared, Route::Default, Route::SetupSlot];
    let mut n = 0u64;
    let mut reported = 0;
    for first in BASES {
        for second in [Route::New, Route::Shared, Route::Default, Route::SetupSlot, Route::CopyOf(0), Route::CloneOf(0)] {
            n += 1;
            // (one read costs ~30 ms under Miri: two of the 24 pairs per Miri seed)
            if cfg!(miri) && n % 12 != seed % 12 {
                continue;
            }
            let defs = vec![
                InstDef { route: first, slot_kind: 0, place: Place::ProgramThread, tp: false },
                InstDef { route: second, slot_kind: (n % 3) as u8, place: Place::ProgramThread, tp: n % 5 == 0 },
            ];
            let same = {
                let cls = classes(&defs);
                cls[0] == cls[1]
            };
            let mut names = [route_name(&defs, 0), route_name(&defs, 1)];
            let (first_name, second_name) = (names[0].clone(), names[1].clone());
            names.sort();
            let pair = format!("{}+{}", names[0], names[1]);
            r.eval();
            r.observe("identity-matrix:pairs", 1);
            r.observe(&format!("identity-matrix:{}:{}", if same { "same-context" } else { "isolated" }, pair), 1);
            let case = json!({"identity_matrix": pair, "first": first_name, "second": second_name, "oracle_says_same_context": same});
            let res = catch(|| {
                let a = Inst::new(make_ctxt(first), defs[0]);
                #[allow(clippy::clone_on_copy)]
                let given = match second {
                    Route::CopyOf(_) => {
                        let copy = a.tl;
                        Some(copy)
                    }
                    Route::CloneOf(_) => Some(a.tl.clone()),
                    _ => make_ctxt(second),
                };
                let b = Inst::new(given, defs[1]);
                // frames on a `setup()` instance go through its runtime's ctxt, as a library's would
                let hb = if second == Route::SetupSlot { H::Slot } else { H::Val };
                identity_pair(&a, &b, hb, same)
            });
            match res {
                Ok(findings) => {
                    r.observe("identity-matrix:reads-and-events-compared", 30);
                    for (what_sig, what) in findings {
                        // (a defect that is not about identity at all fails every pair: leave room
                        // in the signature list for what the generated programs say about it)
                        if reported >= 8 {
                            r.observe("identity-matrix:further-findings-not-listed", 1);
                            continue;
                        }
                        reported += 1;
                        r.violation(&format!("C03:identity:{}:ctxt={}", what_sig, pair), &what, case.clone());
                    }
                }
                Err(msg) => r.violation(&format!("C03:identity:unexpected-panic:ctxt={}", pair), &format!("the identity matrix panicked for {}: {}", pair, msg), case),
            }
        }
    }
}

fn main() {
    let args = Args::parse();
    let mut r = Report::new(
        "C03",
        &args,
        "one evaluation = one generated program run against the real frame API with the stack-of-maps model compared at every program point; \
         non-trivial = distinct programs (by structural hash of the whole program) that reached frame nesting depth >= 2 and took at least one non-lexical exit \
         (future suspended between polls, frame or future moved to another thread, or panic unwinding through frames)",
    );
    let max_ops = args.get_u64("max-ops", 60);
    let min_ops = args.get_u64("min-ops", 5).min(max_ops);
    let check_every = args.get_u64("check-every", 1).max(1) as usize;
    r.set("check_every_kth_program_point", json!(check_every));
    prelude(&mut r);
    identity_matrix(&mut r, args.seed);

    r.set(
        "frame_payload_bytes",
        json!({
            "ThreadLocalCtxt": std::mem::size_of::<<ThreadLocalCtxt as Ctxt>::Frame>(),
            "Option<ThreadLocalCtxt>": std::mem::size_of::<<Option<ThreadLocalCtxt> as Ctxt>::Frame>(),
            "Pad<ThreadLocalCtxt>": std::mem::size_of::<<Pad<ThreadLocalCtxt> as Ctxt>::Frame>(),
            "Option<Pad<ThreadLocalCtxt>>": std::mem::size_of::<<Option<Pad<ThreadLocalCtxt>> as Ctxt>::Frame>(),
            "Box<dyn ErasedCtxt> (an ErasedFrame)": std::mem::size_of::<<BoxDyn as Ctxt>::Frame>(),
            "inline_capacity": 16,
        }),
    );

    if let Some(path) = &args.replay {
        let case = load_replay(path);
        let seed = case.get("seed").and_then(|v| v.as_u64()).unwrap_or(args.seed);
        let index = case.get("index").and_then(|v| v.as_u64()).unwrap_or(0);
        let mo = (
            case.get("min_ops").and_then(|v| v.as_u64()).unwrap_or(min_ops),
            case.get("max_ops").and_then(|v| v.as_u64()).unwrap_or(max_ops),
        );
        let fixed = case.get("fixed_program").and_then(|v| v.as_str()).is_some();
        for k in 0..3 {
            // always replay with every program point checked; the program is printed once
            if fixed {
                execute(&mut r, fixed_cancel_program(), seed, index, mo, 1, k == 0, Some("cancel-nested-futures"));
            } else {
                run_program(&mut r, seed, index, mo, 1, k == 0);
            }
            // the driver treats fewer than two distinct cases as "observed too little"
            r.nontrivial(&("replay-run", k));
        }
        std::process::exit(r.finish());
    }

    let n = args.get_u64("programs", args.n(5_000, 300_000));
    let seed = args.seed;
    execute(&mut r, fixed_cancel_program(), seed, u64::MAX, (min_ops, max_ops), check_every, false, Some("cancel-nested-futures"));
    r.observe("fixed-fragment:cancel-nested-futures", 1);
    par_cases(&mut r, &args, n, |i, r| run_program(r, seed, i, (min_ops, max_ops), check_every, false));

    let code = r.finish();
    if code != 0 {
        std::process::exit(code);
    }
    // returning from main (instead of process::exit) lets Miri run its leak check
}
