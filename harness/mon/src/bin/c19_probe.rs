use std::collections::BTreeMap;
use vcommon::model::*;
use vcommon::*;

fn sj<T: serde::Serialize>(v: &T) -> String {
    catch(|| serde_json::to_string(v).unwrap_or_else(|e| format!("ERR:{}", e))).unwrap_or_else(|p| format!("PANIC:{}", p))
}
fn vj<T: sval::Value>(v: &T) -> String {
    catch(|| sval_json::stream_to_string(v).unwrap_or_else(|e| format!("ERR:{}", e))).unwrap_or_else(|p| format!("PANIC:{}", p))
}

fn main() {
    let mut stats: BTreeMap<String, u64> = BTreeMap::new();
    let mut shown: BTreeMap<String, u32> = BTreeMap::new();
    let keys = [
        KeyKind::Str, KeyKind::Char, KeyKind::Int, KeyKind::BigInt, KeyKind::Bool, KeyKind::Float, KeyKind::UnitVariant, KeyKind::NewtypeInt,
    ];
    for i in 0..20000u64 {
        let mut g = Rng::stream(1, &[i]);
        let v = gen_value(&mut g, &GenCfg::new(3, 4).with_keys(&keys));
        let ds = sj(&v);
        let dv = vj(&v);
        let mut note = |k: String, detail: String| {
            *stats.entry(k.clone()).or_insert(0) += 1;
            let n = shown.entry(k.clone()).or_insert(0);
            if *n < 3 {
                *n += 1;
                println!("{}: {}", k, detail);
            }
        };
        // images
        match v.json_image(Framework::Serde) {
            Ok(img) => match parse_json(&ds) {
                Ok(t) => {
                    if let Err(e) = img.matches(&t) {
                        note("serde-direct-vs-image".into(), format!("{} | {:?} | {}", e, v, ds));
                    }
                }
                Err(e) => note("serde-direct-unparseable".into(), format!("{} | {:?} | {}", e, v, ds)),
            },
            Err(e) => note(format!("serde-inexpressible:{}", e), ds.clone()),
        }
        match v.json_image(Framework::Sval) {
            Ok(img) => match parse_json(&dv) {
                Ok(t) => {
                    if let Err(e) = img.matches(&t) {
                        note("sval-direct-vs-image".into(), format!("{} | {:?} | {}", e, v, dv));
                    }
                }
                Err(e) => note("sval-direct-unparseable".into(), format!("{} | {:?} | {}", e, v, dv)),
            },
            Err(_) => {}
        }
        // captured
        let cs = emit::Value::from_serde(&v);
        let cv = emit::Value::from_sval(&v);
        let combos = [("serde>serde", sj(&cs), &ds), ("serde>sval", vj(&cs), &dv), ("sval>serde", sj(&cv), &ds), ("sval>sval", vj(&cv), &dv)];
        for (name, got, want) in combos {
            if &got != want {
                let shapes: Vec<&str> = {
                    let mut s = Vec::new();
                    v.walk(&mut |n| {
                        if !s.contains(&n.shape()) {
                            s.push(n.shape())
                        }
                    });
                    s
                };
                let wf = parse_json(&got).is_ok();
                note(format!("{}:differs:wellformed={}", name, wf), format!("{:?} | got {} | want {} | shapes {:?}", v, got, want, shapes));
            }
        }
        // owned
        for (nm, o) in [("owned", cv.to_owned()), ("shared", cv.to_shared())] {
            let got = sj(&o.by_ref());
            if got != ds {
                note(format!("sval>{}>serde:differs:wf={}", nm, parse_json(&got).is_ok()), format!("{:?} | {}", v, got));
            }
            let got = vj(&o.by_ref());
            if got != dv {
                note(format!("sval>{}>sval:differs", nm), format!("{:?} | {} | want {}", v, got, dv));
            }
        }
        for (nm, o) in [("owned", cs.to_owned()), ("shared", cs.to_shared())] {
            let got = sj(&o.by_ref());
            if got != ds {
                note(format!("serde>{}>serde:differs", nm), format!("{:?} | {} | want {}", v, got, ds));
            }
            let got = vj(&o.by_ref());
            if got != dv {
                note(format!("serde>{}>sval:differs", nm), format!("{:?} | {} | want {}", v, got, dv));
            }
        }
    }
    // characterise sval>serde
    let mut cls: BTreeMap<String, u64> = BTreeMap::new();
    for i in 0..40000u64 {
        let mut g = Rng::stream(2, &[i]);
        let v = gen_value(&mut g, &GenCfg::new(3, 4).with_keys(&keys));
        let ds = sj(&v);
        let cv = emit::Value::from_sval(&v);
        let got = sj(&cv);
        let has = |s: &str| v.any(&|n| n.shape() == s);
        let nonempty_seq = v.any(&|n| matches!(n, ModelValue::Seq(x) if !x.is_empty()));
        let top = v.shape() == "seq";
        let k = format!("seq={} nonempty_seq={} topseq={} bytes={} tuple={} equal={} wf={}", has("seq"), nonempty_seq, top, has("bytes"), has("tuple") || has("tuple-struct") || has("tuple-variant"), got == ds, parse_json(&got).is_ok());
        *cls.entry(k).or_insert(0) += 1;
    }
    println!("{:#?}", cls);
    println!("{:#?}", stats);
}
