/*!
C01, re-entrant emission: a destination or a filter that, while it handles an event, emits another event (audit
trails, "log the slow export", metrics about the pipeline itself) or reads the ambient context.

The statement fixes what every event is built from - "its own properties followed by the current ambient properties" -
and that holds for the nested event too: the frames entered on this thread are still entered while the outer event is
being filtered and delivered. A case is a stack of 1-3 pushed frames (seeded props, later frames shadow earlier
ones), an outer event, and a nesting script: who re-enters (filter, destination, both), through what (a second
generic runtime sharing the `Copy` context, the same `AmbientSlot` runtime through its erased handle, a direct
`with_current` read), how deep (1-2), and whether the nested emission happens inside one more frame pushed by the
handler itself. Every filter and destination records what it was shown; the oracle compares, for the outer AND every
nested event, both views with `own ++ ambient-model` (own in order, the ambient part as a map, since the statement
does not order ambient properties among themselves) - and requires that after the whole thing the thread's ambient
context is what it was before.
*/

use std::{
    collections::BTreeMap,
    sync::{Arc, Mutex},
};

use emit::{
    platform::thread_local_ctxt::ThreadLocalCtxt,
    runtime::{AmbientSlot, Runtime},
    Ctxt, Empty, Frame, Path, Props, Template,
};
use vcommon::*;

type Pairs = Vec<(String, String)>;

#[derive(Clone, Debug)]
struct Seen {
    who: &'static str,
    mdl: String,
    props: Pairs,
}

#[derive(Clone, Copy, Debug, PartialEq)]
enum Via {
    SecondRuntime,
    SameSlot,
    DirectRead,
}

#[derive(Clone, Debug)]
struct Script {
    frames: Vec<Pairs>,
    outer_own: Pairs,
    inner_own: Pairs,
    inner2_own: Pairs,
    from_filter: bool,
    from_dest: bool,
    via: Via,
    depth: u32,
    extra_frame: Option<Pairs>,
    reject_outer: bool,
}

const AKEYS: [&str; 6] = ["tenant", "req", "user", "amb", "k1", "é"];
const OKEYS: [&str; 5] = ["a", "b", "k1", "of", "n"];

fn gen_pairs(g: &mut Rng, keys: &[&str], max: usize, tag: &str) -> Pairs {
    let n = g.usize(max + 1);
    let mut out = Pairs::new();
    for i in 0..n {
        let k = g.pick(keys).to_string();
        if out.iter().any(|(pk, _)| *pk == k) {
            continue;
        }
        out.push((k, format!("{tag}{i}-{}", g.below(1000))));
    }
    out
}

fn gen_script(g: &mut Rng) -> Script {
    let nframes = 1 + g.usize(3);
    let mut frames: Vec<Pairs> = (0..nframes).map(|i| gen_pairs(g, &AKEYS, 3, &format!("f{i}:"))).collect();
    if frames.iter().all(|f| f.is_empty()) {
        frames[0].push(("tenant".to_string(), "acme".to_string()));
    }
    let (from_filter, from_dest) = match g.below(3) {
        0 => (true, false),
        1 => (false, true),
        _ => (true, true),
    };
    Script {
        frames,
        outer_own: gen_pairs(g, &OKEYS, 3, "o:"),
        inner_own: gen_pairs(g, &OKEYS, 3, "i:"),
        inner2_own: gen_pairs(g, &OKEYS, 2, "j:"),
        from_filter,
        from_dest,
        via: *g.pick(&[Via::SecondRuntime, Via::SecondRuntime, Via::SameSlot, Via::SameSlot, Via::DirectRead]),
        depth: 1 + g.below(2) as u32,
        extra_frame: if g.chance(1, 3) { Some(gen_pairs(g, &AKEYS, 2, "x:")) } else { None },
        reject_outer: g.chance(1, 4),
    }
}

fn snapshot<P: Props>(p: P) -> Pairs {
    let mut out = Pairs::new();
    let _ = p.for_each(|k, v| {
        out.push((k.get().to_string(), v.to_string()));
        std::ops::ControlFlow::Continue(())
    });
    out
}

fn overlay(base: &BTreeMap<String, String>, own: &Pairs) -> BTreeMap<String, String> {
    let mut m = base.clone();
    for (k, v) in own {
        m.insert(k.clone(), v.clone());
    }
    m
}

/// own in order first, then exactly the ambient map (as a map)
fn view_problem(got: &Pairs, own: &Pairs, amb: &BTreeMap<String, String>) -> Option<String> {
    if got.len() < own.len() || got[..own.len()] != own[..] {
        return Some(format!("own properties are not first / not in order: saw {:?}, own {:?}", got, own));
    }
    let rest: BTreeMap<String, String> = got[own.len()..].iter().cloned().collect();
    if rest.len() != got.len() - own.len() {
        return Some(format!("an ambient key is repeated: saw {:?}", &got[own.len()..]));
    }
    if rest != *amb {
        let missing: Vec<_> = amb.keys().filter(|k| !rest.contains_key(*k)).collect();
        let class = if rest.is_empty() && !amb.is_empty() { "no ambient properties at all" } else if !missing.is_empty() { "ambient properties missing" } else { "ambient properties differ" };
        return Some(format!("{class}: saw ambient part {:?}, the frames entered on this thread give {:?}", rest, amb));
    }
    None
}

struct Handler {
    log: Arc<Mutex<Vec<Seen>>>,
    script: Script,
    ctxt: ThreadLocalCtxt,
    /// set once the slot exists (the same-slot route needs the handle of the runtime it is part of)
    slot: Arc<Mutex<Option<&'static AmbientSlot>>>,
    second: Arc<Mutex<Option<Arc<dyn Fn(&str, &Pairs) + Send + Sync>>>>,
}

impl Handler {
    fn own_of(&self, mdl: &str) -> &Pairs {
        match mdl {
            "outer" => &self.script.outer_own,
            "inner" => &self.script.inner_own,
            _ => &self.script.inner2_own,
        }
    }

    fn reenter(&self, who: &'static str, mdl: &str) {
        let next = match (mdl, self.script.depth) {
            ("outer", _) => "inner",
            ("inner", 2) => "inner2",
            _ => return,
        };
        let go = || match self.script.via {
            Via::DirectRead => {
                let seen = self.ctxt.with_current(|p| snapshot(p));
                self.log.lock().unwrap().push(Seen { who: if who == "filter" { "read-in-filter" } else { "read-in-dest" }, mdl: next.to_string(), props: seen });
            }
            Via::SecondRuntime | Via::SameSlot => {
                let f = self.second.lock().unwrap().clone();
                if let Some(f) = f {
                    f(next, self.own_of(next));
                }
            }
        };
        match (&self.script.extra_frame, next) {
            (Some(extra), "inner") => {
                let props: Vec<(&str, &str)> = extra.iter().map(|(k, v)| (k.as_str(), v.as_str())).collect();
                Frame::push(self.ctxt, &props[..]).call(go)
            }
            _ => go(),
        }
    }
}

struct F(Arc<Handler>);
struct D(Arc<Handler>);

impl emit::Filter for F {
    fn matches<E: emit::event::ToEvent>(&self, evt: E) -> bool {
        let evt = evt.to_event();
        let mdl = evt.mdl().to_string();
        self.0.log.lock().unwrap().push(Seen { who: "filter", mdl: mdl.clone(), props: snapshot(evt.props()) });
        if self.0.script.from_filter {
            self.0.reenter("filter", &mdl);
        }
        !(mdl == "outer" && self.0.script.reject_outer)
    }
}

impl emit::Emitter for D {
    fn emit<E: emit::event::ToEvent>(&self, evt: E) {
        let evt = evt.to_event();
        let mdl = evt.mdl().to_string();
        self.0.log.lock().unwrap().push(Seen { who: "dest", mdl: mdl.clone(), props: snapshot(evt.props()) });
        if self.0.script.from_dest {
            self.0.reenter("dest", &mdl);
        }
    }
    fn blocking_flush(&self, _: std::time::Duration) -> bool {
        true
    }
}

fn emit_through<R: FnOnce(emit::Event<&[(&str, &str)]>)>(mdl: &str, own: &Pairs, f: R) {
    let props: Vec<(&str, &str)> = own.iter().map(|(k, v)| (k.as_str(), v.as_str())).collect();
    let evt = emit::Event::new(Path::new_ref(mdl).unwrap(), Template::literal("reentrant"), emit::Empty, &props[..]);
    f(evt)
}

pub fn reentrant_case(r: &mut Report, seed: u64, index: u64) {
    let mut g = Rng::stream(seed, &[0xC01_7EE7, index]);
    let script = gen_script(&mut g);
    let ctxt = ThreadLocalCtxt::new();
    let log = Arc::new(Mutex::new(Vec::new()));
    let h = Arc::new(Handler { log: log.clone(), script: script.clone(), ctxt, slot: Arc::new(Mutex::new(None)), second: Arc::new(Mutex::new(None)) });
    r.eval();
    let case = |what: &str, log: &[Seen]| {
        json!({"section": "reentrant", "seed": seed, "index": index, "what": what, "script": format!("{:?}", script),
               "seen": log.iter().map(|s| json!({"who": s.who, "mdl": s.mdl, "props": s.props})).collect::<Vec<_>>()})
    };

    // the runtime the OUTER event goes through, and the route nested emissions take
    let slot_box: Box<AmbientSlot> = Box::new(AmbientSlot::new());
    // SAFETY of the lifetime games: the slot outlives every use below (it is dropped at the end of this function, after
    // the handler's clones of the reference have been cleared); nothing escapes the case.
    let slot_ref: &'static AmbientSlot = unsafe { &*(&*slot_box as *const AmbientSlot) };
    let generic = Runtime::build(D(h.clone()), F(h.clone()), ctxt, Empty, Empty);
    let second = Arc::new(Runtime::build(D(h.clone()), F(h.clone()), ctxt, Empty, Empty));
    let use_slot = script.via == Via::SameSlot;
    if use_slot {
        if slot_ref.init(Runtime::build(D(h.clone()), F(h.clone()), ctxt, Empty, Empty)).is_none() {
            r.violation("C01:ambient-slot:init-refused", "a fresh AmbientSlot refused its first init", case("slot-init", &[]));
            return;
        }
        *h.slot.lock().unwrap() = Some(slot_ref);
        *h.second.lock().unwrap() = Some(Arc::new(move |mdl: &str, own: &Pairs| emit_through(mdl, own, |evt| slot_ref.get().emit(evt))));
    } else {
        let s2 = second.clone();
        *h.second.lock().unwrap() = Some(Arc::new(move |mdl: &str, own: &Pairs| emit_through(mdl, own, |evt| s2.emit(evt))));
    }

    // ambient model: frames are pushed in order, each new frame = current overlaid by its own props
    let before = ctxt.with_current(|p| snapshot(p));
    let mut amb = BTreeMap::new();
    for f in &script.frames {
        amb = overlay(&amb, f);
    }
    // `Frame::push` snapshots the context current at CREATION: create-and-enter one by one
    fn nest(ctxt: ThreadLocalCtxt, frames: &[Pairs], k: &mut dyn FnMut()) {
        match frames.split_first() {
            None => k(),
            Some((f, rest)) => {
                let props: Vec<(&str, &str)> = f.iter().map(|(k, v)| (k.as_str(), v.as_str())).collect();
                Frame::push(ctxt, &props[..]).call(|| nest(ctxt, rest, k))
            }
        }
    }
    let mut inside_after = Pairs::new();
    let res = catch(|| {
        nest(ctxt, &script.frames, &mut || {
            if use_slot {
                emit_through("outer", &script.outer_own, |evt| slot_ref.get().emit(evt));
            } else {
                emit_through("outer", &script.outer_own, |evt| generic.emit(evt));
            }
            inside_after = ctxt.with_current(|p| snapshot(p));
        })
    });
    *h.second.lock().unwrap() = None;
    *h.slot.lock().unwrap() = None;
    let seen = log.lock().unwrap().clone();
    if let Err(m) = res {
        r.violation("C01:reentrant:panic", &format!("re-entrant emission panicked: {m}"), case("panic", &seen));
        return;
    }
    let after = ctxt.with_current(|p| snapshot(p));
    if after != before {
        r.violation("C01:reentrant:ambient-not-restored", &format!("ambient context after the case {:?}, before {:?}", after, before), case("restore", &seen));
    }
    let inside: BTreeMap<String, String> = inside_after.iter().cloned().collect();
    if inside != amb {
        r.violation("C01:reentrant:ambient-changed-by-emit", &format!("after the outer emit returned, the entered frames show {:?}, expected {:?}", inside, amb), case("inside-after", &seen));
    }

    // ---- expected views
    let via = match script.via { Via::SecondRuntime => "second-runtime-sharing-ctxt", Via::SameSlot => "same-ambient-slot", Via::DirectRead => "direct-with_current" };
    let amb_inner = match &script.extra_frame { Some(x) => overlay(&amb, x), None => amb.clone() };
    let mut count: BTreeMap<(&'static str, String), usize> = BTreeMap::new();
    for s in &seen {
        *count.entry((s.who, s.mdl.clone())).or_default() += 1;
        let (own, a): (&Pairs, &BTreeMap<String, String>) = match s.mdl.as_str() {
            "outer" => (&script.outer_own, &amb),
            "inner" => (&script.inner_own, &amb_inner),
            _ => (&script.inner2_own, &amb_inner),
        };
        let empty = Pairs::new();
        let own = if s.who.starts_with("read-in") { &empty } else { own };
        r.observe(&format!("reentrant:view:{}:{}:{}", s.who, s.mdl, via), 1);
        if let Some(p) = view_problem(&s.props, own, a) {
            let class = if p.starts_with("no ambient") { "no-ambient" } else if p.starts_with("own") { "own-order" } else { "ambient-differs" };
            r.violation(
                &format!("C01:reentrant:{}:{}-of-{}-event:via={}", class, s.who, if s.mdl == "outer" { "outer" } else { "nested" }, via),
                &format!("{} shown the `{}` event: {}", s.who, s.mdl, p),
                case("view", &seen),
            );
        }
    }
    // ---- delivery counts: every event that was emitted is filtered once; delivered iff accepted
    let n = |who: &'static str, mdl: &str| count.get(&(who, mdl.to_string())).copied().unwrap_or(0);
    let want_outer_dest = if script.reject_outer { 0 } else { 1 };
    if n("filter", "outer") != 1 || n("dest", "outer") != want_outer_dest {
        r.violation("C01:reentrant:outer-delivery", &format!("outer event: filtered {} times, delivered {} times (expected 1 / {})", n("filter", "outer"), n("dest", "outer"), want_outer_dest), case("outer-count", &seen));
    }
    if script.via != Via::DirectRead {
        let handlers_run_outer = (script.from_filter as usize) + if script.reject_outer { 0 } else { script.from_dest as usize };
        if n("filter", "inner") != handlers_run_outer || n("dest", "inner") != handlers_run_outer {
            r.violation(
                &format!("C01:reentrant:nested-delivery:via={}", via),
                &format!("nested event: emitted {} times by the handlers of the outer event, filtered {} times, delivered {} times", handlers_run_outer, n("filter", "inner"), n("dest", "inner")),
                case("inner-count", &seen),
            );
        }
        if handlers_run_outer > 0 {
            r.observe("reentrant:nested-events-delivered", n("dest", "inner") as u64);
        }
    }
    r.nontrivial(&("reentrant", script.frames.len(), script.from_filter, script.from_dest, via, script.depth, script.extra_frame.is_some(), script.reject_outer));
    drop(generic);
    drop(second);
    drop(h);
    drop(slot_box);
}
