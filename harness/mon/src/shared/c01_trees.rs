/*!
C01 — filter / destination expression trees: the reference interpreter (logical definition of every
combinator), the dynamic builder (every node behind `Box<dyn Erased… + Send + Sync>`) and the
pair-builders used by the statically typed generic shapes.
*/

use std::{cell::RefCell, sync::Arc, time::Duration};

use emit::{
    and::And,
    emitter::{self, wrapping, ErasedEmitter, Wrap},
    event::ToEvent,
    filter::{self, ErasedFilter},
    or::Or,
    props::ErasedProps,
    runtime::Runtime,
    Emitter, Empty, Event, Filter, Props,
};

use super::c01_model::*;

// ---------------------------------------------------------------------------
// per-case tables
// ---------------------------------------------------------------------------

#[derive(Clone, Debug)]
pub struct NEnv {
    pub ambient: MProps,
    pub clock: Option<u64>,
}

/// Leaf tables of one case; trees refer to entries by index.
pub struct Cx {
    pub log: Arc<Log>,
    pub fleaves: Vec<FLeaf>,
    pub flush_ok: Vec<bool>,
    pub nenvs: Vec<NEnv>,
    /// the model's own count of evaluations per filter leaf (state of stateful leaves)
    pub model_counts: RefCell<Vec<u64>>,
}

impl Cx {
    pub fn new(fleaves: Vec<FLeaf>, flush_ok: Vec<bool>, nenvs: Vec<NEnv>) -> Cx {
        Cx { log: Arc::new(Log::new(fleaves.len())), model_counts: RefCell::new(vec![0; fleaves.len()]), fleaves, flush_ok, nenvs }
    }

    /// Re-align the model's counters with the real ones (after a reported divergence or a
    /// diagnostic re-evaluation) so one finding does not cascade.
    pub fn resync(&self) {
        let mut m = self.model_counts.borrow_mut();
        for (i, c) in self.log.counters.iter().enumerate() {
            m[i] = c.load(std::sync::atomic::Ordering::SeqCst);
        }
    }

    pub fn leaf_f(&self, i: usize) -> LeafF {
        LeafF { idx: i, leaf: self.fleaves[i].clone(), log: self.log.clone() }
    }

    pub fn rec(&self, id: usize) -> RecLeaf {
        RecLeaf { id, flush_ok: self.flush_ok[id], log: self.log.clone() }
    }
}

// ---------------------------------------------------------------------------
// filter trees
// ---------------------------------------------------------------------------

#[derive(Clone, Debug, PartialEq, Eq, Hash)]
pub enum FTree {
    /// table index, built through `filter::from_fn` (true) or as a plain generic struct (false)
    Leaf(usize, bool),
    Empty,
    Always,
    And(Box<FTree>, Box<FTree>),
    Or(Box<FTree>, Box<FTree>),
    Some(Box<FTree>),
    None,
    Boxed(Box<FTree>),
    Arced(Box<FTree>),
    Ref(Box<FTree>),
    /// viewed through `&dyn ErasedFilter` (no auto traits)
    Dyn(Box<FTree>),
}

impl FTree {
    pub fn kind(&self) -> &'static str {
        match self {
            FTree::Leaf(_, false) => "leaf",
            FTree::Leaf(_, true) => "from-fn",
            FTree::Empty => "empty",
            FTree::Always => "always",
            FTree::And(..) => "and",
            FTree::Or(..) => "or",
            FTree::Some(_) => "some",
            FTree::None => "none",
            FTree::Boxed(_) => "box",
            FTree::Arced(_) => "arc",
            FTree::Ref(_) => "ref",
            FTree::Dyn(_) => "dyn",
        }
    }

    pub fn children(&self) -> Vec<&FTree> {
        match self {
            FTree::And(a, b) | FTree::Or(a, b) => vec![a, b],
            FTree::Some(a) | FTree::Boxed(a) | FTree::Arced(a) | FTree::Ref(a) | FTree::Dyn(a) => vec![a],
            _ => vec![],
        }
    }

    /// Structure without leaf parameters.
    pub fn shape(&self, out: &mut String) {
        out.push_str(self.kind());
        let ch = self.children();
        if !ch.is_empty() {
            out.push('(');
            for (i, c) in ch.iter().enumerate() {
                if i > 0 {
                    out.push(',');
                }
                c.shape(out);
            }
            out.push(')');
        }
    }
}

/// What the model expects of one emission.
#[derive(Default, Debug)]
pub struct Expect {
    pub deliveries: Vec<(usize, Snap)>,
    /// every evaluation of a filter leaf that Rust's `&&` / `||` over the same trees makes, in
    /// order: (leaf index, the event it is shown, its answer)
    pub evals: Vec<(usize, Snap, bool)>,
    /// coverage: right-hand sides the model skipped, evaluations of stateful leaves
    pub and_right_skipped: u64,
    pub or_right_skipped: u64,
    pub stateful_evals: u64,
    pub stateful_exhausted: u64,
    /// evaluations of leaves that read through typed lookups / stock level filters, and those of
    /// them where the first value for the key fails the cast while a later duplicate would pass it
    pub typed_evals: u64,
    pub typed_first_fails_later_casts: u64,
}

/// Logical value of a filter tree on an event with `&&` / `||` semantics: the right side is not
/// evaluated when the left decides. Advances the model's leaf counters.
pub fn feval(t: &FTree, cx: &Cx, ev: &MEvent, out: &mut Expect) -> bool {
    let snap = Snap::model(ev);
    let mut counts = cx.model_counts.borrow_mut();
    feval_in(t, &cx.fleaves, ev, &snap, &mut counts, out)
}

/// The same without touching the model's state (for diagnostics and what-if questions).
pub fn feval_pure(t: &FTree, cx: &Cx, ev: &MEvent) -> bool {
    let snap = Snap::model(ev);
    let mut counts = cx.model_counts.borrow().clone();
    feval_in(t, &cx.fleaves, ev, &snap, &mut counts, &mut Expect::default())
}

fn feval_in(t: &FTree, leaves: &[FLeaf], ev: &MEvent, snap: &Snap, counts: &mut Vec<u64>, out: &mut Expect) -> bool {
    match t {
        FTree::Leaf(i, _) => {
            let a = leaves[*i].eval_model(ev, counts[*i]);
            counts[*i] += 1;
            out.evals.push((*i, snap.clone(), a));
            let typed = match &leaves[*i] {
                FLeaf::Pull(k, ty, _) => Some((k.as_str(), *ty)),
                FLeaf::MinLevel(..) | FLeaf::PathMap(..) => Some((emit::well_known::KEY_LVL, Ty::Level)),
                _ => None,
            };
            if let Some((k, ty)) = typed {
                out.typed_evals += 1;
                let mut vals = ev.props.iter().filter(|(pk, _)| pk == k).map(|(_, v)| v.cast(ty).is_some());
                if vals.next() == Some(false) && vals.any(|c| c) {
                    out.typed_first_fails_later_casts += 1;
                }
            }
            if let FLeaf::Budget(_) = leaves[*i] {
                out.stateful_evals += 1;
                if !a {
                    out.stateful_exhausted += 1;
                }
            }
            a
        }
        FTree::Empty | FTree::Always | FTree::None => true,
        FTree::And(a, b) => {
            if !feval_in(a, leaves, ev, snap, counts, out) {
                out.and_right_skipped += 1;
                return false;
            }
            feval_in(b, leaves, ev, snap, counts, out)
        }
        FTree::Or(a, b) => {
            if feval_in(a, leaves, ev, snap, counts, out) {
                out.or_right_skipped += 1;
                return true;
            }
            feval_in(b, leaves, ev, snap, counts, out)
        }
        FTree::Some(a) | FTree::Boxed(a) | FTree::Arced(a) | FTree::Ref(a) | FTree::Dyn(a) => feval_in(a, leaves, ev, snap, counts, out),
    }
}

impl FTree {
    pub fn contains_leaf(&self, idx: usize) -> bool {
        match self {
            FTree::Leaf(i, _) => *i == idx,
            _ => self.children().iter().any(|c| c.contains_leaf(idx)),
        }
    }

    /// The `and` / `or` node whose left side decides on `ev` while leaf `idx` sits on its right.
    pub fn decided_left_of(&self, idx: usize, cx: &Cx, ev: &MEvent) -> Option<&'static str> {
        match self {
            FTree::And(a, b) | FTree::Or(a, b) => {
                let is_and = matches!(self, FTree::And(..));
                if b.contains_leaf(idx) && feval_pure(a, cx, ev) != is_and {
                    return Some(if is_and { "and" } else { "or" });
                }
                a.decided_left_of(idx, cx, ev).or_else(|| b.decided_left_of(idx, cx, ev))
            }
            _ => self.children().iter().find_map(|c| c.decided_left_of(idx, cx, ev)),
        }
    }
}

impl ETree {
    pub fn filter_trees<'a>(&'a self, out: &mut Vec<&'a FTree>) {
        if let ETree::WrapFilter(_, f, _) | ETree::Rt(_, f, _) = self {
            out.push(f);
        }
        for c in self.children() {
            c.filter_trees(out);
        }
    }
}

pub type DynF = Box<dyn ErasedFilter + Send + Sync>;

/// Goes through `impl Filter for &F`.
pub struct ByRefF<T>(pub T);

impl<T: Filter> Filter for ByRefF<T> {
    fn matches<E: ToEvent>(&self, evt: E) -> bool {
        <&T as Filter>::matches(&&self.0, evt)
    }
}

/// Goes through `impl Filter for dyn ErasedFilter` (the variant without auto traits).
pub struct ViaDynF<T>(pub T);

impl<T: Filter> Filter for ViaDynF<T> {
    fn matches<E: ToEvent>(&self, evt: E) -> bool {
        let d: &dyn ErasedFilter = &self.0;
        d.matches(evt)
    }
}

pub fn build_f(t: &FTree, cx: &Cx) -> DynF {
    match t {
        FTree::Leaf(i, false) => Box::new(cx.leaf_f(*i)),
        FTree::Leaf(i, true) => {
            let l = cx.leaf_f(*i);
            Box::new(filter::from_fn(move |evt| l.answer(&evt)))
        }
        FTree::Empty => Box::new(Empty),
        FTree::Always => Box::new(filter::always()),
        FTree::And(a, b) => Box::new(build_f(a, cx).and_when(build_f(b, cx))),
        FTree::Or(a, b) => Box::new(build_f(a, cx).or_when(build_f(b, cx))),
        FTree::Some(a) => Box::new(Some(build_f(a, cx))),
        FTree::None => Box::new(None::<DynF>),
        FTree::Boxed(a) => Box::new(build_f(a, cx)),
        FTree::Arced(a) => {
            let inner: Arc<dyn ErasedFilter + Send + Sync> = Arc::from(build_f(a, cx));
            Box::new(inner)
        }
        FTree::Ref(a) => Box::new(ByRefF(build_f(a, cx))),
        FTree::Dyn(a) => Box::new(ViaDynF(build_f(a, cx))),
    }
}

// ---------------------------------------------------------------------------
// destination trees
// ---------------------------------------------------------------------------

#[derive(Clone, Debug, PartialEq, Eq, Hash)]
pub enum WrapKind {
    Pass,
    Drop,
    Twice,
    AddProp(String, MVal),
    StripExtent,
}

impl WrapKind {
    pub fn kind(&self) -> &'static str {
        match self {
            WrapKind::Pass => "pass",
            WrapKind::Drop => "drop",
            WrapKind::Twice => "twice",
            WrapKind::AddProp(..) => "add-prop",
            WrapKind::StripExtent => "strip-extent",
        }
    }
}

#[derive(Clone, Debug, PartialEq, Eq, Hash)]
pub enum ETree {
    /// recorder id, built through `emitter::from_fn` (true) or as a plain generic struct (false)
    Leaf(usize, bool),
    Empty,
    And(Box<ETree>, Box<ETree>),
    Some(Box<ETree>),
    None,
    Boxed(Box<ETree>),
    Arced(Box<ETree>),
    Ref(Box<ETree>),
    Dyn(Box<ETree>),
    /// `wrap(inner, from_filter(f))`; the flag puts the wrapping behind `dyn ErasedWrapping`
    WrapFilter(Box<ETree>, FTree, bool),
    WrapFn(Box<ETree>, WrapKind),
    /// a nested runtime used as an emitter: own filter, ambient props and clock (table index)
    Rt(Box<ETree>, FTree, usize),
}

impl ETree {
    pub fn kind(&self) -> &'static str {
        match self {
            ETree::Leaf(_, false) => "leaf",
            ETree::Leaf(_, true) => "from-fn",
            ETree::Empty => "empty",
            ETree::And(..) => "and",
            ETree::Some(_) => "some",
            ETree::None => "none",
            ETree::Boxed(_) => "box",
            ETree::Arced(_) => "arc",
            ETree::Ref(_) => "ref",
            ETree::Dyn(_) => "dyn",
            ETree::WrapFilter(_, _, false) => "wrap-filter",
            ETree::WrapFilter(_, _, true) => "wrap-filter-erased",
            ETree::WrapFn(..) => "wrap-fn",
            ETree::Rt(..) => "runtime",
        }
    }

    pub fn children(&self) -> Vec<&ETree> {
        match self {
            ETree::And(a, b) => vec![a, b],
            ETree::Some(a)
            | ETree::Boxed(a)
            | ETree::Arced(a)
            | ETree::Ref(a)
            | ETree::Dyn(a)
            | ETree::WrapFilter(a, _, _)
            | ETree::WrapFn(a, _)
            | ETree::Rt(a, _, _) => vec![a],
            _ => vec![],
        }
    }

    pub fn shape(&self, out: &mut String) {
        out.push_str(self.kind());
        match self {
            ETree::WrapFn(_, k) => {
                out.push(':');
                out.push_str(k.kind());
            }
            ETree::WrapFilter(_, f, _) | ETree::Rt(_, f, _) => {
                out.push('[');
                f.shape(out);
                out.push(']');
            }
            _ => {}
        }
        let ch = self.children();
        if !ch.is_empty() {
            out.push('(');
            for (i, c) in ch.iter().enumerate() {
                if i > 0 {
                    out.push(',');
                }
                c.shape(out);
            }
            out.push(')');
        }
    }

    pub fn leaf_count(&self) -> usize {
        match self {
            ETree::Leaf(..) => 1,
            _ => self.children().iter().map(|c| c.leaf_count()).sum(),
        }
    }
}

/// Logical definition of every destination combinator.
pub fn deliver(t: &ETree, cx: &Cx, ev: &MEvent, out: &mut Expect) {
    match t {
        ETree::Leaf(id, _) => out.deliveries.push((*id, Snap::model(ev))),
        ETree::Empty | ETree::None => {}
        ETree::And(a, b) => {
            deliver(a, cx, ev, out);
            deliver(b, cx, ev, out);
        }
        ETree::Some(a) | ETree::Boxed(a) | ETree::Arced(a) | ETree::Ref(a) | ETree::Dyn(a) => deliver(a, cx, ev, out),
        ETree::WrapFilter(a, f, _) => {
            if feval(f, cx, ev, out) {
                deliver(a, cx, ev, out);
            }
        }
        ETree::WrapFn(a, k) => match k {
            WrapKind::Pass => deliver(a, cx, ev, out),
            WrapKind::Drop => {}
            WrapKind::Twice => {
                deliver(a, cx, ev, out);
                deliver(a, cx, ev, out);
            }
            WrapKind::AddProp(k, v) => {
                let mut ev2 = ev.clone();
                ev2.props.push((k.clone(), v.clone()));
                deliver(a, cx, &ev2, out);
            }
            WrapKind::StripExtent => {
                let mut ev2 = ev.clone();
                ev2.ext = MExt::None;
                deliver(a, cx, &ev2, out);
            }
        },
        ETree::Rt(a, f, n) => {
            let env = &cx.nenvs[*n];
            let ev2 = ev.built(&env.ambient, env.clock);
            if feval(f, cx, &ev2, out) {
                deliver(a, cx, &ev2, out);
            }
        }
    }
}

/// (result, recorder ids flushed). `emitter::from_fn` leaves need no flushing and answer true.
pub fn flush_model(t: &ETree, cx: &Cx, flushed: &mut Vec<usize>) -> bool {
    match t {
        ETree::Leaf(id, false) => {
            flushed.push(*id);
            cx.flush_ok[*id]
        }
        ETree::Leaf(_, true) | ETree::Empty | ETree::None => true,
        ETree::And(a, b) => {
            let x = flush_model(a, cx, flushed);
            let y = flush_model(b, cx, flushed);
            x && y
        }
        _ => flush_model(t.children()[0], cx, flushed),
    }
}

pub type DynE = Box<dyn ErasedEmitter + Send + Sync>;

pub struct ByRefE<T>(pub T);

impl<T: Emitter> Emitter for ByRefE<T> {
    fn emit<E: ToEvent>(&self, evt: E) {
        <&T as Emitter>::emit(&&self.0, evt)
    }

    fn blocking_flush(&self, timeout: Duration) -> bool {
        <&T as Emitter>::blocking_flush(&&self.0, timeout)
    }
}

pub struct ViaDynE<T>(pub T);

impl<T: Emitter> Emitter for ViaDynE<T> {
    fn emit<E: ToEvent>(&self, evt: E) {
        let d: &dyn ErasedEmitter = &self.0;
        d.emit(evt)
    }

    fn blocking_flush(&self, timeout: Duration) -> bool {
        let d: &dyn ErasedEmitter = &self.0;
        d.blocking_flush(timeout)
    }
}

/// Goes through `impl Wrapping for dyn ErasedWrapping`.
pub struct ViaDynW<W>(pub W);

impl<W: wrapping::Wrapping> wrapping::Wrapping for ViaDynW<W> {
    fn wrap<O: Emitter, E: ToEvent>(&self, output: O, evt: E) {
        let d: &dyn wrapping::ErasedWrapping = &self.0;
        d.wrap(output, evt)
    }
}

pub fn wrap_pass() -> wrapping::FromFn<impl Fn(&dyn ErasedEmitter, Event<&dyn ErasedProps>) + Send + Sync + 'static> {
    wrapping::from_fn(|out, evt| out.emit(evt))
}

pub fn wrap_drop() -> wrapping::FromFn<impl Fn(&dyn ErasedEmitter, Event<&dyn ErasedProps>) + Send + Sync + 'static> {
    wrapping::from_fn(|_, _| {})
}

pub fn wrap_twice() -> wrapping::FromFn<impl Fn(&dyn ErasedEmitter, Event<&dyn ErasedProps>) + Send + Sync + 'static> {
    wrapping::from_fn(|out, evt| {
        out.emit(&evt);
        out.emit(&evt);
    })
}

pub fn wrap_add(k: String, v: MVal) -> wrapping::FromFn<impl Fn(&dyn ErasedEmitter, Event<&dyn ErasedProps>) + Send + Sync + 'static> {
    wrapping::from_fn(move |out, evt| out.emit(evt.map_props(|p| p.and_props((k.as_str(), v.clone())))))
}

pub fn wrap_strip() -> wrapping::FromFn<impl Fn(&dyn ErasedEmitter, Event<&dyn ErasedProps>) + Send + Sync + 'static> {
    wrapping::from_fn(|out, evt| out.emit(evt.with_extent(None::<emit::Extent>)))
}

pub fn build_e(t: &ETree, cx: &Cx) -> DynE {
    match t {
        ETree::Leaf(id, false) => Box::new(cx.rec(*id)),
        ETree::Leaf(id, true) => {
            let rec = cx.rec(*id);
            Box::new(emitter::from_fn(move |evt| rec.record(&evt)))
        }
        ETree::Empty => Box::new(Empty),
        ETree::And(a, b) => Box::new(build_e(a, cx).and_to(build_e(b, cx))),
        ETree::Some(a) => Box::new(Some(build_e(a, cx))),
        ETree::None => Box::new(None::<DynE>),
        ETree::Boxed(a) => Box::new(build_e(a, cx)),
        ETree::Arced(a) => {
            let inner: Arc<dyn ErasedEmitter + Send + Sync> = Arc::from(build_e(a, cx));
            Box::new(inner)
        }
        ETree::Ref(a) => Box::new(ByRefE(build_e(a, cx))),
        ETree::Dyn(a) => Box::new(ViaDynE(build_e(a, cx))),
        ETree::WrapFilter(a, f, false) => Box::new(emitter::wrap(build_e(a, cx), wrapping::from_filter(build_f(f, cx)))),
        ETree::WrapFilter(a, f, true) => Box::new(emitter::wrap(build_e(a, cx), ViaDynW(wrapping::from_filter(build_f(f, cx))))),
        ETree::WrapFn(a, k) => {
            let inner = build_e(a, cx);
            match k {
                WrapKind::Pass => Box::new(inner.wrap_emitter(wrap_pass())),
                WrapKind::Drop => Box::new(inner.wrap_emitter(wrap_drop())),
                WrapKind::Twice => Box::new(inner.wrap_emitter(wrap_twice())),
                WrapKind::AddProp(k, v) => Box::new(inner.wrap_emitter(wrap_add(k.clone(), v.clone()))),
                WrapKind::StripExtent => Box::new(inner.wrap_emitter(wrap_strip())),
            }
        }
        ETree::Rt(a, f, n) => {
            let env = &cx.nenvs[*n];
            Box::new(Runtime::build(
                build_e(a, cx),
                build_f(f, cx),
                FixedCtxt::new(env.ambient.clone()),
                Clk::new(env.clock),
                Empty,
            ))
        }
    }
}

// ---------------------------------------------------------------------------
// pair builders for statically typed generic shapes: the real value is built from emit's own
// generic combinators (no erasure), the model tree alongside it
// ---------------------------------------------------------------------------

pub struct FP<T> {
    pub real: T,
    pub model: FTree,
}

pub fn fl(cx: &Cx, i: usize) -> FP<LeafF> {
    FP { real: cx.leaf_f(i), model: FTree::Leaf(i, false) }
}

pub fn ffn(cx: &Cx, i: usize) -> FP<filter::FromFn<impl Fn(Event<&dyn ErasedProps>) -> bool + Send + Sync + 'static>> {
    let l = cx.leaf_f(i);
    FP { real: filter::from_fn(move |evt| l.answer(&evt)), model: FTree::Leaf(i, true) }
}

pub fn fempty() -> FP<Empty> {
    FP { real: Empty, model: FTree::Empty }
}

pub fn falways() -> FP<filter::Always> {
    FP { real: filter::always(), model: FTree::Always }
}

pub fn fand<A: Filter, B: Filter>(a: FP<A>, b: FP<B>) -> FP<And<A, B>> {
    FP { real: a.real.and_when(b.real), model: FTree::And(Box::new(a.model), Box::new(b.model)) }
}

pub fn f_or<A: Filter, B: Filter>(a: FP<A>, b: FP<B>) -> FP<Or<A, B>> {
    FP { real: a.real.or_when(b.real), model: FTree::Or(Box::new(a.model), Box::new(b.model)) }
}

pub fn fsome<A>(a: FP<A>) -> FP<Option<A>> {
    FP { real: Some(a.real), model: FTree::Some(Box::new(a.model)) }
}

pub fn fnone() -> FP<Option<LeafF>> {
    FP { real: None, model: FTree::None }
}

pub fn fbox<A>(a: FP<A>) -> FP<Box<A>> {
    FP { real: Box::new(a.real), model: FTree::Boxed(Box::new(a.model)) }
}

pub fn farc<A>(a: FP<A>) -> FP<Arc<A>> {
    FP { real: Arc::new(a.real), model: FTree::Arced(Box::new(a.model)) }
}

pub fn fref<A>(a: FP<A>) -> FP<ByRefF<A>> {
    FP { real: ByRefF(a.real), model: FTree::Ref(Box::new(a.model)) }
}

pub fn fdyn<A>(a: FP<A>) -> FP<ViaDynF<A>> {
    FP { real: ViaDynF(a.real), model: FTree::Dyn(Box::new(a.model)) }
}

pub struct EP<T> {
    pub real: T,
    pub model: ETree,
}

pub fn el(cx: &Cx, id: usize) -> EP<RecLeaf> {
    EP { real: cx.rec(id), model: ETree::Leaf(id, false) }
}

pub fn efn(cx: &Cx, id: usize) -> EP<emitter::FromFn<impl Fn(Event<&dyn ErasedProps>) + Send + Sync + 'static>> {
    let rec = cx.rec(id);
    EP { real: emitter::from_fn(move |evt| rec.record(&evt)), model: ETree::Leaf(id, true) }
}

pub fn eempty() -> EP<Empty> {
    EP { real: Empty, model: ETree::Empty }
}

pub fn eand<A: Emitter, B: Emitter>(a: EP<A>, b: EP<B>) -> EP<And<A, B>> {
    EP { real: a.real.and_to(b.real), model: ETree::And(Box::new(a.model), Box::new(b.model)) }
}

pub fn esome<A>(a: EP<A>) -> EP<Option<A>> {
    EP { real: Some(a.real), model: ETree::Some(Box::new(a.model)) }
}

pub fn enone() -> EP<Option<RecLeaf>> {
    EP { real: None, model: ETree::None }
}

pub fn ebox<A>(a: EP<A>) -> EP<Box<A>> {
    EP { real: Box::new(a.real), model: ETree::Boxed(Box::new(a.model)) }
}

pub fn earc<A>(a: EP<A>) -> EP<Arc<A>> {
    EP { real: Arc::new(a.real), model: ETree::Arced(Box::new(a.model)) }
}

pub fn eref<A>(a: EP<A>) -> EP<ByRefE<A>> {
    EP { real: ByRefE(a.real), model: ETree::Ref(Box::new(a.model)) }
}

pub fn edyn<A>(a: EP<A>) -> EP<ViaDynE<A>> {
    EP { real: ViaDynE(a.real), model: ETree::Dyn(Box::new(a.model)) }
}

pub fn ewf<A: Emitter, F: Filter>(a: EP<A>, f: FP<F>) -> EP<Wrap<A, wrapping::FromFilter<F>>> {
    EP {
        real: emitter::wrap(a.real, wrapping::from_filter(f.real)),
        model: ETree::WrapFilter(Box::new(a.model), f.model, false),
    }
}

pub fn ewf_erased<A: Emitter, F: Filter>(a: EP<A>, f: FP<F>) -> EP<Wrap<A, ViaDynW<wrapping::FromFilter<F>>>> {
    EP {
        real: emitter::wrap(a.real, ViaDynW(wrapping::from_filter(f.real))),
        model: ETree::WrapFilter(Box::new(a.model), f.model, true),
    }
}

pub fn ew_pass<A: Emitter>(a: EP<A>) -> EP<Wrap<A, wrapping::FromFn<impl Fn(&dyn ErasedEmitter, Event<&dyn ErasedProps>) + Send + Sync + 'static>>> {
    EP { real: a.real.wrap_emitter(wrap_pass()), model: ETree::WrapFn(Box::new(a.model), WrapKind::Pass) }
}

pub fn ew_drop<A: Emitter>(a: EP<A>) -> EP<Wrap<A, wrapping::FromFn<impl Fn(&dyn ErasedEmitter, Event<&dyn ErasedProps>) + Send + Sync + 'static>>> {
    EP { real: a.real.wrap_emitter(wrap_drop()), model: ETree::WrapFn(Box::new(a.model), WrapKind::Drop) }
}

pub fn ew_twice<A: Emitter>(a: EP<A>) -> EP<Wrap<A, wrapping::FromFn<impl Fn(&dyn ErasedEmitter, Event<&dyn ErasedProps>) + Send + Sync + 'static>>> {
    EP { real: a.real.wrap_emitter(wrap_twice()), model: ETree::WrapFn(Box::new(a.model), WrapKind::Twice) }
}

pub fn ew_add<A: Emitter>(a: EP<A>, k: &str, v: MVal) -> EP<Wrap<A, wrapping::FromFn<impl Fn(&dyn ErasedEmitter, Event<&dyn ErasedProps>) + Send + Sync + 'static>>> {
    EP {
        real: a.real.wrap_emitter(wrap_add(k.to_string(), v.clone())),
        model: ETree::WrapFn(Box::new(a.model), WrapKind::AddProp(k.to_string(), v)),
    }
}

pub fn ew_strip<A: Emitter>(a: EP<A>) -> EP<Wrap<A, wrapping::FromFn<impl Fn(&dyn ErasedEmitter, Event<&dyn ErasedProps>) + Send + Sync + 'static>>> {
    EP { real: a.real.wrap_emitter(wrap_strip()), model: ETree::WrapFn(Box::new(a.model), WrapKind::StripExtent) }
}

pub fn ert<A: Emitter, F: Filter>(cx: &Cx, a: EP<A>, f: FP<F>, n: usize) -> EP<Runtime<A, F, FixedCtxt, Clk, Empty>> {
    let env = &cx.nenvs[n];
    EP {
        real: Runtime::build(a.real, f.real, FixedCtxt::new(env.ambient.clone()), Clk::new(env.clock), Empty),
        model: ETree::Rt(Box::new(a.model), f.model, n),
    }
}
