/*!
C02 section "handed": the property collections emit ITSELF wraps around props while handing them on.

Every other section of the monitor checks collections that user code builds or reads. This one
checks the collections a *context implementation* is handed by the adapters of the workspace - a
custom `Ctxt` that looks keys up on the props it is given (`get`, `pull`, `is_unique`, `dedup`)
must see a collection for which lookup agrees with enumeration:

* `emit_traceparent::TraceparentCtxt<C>` hands the props of `open_root` / `open_push` /
  `open_disabled` to the wrapped `C` through the private `ExcludeTraceparentProps<P>` (hides
  `trace_id` / `span_id` / `span_parent` when the props carry a new span id, passes through
  otherwise);
* `dyn ErasedCtxt` hands `&dyn ErasedProps` (`dispatch_open_*`);
* `Option<C>` / `Box<C>` / `Arc<C>` / `&C` / `AssertInternal<C>` forward the `P` they got;
* the *default* `Ctxt::open_push` hands `props.and_props(current)` to `open_root`, the default
  `Ctxt::open_disabled` hands `Empty` to `open_push`;
* `emit_core::emit` hands `props.and_props(current)` to the filter and to the emitter, where
  `current` is `TraceparentCtxtProps<..>`, `ErasedCurrent`, `Option<Slot<..>>` or nestings of them;
* a `#[emit::span]` function hands `ctxt_props.and_props(span_ctxt)` to `Frame::push` and
  `span_props.and_props(ctxt_props).and_props(span_ctxt).and_props(current)` to the filter.

`Rec<C>` is a recording context: it forwards everything to the wrapped `ThreadLocalCtxt` but first
runs the full C02 oracle (`check_all`: enumerate once, first-wins map, `get` / `pull` / `is_unique`
/ `dedup()` / break-at-i for every probe key incl. the three id keys, present and absent, on the
erased value, `&`, dedup and as_map views - the erased dispatch calls the adapter's own `for_each` /
`get` / `is_unique` - plus the adapter's own `pull` against its own `get`, see `handed`) on the
`P: Props` it receives in each `open_*`.
`RecMin<C>` does the same but leaves `open_push` / `open_disabled` to the trait's defaults.
The state of the oracle lives in a thread-local so the contexts stay `Copy + Send + Sync + 'static`
(one of them sits in a `static` runtime behind `#[emit::span]`).
*/

use super::*;

use emit::{
    ctxt::ErasedCtxt,
    runtime::{AmbientSlot, AssertInternal, Runtime},
};
use emit_traceparent::{TraceFlags, Traceparent};

pub(crate) struct RecState {
    r: Report,
    probes: Vec<String>,
    /// which adapter hands the props to the recording ctxt (the composition of the scenario)
    via: &'static str,
    /// what the pushed props are, as far as the ids are concerned
    class: String,
    seed: u64,
    index: u64,
    text: String,
    calls: u64,
}

thread_local! {
    static REC: RefCell<Option<RecState>> = const { RefCell::new(None) };
}

fn set_class(class: String) {
    REC.with(|s| {
        if let Some(st) = s.borrow_mut().as_mut() {
            st.class = class;
        }
    })
}

/// The oracle on a collection that emit handed to `to` (`None`: to the recording ctxt itself).
fn handed<P: Props>(to: Option<&'static str>, op: &str, props: &P) {
    // taken out while the oracle runs: a nested call (there is none today) would simply not be checked
    let Some(mut st) = REC.with(|s| s.borrow_mut().take()) else {
        return;
    };
    st.calls += 1;
    let kind = match to {
        None => format!("props-handed-to-{}:{}:{}", st.via, op, st.class),
        Some("with_current") => format!("ambient-snapshot:through-{}", st.via),
        Some(to) => format!("props-handed-to-{}:{}:ctxt={}", to, op, st.via),
    };
    {
        let (seed, index, via) = (st.seed, st.index, st.via);
        let (text, class) = (&st.text, &st.class);
        let case = || json!({"section": "handed", "seed": seed, "index": index, "scenario": text, "handed_through": via, "to": to, "op": op, "class": class});
        let cx = Cx {
            kind: &kind,
            probes: &st.probes,
            buf: "",
            case: &case,
        };
        let r = &mut st.r;
        r.eval();
        r.observe("props-handed-on-by-emit-checked", 1);
        r.observe(&format!("handed:{}:{}", to.unwrap_or(via), op), 1);
        if to.is_none() {
            let base = class.split(['+', ':']).next().unwrap_or("");
            r.observe(&format!("handed-to-ctxt-by-class:{}", base), 1);
        }
        // The whole oracle runs on the adapter through `&dyn ErasedProps`: the dispatch calls the
        // adapter's OWN for_each / get / is_unique (the only methods besides `pull` an impl can
        // override), on the erased value, behind `&`, through `dedup()` and `as_map()`. `pull`, which
        // the dispatch does not carry, is compared generically. So `check_all` is instantiated once
        // instead of once per adapter type x composition x carrier (~200 types: a minute of rustc).
        let checked = catch(|| {
            check_pulls(r, &cx, props);
            let erased: &dyn ErasedProps = props;
            check_all(r, &cx, &erased)
        });
        match checked {
            Ok(f) => {
                if f.entries > 0 {
                    r.observe("props-handed-on-by-emit-with-entries", 1);
                }
                note_facts(r, &f, &kind)
            }
            Err(msg) => viol(r, &cx, "panic", "any", format!("panicked: {}", msg)),
        }
    }
    REC.with(|s| *s.borrow_mut() = Some(st));
}

/// `pull::<T>(k)` of the adapter itself against its own `get(k).and_then(cast::<T>)`, for the types a
/// context implementation reads (ids, numbers, text) and every probe key. (That `get` is the first
/// enumerated value is established by `check_all` through the dispatch.)
fn check_pulls<P: Props>(r: &mut Report, cx: &Cx, p: &P) {
    for k in cx.probes {
        let key = k.as_str();
        let mut bad: Vec<String> = Vec::new();
        macro_rules! one {
            ($t:ty) => {{
                let pulled = p.pull::<$t, _>(key);
                let via = p.get(key).and_then(|v| v.cast::<$t>());
                if pulled != via {
                    bad.push(format!("{}: pull {:?}, get().cast() {:?}", stringify!($t), pulled, via));
                }
            }};
        }
        one!(SpanId);
        one!(TraceId);
        one!(i64);
        one!(String);
        r.observe("pulls", 4);
        if !bad.is_empty() {
            viol(r, cx, "pull-differs", "value", format!("pull({:?}) of the adapter disagrees with its get: {}", k, bad.join("; ")));
        }
    }
}

/// Forwards everything; checks what it is handed in every `open_*`.
#[derive(Clone, Copy, Debug)]
pub(crate) struct Rec<C>(pub C);

impl<C: Ctxt> Ctxt for Rec<C> {
    type Current = C::Current;
    type Frame = C::Frame;

    fn open_root<P: Props>(&self, props: P) -> Self::Frame {
        handed(None, "open_root", &props);
        self.0.open_root(props)
    }

    fn open_push<P: Props>(&self, props: P) -> Self::Frame {
        handed(None, "open_push", &props);
        self.0.open_push(props)
    }

    fn open_disabled<P: Props>(&self, props: P) -> Self::Frame {
        handed(None, "open_disabled", &props);
        self.0.open_disabled(props)
    }

    fn enter(&self, frame: &mut Self::Frame) {
        self.0.enter(frame)
    }

    fn with_current<R, F: FnOnce(&Self::Current) -> R>(&self, with: F) -> R {
        self.0.with_current(with)
    }

    fn exit(&self, frame: &mut Self::Frame) {
        self.0.exit(frame)
    }

    fn close(&self, frame: Self::Frame) {
        self.0.close(frame)
    }
}

/// Only the required methods: `open_push` / `open_disabled` are the trait's defaults, so
/// `open_root` is handed `props.and_props(current)` resp. `Empty.and_props(current)`.
#[derive(Clone, Copy, Debug)]
pub(crate) struct RecMin<C>(pub C);

impl<C: Ctxt> Ctxt for RecMin<C> {
    type Current = C::Current;
    type Frame = C::Frame;

    fn open_root<P: Props>(&self, props: P) -> Self::Frame {
        handed(None, "open_root", &props);
        self.0.open_root(props)
    }

    fn enter(&self, frame: &mut Self::Frame) {
        self.0.enter(frame)
    }

    fn with_current<R, F: FnOnce(&Self::Current) -> R>(&self, with: F) -> R {
        self.0.with_current(with)
    }

    fn exit(&self, frame: &mut Self::Frame) {
        self.0.exit(frame)
    }

    fn close(&self, frame: Self::Frame) {
        self.0.close(frame)
    }
}

/// What `emit_core::emit` (and the span machinery) hands to the emitter ...
pub(crate) struct HEmitter;

impl Emitter for HEmitter {
    fn emit<E: emit::event::ToEvent>(&self, evt: E) {
        let evt = evt.to_event();
        handed(Some("emitter"), "emit", evt.props());
    }

    fn blocking_flush(&self, _: Duration) -> bool {
        true
    }
}

/// ... and to the filter.
pub(crate) struct HFilter;

impl emit::Filter for HFilter {
    fn matches<E: emit::event::ToEvent>(&self, evt: E) -> bool {
        let evt = evt.to_event();
        handed(Some("filter"), "matches", evt.props());
        true
    }
}

type WrappedRec = TraceparentCtxt<Rec<ThreadLocalCtxt>>;

static REC_RT: Runtime<HEmitter, HFilter, WrappedRec, Empty, AmbRng> =
    Runtime::build(HEmitter, HFilter, TraceparentCtxt::new(Rec(ThreadLocalCtxt::shared())), Empty, AmbRng);

#[emit::span(rt: REC_RT, "handed span {n}")]
fn in_rec_span(n: i32, body: &mut dyn FnMut()) {
    body()
}

#[derive(Clone, Copy, Debug, PartialEq)]
enum HKind {
    Push,
    Root,
    Disabled,
    /// `SpanCtxt::current(ctxt).new_child(rng).push(ctxt)`
    SpanCtxtPush,
    /// `Frame::push(ctxt, props.and_props(span_ctxt))`: the shape a starting span pushes
    PushWithSpanCtxt,
    /// a real `#[emit::span]` function on the static runtime
    MacroSpan,
    /// `Traceparent::push`: sets the active traceparent without touching the wrapped ctxt
    TraceparentPush,
}

#[derive(Clone, Debug)]
struct HLevel {
    kind: HKind,
    entries: Vec<(String, AVal)>,
    /// the collection type the entries are pushed as (`Push` / `Root` / `Disabled` levels):
    /// 0 slice of pairs, 1 `BTreeMap`, 2 `HashMap`, 3 a single pair, 4 `&dyn ErasedProps`,
    /// 5 `dedup()` view, 6 macro-built props (`is_unique` collections among them)
    carrier: u8,
    tp: (u128, u64, bool),
}

impl HLevel {
    /// The entries as the carrier holds them.
    fn effective(&self) -> Vec<(String, AVal)> {
        let mut out: Vec<(String, AVal)> = Vec::new();
        match self.carrier {
            // maps built with `collect`: the last value of a key stays
            1 | 2 => {
                for (k, v) in &self.entries {
                    match out.iter_mut().find(|(e, _)| e == k) {
                        Some(slot) => slot.1 = v.clone(),
                        None => out.push((k.clone(), v.clone())),
                    }
                }
            }
            3 => out.extend(self.entries.first().cloned()),
            // macro-built props hold distinct keys (at most four here)
            6 => {
                for (k, v) in &self.entries {
                    if out.len() < 4 && !out.iter().any(|(e, _)| e == k) {
                        out.push((k.clone(), v.clone()));
                    }
                }
            }
            _ => out = self.entries.clone(),
        }
        out
    }
}

fn open<C: Ctxt + Copy, P: Props>(ctxt: C, kind: HKind, props: P) -> Frame<C> {
    match kind {
        HKind::Root => Frame::root(ctxt, props),
        HKind::Disabled => Frame::disabled(ctxt, props),
        _ => Frame::push(ctxt, props),
    }
}

/// How a composition is handed the carrier of a level: as its concrete type (the adapters are then
/// instantiated over every carrier type) or behind `&dyn ErasedProps` (one adapter type per
/// composition; keeps the monitor's compile time down for the compositions that only forward).
type Opener<C> = fn(C, &HLevel) -> Frame<C>;

/// Build the level's carrier and hand it to `k` as its concrete type.
macro_rules! with_carrier {
    ($l:expr, $e:ident, $p:ident => $k:expr) => {{
        use emit::__private::__PrivateMacroProps as M;
        let $e = $l.effective();
        set_class(id_class(&$e));
        match $l.carrier {
            1 => {
                let $p = $e.iter().cloned().collect::<BTreeMap<String, AVal>>();
                $k
            }
            2 => {
                let $p = $e.iter().cloned().collect::<HashMap<String, AVal>>();
                $k
            }
            3 if !$e.is_empty() => {
                let $p = ($e[0].0.as_str(), &$e[0].1);
                $k
            }
            4 => {
                let s = &$e[..];
                let $p: &dyn ErasedProps = &s;
                $k
            }
            5 => {
                let s = &$e[..];
                let $p = Props::dedup(&s);
                $k
            }
            6 => {
                let m = |i: usize| (Str::new_ref(&$e[i].0), Some($e[i].1.to_value()));
                match $e.len() {
                    0 => {
                        let $p = M::from_array([]);
                        $k
                    }
                    1 => {
                        let $p = M::from_array([m(0)]);
                        $k
                    }
                    2 => {
                        let $p = M::from_array([m(0), m(1)]);
                        $k
                    }
                    3 => {
                        let $p = M::from_array([m(0), m(1), m(2)]);
                        $k
                    }
                    _ => {
                        let $p = M::from_array([m(0), m(1), m(2), m(3)]);
                        $k
                    }
                }
            }
            _ => {
                let $p = &$e[..];
                $k
            }
        }
    }};
}

/// The frame of a `Push` / `Root` / `Disabled` level, its entries pushed as the level's carrier.
fn open_concrete<C: Ctxt + Copy>(ctxt: C, l: &HLevel) -> Frame<C> {
    with_carrier!(l, e, p => open(ctxt, l.kind, p))
}

/// The same carriers, handed over behind `&dyn ErasedProps`.
fn open_erased<C: Ctxt + Copy>(ctxt: C, l: &HLevel) -> Frame<C> {
    fn go<C: Ctxt + Copy>(ctxt: C, kind: HKind, p: &dyn ErasedProps) -> Frame<C> {
        open(ctxt, kind, p)
    }
    with_carrier!(l, e, p => go(ctxt, l.kind, &p))
}

fn gen_hlevels(g: &mut Rng, with_macro: bool) -> Vec<HLevel> {
    let n = 1 + g.usize(4);
    let dups = g.chance(1, 3);
    let mut next = 0;
    (0..n)
        .map(|_| {
            let kind = match g.below(14) {
                0..=4 => HKind::Push,
                5 | 6 => HKind::Root,
                7 | 8 => HKind::Disabled,
                9 => HKind::SpanCtxtPush,
                10 => HKind::PushWithSpanCtxt,
                11 => HKind::TraceparentPush,
                _ if with_macro => HKind::MacroSpan,
                _ => HKind::Push,
            };
            let m = match kind {
                HKind::MacroSpan | HKind::TraceparentPush => 0,
                _ => g.usize(6),
            };
            let mut entries: Vec<(String, AVal)> = Vec::new();
            for _ in 0..m {
                let key = if g.chance(3, 5) { *g.pick(&ID_KEYS) } else { *g.pick(&ORDINARY) };
                if dups || !entries.iter().any(|(k, _)| k == key) {
                    entries.push((key.to_string(), gen_aval(g, key, &mut next)));
                }
            }
            let tp = (*g.pick(&[1u128, 2, 0x2a]), *g.pick(&[1u64, 2, 0x2a, 0xdead_beef_0000_0001]), g.chance(3, 4));
            let carrier = *g.pick(&[0u8, 0, 0, 0, 1, 2, 3, 4, 5, 6]);
            HLevel { kind, entries, carrier, tp }
        })
        .collect()
}

/// What the pushed props are as far as `TraceparentCtxt` is concerned (names the signature only;
/// read through the public API on a plain slice of pairs).
fn id_class(entries: &[(String, AVal)]) -> String {
    let has = |key: &str| entries.iter().any(|(k, _)| k == key);
    let span = entries.pull::<SpanId, _>("span_id");
    let mut class = match span {
        Some(s) if Traceparent::current().span_id() == Some(&s) => "same-span-id",
        Some(_) => "new-span-id",
        None if has("span_id") => "unreadable-span-id",
        None if has("trace_id") => "trace-id-only",
        None if has("span_parent") => "span-parent-only",
        None => "no-ids",
    }
    .to_string();
    let repeated = |id: bool| {
        entries
            .iter()
            .enumerate()
            .any(|(i, (k, _))| ID_KEYS.contains(&k.as_str()) == id && entries[..i].iter().any(|(e, _)| e == k))
    };
    if repeated(true) {
        class.push_str("+repeated-id-keys");
    }
    if repeated(false) {
        class.push_str("+duplicate-keys");
    }
    class
}

fn in_hlevels<C: Ctxt + Copy>(ctxt: C, opener: Opener<C>, levels: &[HLevel], k: &mut dyn FnMut()) {
    let Some((l, rest)) = levels.split_first() else {
        return k();
    };
    let mut next = || in_hlevels(ctxt, opener, rest, k);
    let props = &l.entries[..];
    match l.kind {
        HKind::Push | HKind::Root | HKind::Disabled => opener(ctxt, l).call(next),
        HKind::SpanCtxtPush => {
            set_class("new-span-id:span-ctxt".into());
            let sc = SpanCtxt::current(ctxt).new_child(AmbRng);
            sc.push(ctxt).call(|| {
                if props.is_empty() {
                    next()
                } else {
                    set_class(id_class(props));
                    Frame::push(ctxt, props).call(next)
                }
            })
        }
        HKind::PushWithSpanCtxt => {
            let sc = SpanCtxt::current(ctxt).new_child(AmbRng);
            // classified as the whole collection reads: the entries first, then the span's typed ids
            let mut all = l.entries.clone();
            all.extend(sc.trace_id().map(|t| ("trace_id".to_string(), AVal::Trace(*t))));
            all.extend(sc.span_parent().map(|s| ("span_parent".to_string(), AVal::Span(*s))));
            all.extend(sc.span_id().map(|s| ("span_id".to_string(), AVal::Span(*s))));
            set_class(format!("{}:span-ctxt-appended", id_class(&all)));
            Frame::push(ctxt, props.and_props(sc)).call(next)
        }
        HKind::MacroSpan => {
            set_class("new-span-id:span-macro".into());
            in_rec_span(rest.len() as i32, &mut next)
        }
        HKind::TraceparentPush => {
            let flags = if l.tp.2 { TraceFlags::SAMPLED } else { TraceFlags::EMPTY };
            Traceparent::new(TraceId::from_u128(l.tp.0), SpanId::from_u64(l.tp.1), flags).push().call(next)
        }
    }
}

/// Run the scenario over one composition of contexts; in the innermost scope also look at the
/// ambient snapshot the composition shows and at what `emit()` hands to a filter and an emitter.
fn go<C: Ctxt + Copy>(ctxt: C, opener: Opener<C>, levels: &[HLevel], own: &[(String, AVal)])
where
    C::Current: Sized,
{
    in_hlevels(ctxt, opener, levels, &mut || {
        ctxt.with_current(|cur| handed(Some("with_current"), "with_current", cur));
        emit::emit(&HEmitter, &HFilter, ctxt, Empty, Event::new(MDL, Template::literal("c02 handed"), Empty, own));
        set_class("empty:frame-current".into());
        drop(Frame::current(ctxt));
    });
}

pub(crate) const ROUTES: [&str; 16] = [
    "wrapped-ctxt",
    "wrapped-ctxt-behind-dyn",
    "erased-ctxt",
    "wrapped-erased-ctxt",
    "wrapped-option-ctxt",
    "option-ctxt",
    "wrapped-box-ctxt",
    "arc-ctxt",
    "wrapped-assert-internal-ctxt",
    "wrapped-ctxt-behind-assert-internal",
    "wrapped-ctxt-with-default-open_push",
    "ctxt-with-default-open_push",
    "doubly-wrapped-ctxt",
    "wrapped-ctxt-of-static-runtime",
    "wrapped-ctxt-behind-ambient-slot",
    "wrapped-ref-ctxt",
];

fn run_route(route: usize, levels: &[HLevel], own: &[(String, AVal)]) {
    let tlc = tl();
    match route {
        0 => go(TraceparentCtxt::new(Rec(tlc)), open_concrete, levels, own),
        1 => {
            let c = TraceparentCtxt::new(Rec(tlc));
            let e: &dyn ErasedCtxt = &c;
            go(e, open_erased, levels, own)
        }
        2 => {
            let c = Rec(tlc);
            let e: &dyn ErasedCtxt = &c;
            go(e, open_erased, levels, own)
        }
        3 => {
            let c = Rec(tlc);
            let e: &dyn ErasedCtxt = &c;
            go(TraceparentCtxt::new(e), open_erased, levels, own)
        }
        4 => go(TraceparentCtxt::new(Some(Rec(tlc))), open_erased, levels, own),
        5 => go(Some(Rec(tlc)), open_erased, levels, own),
        6 => {
            let b = Box::new(Rec(tlc));
            go(TraceparentCtxt::new(&b), open_erased, levels, own)
        }
        7 => {
            let a = Arc::new(Rec(tlc));
            go(&a, open_erased, levels, own)
        }
        8 => {
            let a = AssertInternal(Rec(tlc));
            go(TraceparentCtxt::new(&a), open_erased, levels, own)
        }
        9 => {
            let a = AssertInternal(TraceparentCtxt::new(Rec(tlc)));
            go(&a, open_erased, levels, own)
        }
        10 => go(TraceparentCtxt::new(RecMin(tlc)), open_concrete, levels, own),
        11 => go(RecMin(tlc), open_erased, levels, own),
        12 => go(TraceparentCtxt::new(TraceparentCtxt::new(Rec(tlc))), open_concrete, levels, own),
        13 => go(*REC_RT.ctxt(), open_concrete, levels, own),
        14 => {
            let slot = AmbientSlot::new();
            let ok = slot
                .init(Runtime::new().with_emitter(HEmitter).with_filter(HFilter).with_ctxt(TraceparentCtxt::new(Rec(tlc))))
                .is_some();
            if ok {
                go(*slot.get().ctxt(), open_erased, levels, own)
            }
        }
        _ => {
            let c = Rec(tlc);
            go(TraceparentCtxt::new(&c), open_erased, levels, own)
        }
    }
}

pub(crate) fn handed_case(r: &mut Report, seed: u64, i: u64) {
    let mut g = Rng::stream(seed, &[2, 4, i]);
    let route = g.usize(ROUTES.len());
    let levels = gen_hlevels(&mut g, route == 13);
    let mut next = 100;
    let own: Vec<(String, AVal)> = (0..g.usize(3))
        .map(|_| {
            let key = if g.chance(1, 3) { *g.pick(&ID_KEYS) } else { *g.pick(&ORDINARY) };
            (key.to_string(), gen_aval(&mut g, key, &mut next))
        })
        .collect();
    let mut probes: Vec<String> = ID_KEYS.iter().chain(ORDINARY.iter()).chain(NEVER.iter().take(2)).map(|s| s.to_string()).collect();
    probes.extend(["evt_kind", "span_name", "n"].iter().map(|s| s.to_string()));
    r.observe("handed-scenarios", 1);
    let st = RecState {
        r: r.child(),
        probes,
        via: ROUTES[route],
        class: "none".into(),
        seed,
        index: i,
        text: format!("route {} ({}): {:?}; event props {:?}", route, ROUTES[route], levels, own),
        calls: 0,
    };
    REC.with(|s| *s.borrow_mut() = Some(st));
    let res = catch(|| run_route(route, &levels, &own));
    let st = REC.with(|s| s.borrow_mut().take());
    match st {
        Some(st) => {
            if st.calls == 0 {
                r.observe("handed-scenarios-in-which-nothing-was-handed-on", 1);
            }
            r.merge(st.r);
        }
        None => r.inconclusive("the recording context's state was lost during a scenario (monitor bug)"),
    }
    if let Err(msg) = res {
        r.violation(
            &format!("C02:panic:any:props-handed-to-{}", ROUTES[route]),
            &format!("a frame program over {} panicked: {}", ROUTES[route], msg),
            json!({"section": "handed", "seed": seed, "index": i, "route": ROUTES[route], "levels": format!("{:?}", levels)}),
        );
    }
}
