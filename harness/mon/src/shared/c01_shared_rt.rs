/*!
C01 over the crate-level accessors of the SHARED runtime: `emit::emitter()`, `emit::filter()`, `emit::ctxt()`,
`emit::clock()`, `emit::rng()`, `emit::blocking_flush()` and the macros without an explicit `rt`.

The shared slot can be initialised once per process, so one configuration = one child process: the parent re-executes
the monitor binary with `--child-shared <k>`; the child initialises the shared runtime through `emit::setup()...init()`
with recording, tagged components chosen by the seed (a filter that rejects by module / by an ambient property / nothing
/ everything, a clock that reads or does not, ambient frames or none), runs the checks below and prints one
`@@CHILD {json}` line. The parent merges the children; a child that dies is attributed like `bin/check` does for a
monitor (a panic raised inside emit is a violation, anything else is inconclusive).

Checks in the child (statement clauses in brackets):
* pipeline path - `emit::runtime::shared().emit(evt)` and `emit::emit!(evt: ..)` [delivered iff the runtime filter accepts
  the event as destinations see it: own ++ ambient, own extent else the clock's reading];
* direct path - `emit::emitter().emit(evt)` [emitting straight to a destination bypasses filter, clock and ambient
  context]: delivered exactly once whatever the filter says, extent exactly as given (absent stays absent), props = own;
* `emit::filter().matches(evt)` answers as the configured filter does on the event AS GIVEN (the accessor hands back the
  filter, not the pipeline); `emit::clock().now()` is the configured clock's reading; `emit::rng()` the configured rng;
  a frame pushed through `emit::ctxt()` is what the pipeline path then sees; `emit::blocking_flush` reaches the
  configured emitter exactly once and returns its answer.
*/

use std::{
    process::{Command, Stdio},
    sync::{
        atomic::{AtomicU64, Ordering::SeqCst},
        Mutex,
    },
    time::Duration,
};

use emit::{Clock as _, Ctxt, Emitter, Filter, Frame, Props, Rng as _};
use vcommon::*;

type Pairs = Vec<(String, String)>;

#[derive(Debug, Clone)]
struct Seen {
    mdl: String,
    has_extent: bool,
    extent_is: Option<u64>,
    props: Pairs,
}

static SEEN: Mutex<Vec<Seen>> = Mutex::new(Vec::new());
static FLUSHES: AtomicU64 = AtomicU64::new(0);
static FILTER_CALLS: AtomicU64 = AtomicU64::new(0);

fn snapshot<P: Props>(p: P) -> Pairs {
    let mut out = Pairs::new();
    let _ = p.for_each(|k, v| {
        out.push((k.get().to_string(), v.to_string()));
        std::ops::ControlFlow::Continue(())
    });
    out
}

struct Rec {
    flush_answer: bool,
}
impl Emitter for Rec {
    fn emit<E: emit::event::ToEvent>(&self, evt: E) {
        let evt = evt.to_event();
        let ext = evt.extent().map(|e| e.as_point().to_unix().as_nanos() as u64);
        SEEN.lock().unwrap().push(Seen { mdl: evt.mdl().to_string(), has_extent: evt.extent().is_some(), extent_is: ext, props: snapshot(evt.props()) });
    }
    fn blocking_flush(&self, _: Duration) -> bool {
        FLUSHES.fetch_add(1, SeqCst);
        self.flush_answer
    }
}

#[derive(Clone, Copy, Debug, PartialEq)]
enum FKind {
    AcceptAll,
    RejectAll,
    RejectModuleNoisy,
    RequireAmbientTenant,
}
struct Filt(FKind);
impl FKind {
    fn decide(self, mdl: &str, props: &Pairs) -> bool {
        match self {
            FKind::AcceptAll => true,
            FKind::RejectAll => false,
            FKind::RejectModuleNoisy => mdl != "noisy",
            FKind::RequireAmbientTenant => props.iter().any(|(k, _)| k == "tenant"),
        }
    }
}
impl Filter for Filt {
    fn matches<E: emit::event::ToEvent>(&self, evt: E) -> bool {
        FILTER_CALLS.fetch_add(1, SeqCst);
        let evt = evt.to_event();
        self.0.decide(&evt.mdl().to_string(), &snapshot(evt.props()))
    }
}

struct Clk(Option<u64>);
impl emit::Clock for Clk {
    fn now(&self) -> Option<emit::Timestamp> {
        self.0.and_then(|n| emit::Timestamp::from_unix(Duration::from_nanos(n)))
    }
}
struct TagRng(u64);
impl emit::Rng for TagRng {
    fn fill<A: AsMut<[u8]>>(&self, mut arr: A) -> Option<A> {
        for b in arr.as_mut() {
            *b = self.0 as u8;
        }
        Some(arr)
    }
    fn gen_u64(&self) -> Option<u64> {
        Some(self.0)
    }
}

const CLOCK_NOW: u64 = 1_700_000_000_000_000_123;
const OWN_TS: u64 = 1_600_000_000_000_000_456;

fn with_event<R>(mdl: &str, own: &Pairs, own_ext: bool, f: impl FnOnce(emit::Event<&[(&str, &str)]>) -> R) -> R {
    let props: Vec<(&str, &str)> = own.iter().map(|(k, v)| (k.as_str(), v.as_str())).collect();
    let ext = if own_ext { emit::Timestamp::from_unix(Duration::from_nanos(OWN_TS)).map(emit::Extent::point) } else { None };
    f(emit::Event::new(emit::Path::new_ref(mdl).unwrap(), emit::Template::literal("shared"), ext, &props[..]))
}

/// Runs in the child process. Prints one `@@CHILD` line.
pub fn child_main(seed: u64, k: u64) -> i32 {
    let mut g = Rng::stream(seed, &[0x5BA2ED, k]);
    let fkind = *g.pick(&[FKind::AcceptAll, FKind::RejectAll, FKind::RejectModuleNoisy, FKind::RejectModuleNoisy, FKind::RequireAmbientTenant, FKind::RequireAmbientTenant]);
    let clock = if g.chance(3, 4) { Some(CLOCK_NOW) } else { None };
    let flush_answer = g.bool();
    let rng_tag = 7 + g.below(1000);
    let ambient: Pairs = match g.below(3) {
        0 => vec![],
        1 => vec![("tenant".into(), "acme".into())],
        _ => vec![("tenant".into(), "acme".into()), ("req".into(), format!("r{}", g.below(100)))],
    };
    let mut viols: Vec<Json> = Vec::new();
    let mut observed: std::collections::BTreeMap<String, u64> = Default::default();
    let mut obs = |k: &str| *observed.entry(k.to_string()).or_default() += 1;
    let cfg = json!({"filter": format!("{:?}", fkind), "clock": clock, "flush_answer": flush_answer, "rng": rng_tag, "ambient": ambient, "seed": seed, "child": k});
    let mut v = |sig: &str, what: String| viols.push(json!({"sig": sig, "what": what}));

    // ---- before initialisation the accessors are inert (C20's clause, observed here for free)
    if emit::clock().now().is_some() || emit::rng().gen_u64().is_some() {
        v("C01:shared-accessor:not-inert-before-init", "emit::clock() / emit::rng() produced a value before the shared runtime was initialised".into());
    }
    let init = emit::setup()
        .emit_to(Rec { flush_answer })
        .emit_when(Filt(fkind))
        .with_clock(Clk(clock))
        .with_rng(TagRng(rng_tag))
        .init();
    let _ = &init;

    let take = || std::mem::take(&mut *SEEN.lock().unwrap());
    let run = |mdl: &str, own: &Pairs, own_ext: bool, amb: &Pairs, path: &str| -> Vec<Seen> {
        let go = || match path {
            "runtime-emit" => with_event(mdl, own, own_ext, |e| emit::runtime::shared().emit(e)),
            "macro-evt" => with_event(mdl, own, own_ext, |e| emit::emit!(evt: e)),
            "direct-accessor" => with_event(mdl, own, own_ext, |e| emit::emitter().emit(e)),
            "direct-init-handle" => with_event(mdl, own, own_ext, |e| init.emitter().emit(e)),
            _ => unreachable!(),
        };
        if amb.is_empty() {
            go()
        } else {
            let props: Vec<(&str, &str)> = amb.iter().map(|(k, v)| (k.as_str(), v.as_str())).collect();
            // the frame is pushed through the ACCESSOR's context: the pipeline must see it
            Frame::push(emit::ctxt(), &props[..]).call(go)
        }
        take()
    };

    for round in 0..6u64 {
        let mdl = if round % 2 == 0 { "noisy" } else { "quiet" };
        let own: Pairs = (0..g.below(3)).map(|i| (format!("o{i}"), format!("v{}", g.below(50)))).collect();
        let own_ext = g.bool();
        let mut full = own.clone();
        full.extend(ambient.iter().cloned());
        let accept = fkind.decide(mdl, &full);
        for path in ["runtime-emit", "macro-evt"] {
            let res = catch(|| run(mdl, &own, own_ext, &ambient, path));
            obs(&format!("shared:{}:{}", path, if accept { "accept" } else { "reject" }));
            match res {
                Err(m) => v(&format!("C01:shared-accessor:panic:{path}"), m),
                Ok(seen) => {
                    let want = if accept { 1 } else { 0 };
                    if seen.len() != want {
                        v(&format!("C01:shared-accessor:delivery:{path}:effective-filter-{}", if accept { "accepts:missing-delivery" } else { "rejects:unexpected-delivery" }),
                          format!("{} deliveries of a `{}` event with props {:?} under {:?}", seen.len(), mdl, full, fkind));
                    }
                    for s in &seen {
                        let want_ext = if own_ext { Some(OWN_TS) } else { clock };
                        if s.extent_is != want_ext || s.has_extent != want_ext.is_some() {
                            v(&format!("C01:shared-accessor:extent:{path}"), format!("extent {:?}, expected {:?} (own extent: {}, clock: {:?})", s.extent_is, want_ext, own_ext, clock));
                        }
                        if s.props.len() < own.len() || s.props[..own.len()] != own[..] || {
                            let mut a: Pairs = s.props[own.len()..].to_vec();
                            let mut b = ambient.clone();
                            a.sort();
                            b.sort();
                            a != b
                        } {
                            v(&format!("C01:shared-accessor:props:{path}"), format!("destination saw {:?}, expected own {:?} then ambient {:?}", s.props, own, ambient));
                        }
                    }
                }
            }
        }
        for path in ["direct-accessor", "direct-init-handle"] {
            let calls_before = FILTER_CALLS.load(SeqCst);
            let res = catch(|| run(mdl, &own, own_ext, &ambient, path));
            obs(&format!("shared:{}:{}", path, if accept { "filter-would-accept" } else { "filter-would-reject" }));
            match res {
                Err(m) => v(&format!("C01:shared-accessor:panic:{path}"), m),
                Ok(seen) => {
                    if seen.len() != 1 {
                        v(&format!("C01:shared-accessor:direct-emit:{path}:deliveries"),
                          format!("emitting straight to the shared destination delivered {} times (filter {:?} would {} it)", seen.len(), fkind, if accept { "accept" } else { "reject" }));
                    }
                    if FILTER_CALLS.load(SeqCst) != calls_before {
                        v(&format!("C01:shared-accessor:direct-emit:{path}:filter-consulted"), "emitting straight to the shared destination consulted the runtime filter".into());
                    }
                    for s in &seen {
                        let want_ext = if own_ext { Some(OWN_TS) } else { None };
                        if s.extent_is != want_ext || s.has_extent != own_ext {
                            v(&format!("C01:shared-accessor:direct-emit:{path}:clock-consulted"), format!("extent {:?} on a direct emit of an event whose own extent is {:?}", s.extent_is, want_ext));
                        }
                        if s.props != own {
                            v(&format!("C01:shared-accessor:direct-emit:{path}:ambient-added"), format!("destination saw {:?}, the event's own props are {:?}", s.props, own));
                        }
                    }
                }
            }
        }
        // the filter accessor hands back the filter itself: asked about the event as given
        let got = catch(|| with_event(mdl, &own, own_ext, |e| emit::filter().matches(e)));
        match got {
            Err(m) => v("C01:shared-accessor:panic:filter", m),
            Ok(ans) => {
                if ans != fkind.decide(mdl, &own) {
                    v("C01:shared-accessor:filter-answer", format!("emit::filter().matches said {} for `{}` {:?} under {:?}", ans, mdl, own, fkind));
                }
            }
        }
        obs("shared:filter-accessor-evaluations");
    }
    let now = emit::clock().now().map(|t| t.to_unix().as_nanos() as u64);
    if now != clock {
        v("C01:shared-accessor:clock", format!("emit::clock().now() = {:?}, configured {:?}", now, clock));
    }
    if emit::rng().gen_u64() != Some(rng_tag) {
        v("C01:shared-accessor:rng", format!("emit::rng().gen_u64() = {:?}, configured {}", emit::rng().gen_u64(), rng_tag));
    }
    let before = FLUSHES.load(SeqCst);
    let ans = emit::blocking_flush(Duration::from_millis(10));
    let n = FLUSHES.load(SeqCst) - before;
    if n != 1 || ans != flush_answer {
        v("C01:shared-accessor:flush", format!("emit::blocking_flush reached the emitter {} times and returned {} (emitter answers {})", n, ans, flush_answer));
    }
    // nothing entered any more
    if !emit::ctxt().with_current(|p| snapshot(p)).is_empty() {
        v("C01:shared-accessor:ambient-left-behind", "ambient context not empty at the end".into());
    }
    drop(v);
    drop(obs);
    println!("@@CHILD {}", json!({"config": cfg, "violations": viols, "observed": observed}));
    0
}

/// Runs in the monitor: spawns the children, merges what they saw.
pub fn shared_accessors(r: &mut Report, seed: u64, n: u64) {
    let exe = match std::env::current_exe() {
        Ok(e) => e,
        Err(e) => {
            r.inconclusive(format!("shared-accessors: no current_exe: {e}"));
            return;
        }
    };
    let children: Vec<_> = (0..n)
        .map(|k| {
            Command::new(&exe)
                .args(["--child-shared", &k.to_string(), "--seed", &seed.to_string(), "--tier", "quick", "--lane", "child"])
                .stdin(Stdio::null())
                .stdout(Stdio::piped())
                .stderr(Stdio::piped())
                .spawn()
        })
        .collect();
    for (k, c) in children.into_iter().enumerate() {
        r.eval();
        let out = match c.and_then(|c| c.wait_with_output()) {
            Ok(o) => o,
            Err(e) => {
                r.inconclusive(format!("shared-accessors: child {k} could not run: {e}"));
                continue;
            }
        };
        let stdout = String::from_utf8_lossy(&out.stdout);
        let stderr = String::from_utf8_lossy(&out.stderr);
        let line = stdout.lines().find_map(|l| l.strip_prefix("@@CHILD "));
        let Some(line) = line else {
            let in_repo = stderr.lines().rev().find(|l| l.contains("panicked at") && l.contains("repo/"));
            match in_repo {
                Some(l) => r.violation(
                    "C01:shared-accessor:child-died:panic-inside-emit",
                    &format!("child {k} died without a result after a panic raised inside emit: {}", l.trim()),
                    json!({"section": "shared-accessors", "seed": seed, "child": k, "stderr_tail": stderr.chars().rev().take(1500).collect::<String>().chars().rev().collect::<String>()}),
                ),
                None => r.inconclusive(format!("shared-accessors: child {k} exited {:?} without a result", out.status.code())),
            }
            continue;
        };
        let Ok(j) = serde_json::from_str::<Json>(line) else {
            r.inconclusive(format!("shared-accessors: child {k} printed an unreadable result"));
            continue;
        };
        if let Some(o) = j["observed"].as_object() {
            for (key, val) in o {
                r.observe(key, val.as_u64().unwrap_or(0));
            }
        }
        r.observe("shared:child-processes", 1);
        r.nontrivial(&("shared-accessors", j["config"]["filter"].as_str().unwrap_or("").to_string(), j["config"]["clock"].is_null(), j["config"]["ambient"].as_array().map(|a| a.len()).unwrap_or(0)));
        for viol in j["violations"].as_array().cloned().unwrap_or_default() {
            r.violation(
                viol["sig"].as_str().unwrap_or("C01:shared-accessor:unknown"),
                viol["what"].as_str().unwrap_or(""),
                json!({"section": "shared-accessors", "seed": seed, "child": k, "config": j["config"]}),
            );
        }
    }
}
