/*!
C15, partial / optional states of the formatted types.

The round trips of the main file are generated from FULLY populated values (a traceparent with both
ids, a point timestamp, ...). This section generates the states in which a part is absent or
degenerate and judges, for each formatted type:

(a) `parse(format(v)) == v` whenever a parser of the crate accepts the formatted text;
(b) formatting does not conflate: two generated values that are not equal never format to the
    same text (the only normalisation the unchanged tree has is none at all: an absent id is
    written as the all-zero id, which no present id can be because ids are non-zero by
    construction, so the encoding is injective and is what the parser reads back as "absent");
(c) every entry point (Display, `to_string`, `write!`, a chunk-recording `fmt::Write`,
    `Value::from_display` / `capture_display` + `to_string`, `FromStr`, `str::parse`,
    `try_from_str`, `Value::parse`, owned values) agrees on partial values as on full ones.

Types: `Traceparent` (trace id absent / span id absent / both absent / full x all 256 flag bytes),
values the crate builds itself (`Traceparent::push` + `current`, an incoming `SpanCtxt` without a
trace id on a `TraceparentCtxt`), `Tracestate` (raw text, no parser: text identity only),
`SpanCtxt` (all 8 presence combinations through its property text), `Extent` (point, empty range,
range, inverted range at `Timestamp::MIN` / `MAX` and seeded instants; the crate has no extent
parser, so (a) is judged through the timestamp parser on the `..`-separated halves when the text
has that shape, (b) always), `Timestamp::MIN` / `MAX`, typed values captured as `Value`s and cast
back after `to_owned` / `to_shared` (ids, timestamps, levels, kinds), and the storage forms of a
`Path`. `Level` and `Kind` are plain enums: no value outside the named variants is representable.
*/

use super::*;

use std::collections::HashMap;
use std::fmt::Write as _;
use std::ops::ControlFlow;
use std::sync::OnceLock;

use emit::{
    platform::thread_local_ctxt::ThreadLocalCtxt,
    value::{FromValue, ToValue},
    well_known::{KEY_SPAN_ID, KEY_SPAN_PARENT, KEY_TRACE_ID, KEY_TS, KEY_TS_START},
    Extent, Frame, Props, SpanCtxt, Str,
};
use emit_traceparent::{TraceparentCtxt, Tracestate};

// ---------------------------------------------------------------------------
// traceparent
// ---------------------------------------------------------------------------

#[derive(Clone, Copy, Debug, PartialEq, Eq, Hash)]
pub struct TpModel {
    pub trace: Option<u128>,
    pub span: Option<u64>,
    pub flags: u8,
}

impl TpModel {
    pub fn state(&self) -> &'static str {
        match (self.trace.is_some(), self.span.is_some()) {
            (true, true) => "full",
            (true, false) => "trace-only",
            (false, true) => "span-only",
            (false, false) => "no-ids",
        }
    }

    /// `partial:<state>` or `full`, the middle of every signature of this section.
    fn label(&self) -> String {
        match self.state() {
            "full" => "full".to_string(),
            s => format!("partial:{}", s),
        }
    }

    fn real(&self) -> Traceparent {
        Traceparent::new(
            self.trace.map(|t| TraceId::from_u128(t).expect("non-zero trace id")),
            self.span.map(|s| SpanId::from_u64(s).expect("non-zero span id")),
            TraceFlags::from_u8(self.flags),
        )
    }

    fn of(tp: &Traceparent) -> TpModel {
        TpModel {
            trace: tp.trace_id().map(|t| t.to_u128()),
            span: tp.span_id().map(|s| s.to_u64()),
            flags: tp.trace_flags().to_u8(),
        }
    }

    fn case(&self, origin: &str) -> Json {
        json!({
            "partial": "traceparent",
            "origin": origin,
            "state": self.state(),
            "trace": self.trace.map(|t| format!("{:032x}", t)),
            "span": self.span.map(|s| format!("{:016x}", s)),
            "flags": self.flags,
        })
    }

    pub fn from_case(case: &Json) -> Option<TpModel> {
        if case.get("partial").and_then(|v| v.as_str()) != Some("traceparent") {
            return None;
        }
        Some(TpModel {
            trace: case.get("trace").and_then(|v| v.as_str()).and_then(|s| u128::from_str_radix(s, 16).ok()),
            span: case.get("span").and_then(|v| v.as_str()).and_then(|s| u64::from_str_radix(s, 16).ok()),
            flags: case.get("flags").and_then(|v| v.as_u64()).unwrap_or(0) as u8,
        })
    }

    /// The values next to this one: the other presence states of the same ids, and the same state
    /// with one flag bit flipped. None of them is equal to `self`.
    fn neighbours(&self, t: u128, s: u64) -> Vec<(TpModel, &'static str)> {
        let mut out = Vec::new();
        for (trace, span) in [(Some(t), Some(s)), (Some(t), None), (None, Some(s)), (None, None)] {
            let m = TpModel { trace, span, flags: self.flags };
            if m != *self {
                out.push((m, "presence"));
            }
        }
        for bit in [0x01u8, 0x02, 0x80] {
            out.push((TpModel { flags: self.flags ^ bit, ..*self }, "flags"));
        }
        out
    }
}

/// A writer that records how the text arrives (the Display impl writes ids, dashes and zeros in
/// separate calls).
struct Chunks(String, usize);

impl std::fmt::Write for Chunks {
    fn write_str(&mut self, s: &str) -> std::fmt::Result {
        self.0.push_str(s);
        self.1 += 1;
        Ok(())
    }
}

fn display_entries<T: std::fmt::Display>(v: &T) -> Vec<(&'static str, String)> {
    let mut written = String::new();
    let _ = write!(written, "{}", v);
    let mut chunks = Chunks(String::new(), 0);
    let _ = write!(chunks, "{}", v);
    vec![
        ("display", format!("{}", v)),
        ("to_string", v.to_string()),
        ("write", written),
        ("chunked-writer", chunks.0),
        ("value-from-display", Value::from_display(v).to_string()),
        ("owned-value", Value::from_display(v).to_owned().to_string()),
        ("shared-value", Value::from_display(v).to_shared().to_string()),
    ]
}

fn tp_parses(tp: &Traceparent, text: &str) -> Vec<(&'static str, Option<(TpModel, bool)>)> {
    let up = text.to_ascii_uppercase();
    let owned = Value::from(text).to_owned();
    let all: Vec<(&'static str, Option<Traceparent>)> = vec![
        ("try_from_str", Traceparent::try_from_str(text).ok()),
        ("from_str", <Traceparent as FromStr>::from_str(text).ok()),
        ("str-parse", text.parse::<Traceparent>().ok()),
        ("value-parse", Value::from(text).parse::<Traceparent>()),
        ("display-value-parse", Value::from_display(tp).parse::<Traceparent>()),
        ("capture-display-value-parse", Value::capture_display(tp).parse::<Traceparent>()),
        ("owned-value-parse", owned.by_ref().parse::<Traceparent>()),
        ("upper-case", Traceparent::try_from_str(&up).ok()),
    ];
    all.into_iter().map(|(n, o)| (n, o.map(|back| (TpModel::of(&back), back == *tp)))).collect()
}

fn is_hex(b: &[u8]) -> bool {
    b.iter().all(|c| c.is_ascii_hexdigit())
}

/// Judge one traceparent value. `ids` are the ids its neighbours are built from (so that a
/// neighbour with an id present exists even when this value has none).
pub fn judge_tp(r: &mut Report, m: TpModel, ids: (u128, u64), origin: &str, mut seen: Option<&mut HashMap<String, TpModel>>) {
    r.eval();
    let label = m.label();
    r.observe(&format!("traceparent:{}:values", label), 1);
    r.nontrivial(&("tp-partial", m));
    let case = || m.case(origin);
    let res = catch(|| {
        let tp = m.real();
        let texts = display_entries(&tp);
        let parses = tp_parses(&tp, &texts[0].1);
        let neighbours: Vec<(TpModel, &'static str, String)> = m.neighbours(ids.0, ids.1).into_iter().map(|(n, kind)| (n, kind, n.real().to_string())).collect();
        let copy = tp;
        let eq_self = copy == tp && tp.clone() == tp;
        (TpModel::of(&tp), tp.is_valid(), eq_self, texts, parses, neighbours)
    });
    let (read_back, valid, eq_self, texts, parses, neighbours) = match res {
        Ok(x) => x,
        Err(msg) => {
            r.violation(&format!("C15:panic:traceparent:{}", label), &format!("formatting / parsing {:?} panicked: {}", m, msg), case());
            return;
        }
    };

    // the value is what it was built from (needed to trust what is read off parsed values)
    if read_back != m || valid != (m.trace.is_some() && m.span.is_some()) || !eq_self {
        r.violation(
            &format!("C15:roundtrip:traceparent:{}:accessors", label),
            &format!("Traceparent::new({:?}) reads back as {:?}, is_valid {} (equal to itself: {})", m, read_back, valid, eq_self),
            case(),
        );
    }

    // (c) formatting entry points
    let text = texts[0].1.clone();
    if let Some((entry, other)) = texts.iter().find(|(_, t)| *t != text) {
        r.violation(
            &format!("C15:entry-points-disagree:traceparent:{}:format", label),
            &format!("{:?}: Display gives {:?}, {} gives {:?}", m, text, entry, other),
            case(),
        );
    }
    r.observe("traceparent:format-calls", texts.len() as u64);

    // the documented grammar: 55 bytes, version 00, the ids that are present in their fields
    let b = text.as_bytes();
    let shape_ok = b.len() == 55 && text.is_ascii() && &b[0..3] == b"00-" && b[35] == b'-' && b[52] == b'-' && is_hex(&b[3..35]) && is_hex(&b[36..52]) && is_hex(&b[53..55]);
    if !shape_ok {
        r.violation(
            &format!("C15:format:traceparent:{}:not-a-version-00-header", label),
            &format!("{:?} formats as {:?}, which is not 00-<32 hex>-<16 hex>-<2 hex>", m, text),
            case(),
        );
    } else {
        let (tf, sf, ff) = (&text[3..35], &text[36..52], &text[53..55]);
        let mut wrong = Vec::new();
        if let Some(t) = m.trace {
            if tf != format!("{:032x}", t) {
                wrong.push(format!("trace id field {:?}", tf));
            }
        }
        if let Some(s) = m.span {
            if sf != format!("{:016x}", s) {
                wrong.push(format!("span id field {:?}", sf));
            }
        }
        if ff != format!("{:02x}", m.flags) {
            wrong.push(format!("flags field {:?}", ff));
        }
        if !wrong.is_empty() {
            r.violation(
                &format!("C15:format:traceparent:{}:present-field-wrong", label),
                &format!("{:?} formats as {:?}: {}", m, text, wrong.join(", ")),
                case(),
            );
        }
        // an ABSENT id must not be written as the text of some id: that text belongs to the value carrying it
        if (m.trace.is_none() && tf.bytes().any(|c| c != b'0')) || (m.span.is_none() && sf.bytes().any(|c| c != b'0')) {
            r.violation(
                &format!("C15:conflated:traceparent:{}:absent-id-written-as-an-id", label),
                &format!("{:?} formats as {:?}: an absent id is written as the text of a non-zero id", m, text),
                case(),
            );
        }
    }

    // (a) + (c) parsing entry points
    r.observe("traceparent:parse-calls", parses.len() as u64);
    let first = parses[0].1;
    if let Some((entry, other)) = parses.iter().find(|(_, o)| o.map(|x| x.0) != first.map(|x| x.0)) {
        r.violation(
            &format!("C15:entry-points-disagree:traceparent:{}:parse", label),
            &format!("{:?} (text {:?}): try_from_str gives {:?}, {} gives {:?}", m, text, first.map(|x| x.0), entry, other.map(|x| x.0)),
            case(),
        );
    }
    match first {
        Some((back, eq)) => {
            r.observe(&format!("traceparent:{}:parsed-back", label), 1);
            if back != m || !eq {
                r.violation(
                    &format!("C15:roundtrip:traceparent:{}", label),
                    &format!("{:?} formats as {:?}, which parses back as {:?} ({}): formatting then parsing does not return the value", m, text, back, back.state()),
                    case(),
                );
            }
        }
        None if m.state() == "full" => r.violation(
            "C15:roundtrip:traceparent:full:own-text-rejected",
            &format!("{:?} formats as {:?}, which the parser rejects", m, text),
            case(),
        ),
        // all-zero ids inside a header are unconstrained for the PARSER (DESIGN C15/U): counted, not judged
        None => r.observe(&format!("traceparent:{}:own-text-rejected", label), 1),
    }

    // (b) formatting is injective over the neighbouring states
    for (n, kind, ntext) in &neighbours {
        r.observe("traceparent:injectivity-pairs", 1);
        if *ntext == text {
            let sig = if *kind == "flags" {
                format!("C15:conflated:traceparent:{}:flags", label)
            } else {
                let (a, b) = if m.state() <= n.state() { (m.state(), n.state()) } else { (n.state(), m.state()) };
                format!("C15:conflated:traceparent:partial:{}~{}", a, b)
            };
            r.violation(&sig, &format!("{:?} and {:?} are different values and both format as {:?}", m, n, text), case());
        }
    }
    if let Some(seen) = seen.as_mut() {
        if let Some(prev) = seen.get(&text) {
            if *prev != m {
                let (a, b) = if m.state() <= prev.state() { (m.state(), prev.state()) } else { (prev.state(), m.state()) };
                r.violation(
                    &format!("C15:conflated:traceparent:partial:{}~{}", a, b),
                    &format!("{:?} and {:?} are different values and both format as {:?}", m, prev, text),
                    case(),
                );
            }
        } else {
            seen.insert(text.clone(), m);
        }
    }
}

const TRACE_EDGES: [u128; 7] = [1, u128::MAX, 1 << 127, 1 << 64, (1 << 64) - 1, 0xf << 60, 0x0af7_6519_16cd_43dd_8448_eb21_1c80_319c];
const SPAN_EDGES: [u64; 7] = [1, u64::MAX, 1 << 63, 1 << 32, (1 << 32) - 1, 0x10, 0xb7ad_6b71_6920_3331];

/// Values the crate builds itself: `push` + `current`, and an incoming span context on a `TraceparentCtxt`.
fn tp_built_by_the_crate(r: &mut Report, m: TpModel, ids: (u128, u64)) {
    let label = m.label();
    let got = catch(|| {
        let tp = m.real();
        let cur = tp.push().call(Traceparent::current);
        (cur == tp, TpModel::of(&cur), cur.to_string() == tp.to_string())
    });
    r.observe("traceparent:push-current", 1);
    match got {
        Err(msg) => r.violation(&format!("C15:panic:traceparent:{}:push-current", label), &format!("push / current of {:?} panicked: {}", m, msg), m.case("push-current")),
        Ok((same, cur, same_text)) => {
            // "While the frame is active, Traceparent::current will return this traceparent"
            if !same || cur != m || !same_text {
                r.violation(
                    &format!("C15:roundtrip:traceparent:{}:push-current", label),
                    &format!("{:?} pushed, Traceparent::current() inside the frame is {:?} (same text: {})", m, cur, same_text),
                    m.case("push-current"),
                );
            }
            judge_tp(r, cur, ids, "push-current", None);
        }
    }
    // an incoming span context: only the ids matter here, the flags are the context's business (C18)
    if m.flags == 1 {
        if let Some(s) = m.span {
            let got = catch(|| {
                let sc = SpanCtxt::new(m.trace.and_then(TraceId::from_u128), None, SpanId::from_u64(s));
                let cur = Frame::root(TraceparentCtxt::new(emit::Empty), sc).call(Traceparent::current);
                TpModel::of(&cur)
            });
            r.observe("traceparent:incoming-span-ctxt", 1);
            match got {
                Err(msg) => r.violation(&format!("C15:panic:traceparent:{}:incoming-span-ctxt", label), &format!("incoming context for {:?} panicked: {}", m, msg), m.case("incoming-span-ctxt")),
                // whatever the context made of it is a value of the type: its text must round-trip
                Ok(cur) => judge_tp(r, cur, ids, "incoming-span-ctxt", None),
            }
        }
    }
}

pub fn fixed_traceparents(r: &mut Report) {
    let mut seen: HashMap<String, TpModel> = HashMap::new();
    let pairs = if cfg!(miri) { 1 } else { TRACE_EDGES.len() };
    for k in 0..pairs {
        let (t, s) = (TRACE_EDGES[k], SPAN_EDGES[k]);
        for flags in 0..=255u8 {
            for (trace, span) in [(Some(t), None), (None, Some(s)), (None, None), (Some(t), Some(s))] {
                let m = TpModel { trace, span, flags };
                judge_tp(r, m, (t, s), "fixed", Some(&mut seen));
                if k < 2 || flags < 2 {
                    tp_built_by_the_crate(r, m, (t, s));
                }
            }
        }
    }
    r.set("traceparent_partial_distinct_texts", json!(seen.len()));
    r.exhaustive("traceparents with the trace id absent / the span id absent / both absent / both present x all 256 flag bytes x 7 id pairs (1, MAX, single bits, half-zero ids): format through 7 entry points, parse back through 8, injectivity over all of them");
}

pub fn seeded_traceparent(r: &mut Report, g: &mut Rng) {
    let (t, s) = (rand_u128(g), rand_u64(g));
    let flags = g.below(256) as u8;
    let (trace, span) = match g.below(7) {
        0..=1 => (Some(t), None),
        2..=3 => (None, Some(s)),
        4..=5 => (None, None),
        _ => (Some(t), Some(s)),
    };
    judge_tp(r, TpModel { trace, span, flags }, (t, s), "seeded", None);
}

// ---------------------------------------------------------------------------
// tracestate: raw text, no parser - text identity through every constructor and the context
// ---------------------------------------------------------------------------

fn tracestates(r: &mut Report) {
    let long: String = (0..32).map(|i| format!("vendor{}=opaque{}", i, i)).collect::<Vec<_>>().join(",");
    let texts: Vec<String> = vec![
        String::new(),
        "a=b".into(),
        "rojo=00f067aa0ba902b7,congo=t61rcWkgMzE".into(),
        " ".into(),
        "é=日本,😀=1".into(),
        "a=b\n".into(),
        "00-00000000000000000000000000000000-0000000000000000-00".into(),
        long,
    ];
    for text in &texts {
        r.eval();
        r.observe("tracestate:values", 1);
        r.nontrivial(&("tracestate", text.as_str()));
        let case = || json!({"partial": "tracestate", "text": text});
        let leaked: &'static str = Box::leak(text.clone().into_boxed_str());
        let res = catch(|| {
            let forms: Vec<(&'static str, Tracestate)> = vec![
                ("new_owned_raw", Tracestate::new_owned_raw(text.clone())),
                ("new_raw", Tracestate::new_raw(leaked)),
                ("new_str_raw-owned", Tracestate::new_str_raw(Str::new_owned(text.clone()))),
                ("new_str_raw-shared", Tracestate::new_str_raw(Str::new_shared(text.clone()))),
            ];
            let mut bad: Vec<(String, String)> = Vec::new();
            for (name, ts) in &forms {
                for (entry, got) in display_entries(ts) {
                    if got != *text {
                        bad.push((format!("{}:{}", name, entry), got));
                    }
                }
                if ts.get() != text {
                    bad.push((format!("{}:get", name), ts.get().to_string()));
                }
                if *ts != forms[0].1 {
                    bad.push((format!("{}:eq", name), "not equal to the new_owned_raw form".into()));
                }
                // through the context, next to a partial traceparent
                let cur = ts.push().call(Tracestate::current);
                if cur.get() != text || cur != *ts {
                    bad.push((format!("{}:push-current", name), cur.get().to_string()));
                }
                let tp = Traceparent::new(None, SpanId::from_u64(7), TraceFlags::EMPTY);
                let (ctp, cts) = emit_traceparent::push(tp, ts.clone()).call(emit_traceparent::current);
                if ctp != tp || cts.to_string() != *text {
                    bad.push((format!("{}:push-both-current", name), format!("{} / {}", ctp, cts)));
                }
            }
            bad
        });
        match res {
            Err(msg) => r.violation("C15:panic:tracestate", &format!("tracestate {:?} panicked: {}", text, msg), case()),
            Ok(bad) => {
                for (what, got) in bad {
                    r.violation(
                        &format!("C15:roundtrip:tracestate:{}", what),
                        &format!("a tracestate made from {:?} reads back as {:?} through {}", text, got, what),
                        case(),
                    );
                }
            }
        }
    }
    // distinct texts stay distinct
    for a in &texts {
        for b in &texts {
            if a != b && Tracestate::new_owned_raw(a.clone()).to_string() == Tracestate::new_owned_raw(b.clone()).to_string() {
                r.violation("C15:conflated:tracestate", &format!("tracestates {:?} and {:?} format alike", a, b), json!({"partial": "tracestate", "text": a, "other": b}));
            }
        }
    }
}

// ---------------------------------------------------------------------------
// span context: every presence combination through its property text
// ---------------------------------------------------------------------------

fn tl() -> ThreadLocalCtxt {
    static TL: OnceLock<ThreadLocalCtxt> = OnceLock::new();
    *TL.get_or_init(ThreadLocalCtxt::new)
}

type ScModel = (Option<u128>, Option<u64>, Option<u64>);

fn sc_state(m: &ScModel) -> String {
    let mut parts = Vec::new();
    if m.0.is_some() {
        parts.push("trace");
    }
    if m.1.is_some() {
        parts.push("parent");
    }
    if m.2.is_some() {
        parts.push("span");
    }
    if parts.is_empty() {
        "empty".to_string()
    } else if parts.len() == 3 {
        "full".to_string()
    } else {
        parts.join("+")
    }
}

fn sc_of(sc: &SpanCtxt) -> ScModel {
    (sc.trace_id().map(|t| t.to_u128()), sc.span_parent().map(|s| s.to_u64()), sc.span_id().map(|s| s.to_u64()))
}

fn span_ctxt(r: &mut Report, m: ScModel, all_texts: Option<&mut HashMap<Vec<(String, String)>, ScModel>>) {
    r.eval();
    let state = sc_state(&m);
    let label = if state == "full" { state.clone() } else { format!("partial:{}", state) };
    r.observe(&format!("span-ctxt:{}:values", label), 1);
    r.nontrivial(&("span-ctxt", m));
    let case = || json!({"partial": "span-ctxt", "state": state, "trace": m.0.map(|t| format!("{:032x}", t)), "parent": m.1.map(|s| format!("{:016x}", s)), "span": m.2.map(|s| format!("{:016x}", s))});
    let res = catch(|| {
        let sc = SpanCtxt::new(m.0.and_then(TraceId::from_u128), m.1.and_then(SpanId::from_u64), m.2.and_then(SpanId::from_u64));
        let mut kv: Vec<(String, String)> = Vec::new();
        let _ = sc.for_each(|k, v| {
            kv.push((k.get().to_string(), v.to_string()));
            ControlFlow::Continue(())
        });
        let typed = (
            sc.pull::<TraceId, _>(KEY_TRACE_ID).map(|t| t.to_u128()),
            sc.pull::<SpanId, _>(KEY_SPAN_PARENT).map(|s| s.to_u64()),
            sc.pull::<SpanId, _>(KEY_SPAN_ID).map(|s| s.to_u64()),
        );
        // the property TEXT, cast back to the typed form
        let props: Vec<(&str, &str)> = kv.iter().map(|(k, v)| (k.as_str(), v.as_str())).collect();
        let from_text = (
            props[..].pull::<TraceId, _>(KEY_TRACE_ID).map(|t| t.to_u128()),
            props[..].pull::<SpanId, _>(KEY_SPAN_PARENT).map(|s| s.to_u64()),
            props[..].pull::<SpanId, _>(KEY_SPAN_ID).map(|s| s.to_u64()),
        );
        // buffered in an ambient frame (owned values) and read back
        let ambient = sc_of(&sc.push(tl()).call(|| SpanCtxt::current(tl())));
        (sc_of(&sc), kv, typed, from_text, ambient)
    });
    match res {
        Err(msg) => r.violation(&format!("C15:panic:span-ctxt:{}", label), &format!("span context {:?} panicked: {}", m, msg), case()),
        Ok((read_back, kv, typed, from_text, ambient)) => {
            for (what, got) in [("accessors", read_back), ("typed-pull", typed), ("property-text", from_text), ("ambient-frame", ambient)] {
                r.observe("span-ctxt:read-backs", 1);
                if got != m {
                    r.violation(
                        &format!("C15:roundtrip:span-ctxt:{}:{}", label, what),
                        &format!("span context {:?} (properties {:?}) reads back as {:?} through {}", m, kv, got, what),
                        case(),
                    );
                }
            }
            if let Some(all) = all_texts {
                let mut sorted = kv.clone();
                sorted.sort();
                if let Some(prev) = all.get(&sorted) {
                    if *prev != m {
                        r.violation(
                            &format!("C15:conflated:span-ctxt:{}~{}", sc_state(prev), state),
                            &format!("span contexts {:?} and {:?} have the same property text {:?}", prev, m, kv),
                            case(),
                        );
                    }
                } else {
                    all.insert(sorted, m);
                }
            }
        }
    }
}

fn span_ctxts(r: &mut Report) {
    let mut all = HashMap::new();
    for k in 0..3usize {
        let (t, p, s) = (TRACE_EDGES[k], SPAN_EDGES[k + 1], SPAN_EDGES[k]);
        for bits in 0..8u8 {
            let m = ((bits & 1 != 0).then_some(t), (bits & 2 != 0).then_some(p), (bits & 4 != 0).then_some(s));
            span_ctxt(r, m, Some(&mut all));
        }
    }
    r.exhaustive("span contexts in all 8 presence combinations of trace id / parent id / span id x 3 id triples: accessors, typed pulls, property text cast back, buffered in a ThreadLocalCtxt frame");
}

// ---------------------------------------------------------------------------
// extents and timestamp edges
// ---------------------------------------------------------------------------

fn ts_of(nanos: u128) -> Timestamp {
    Timestamp::from_unix(std::time::Duration::new((nanos / 1_000_000_000) as u64, (nanos % 1_000_000_000) as u32)).expect("in-range instant")
}

fn nanos(ts: &Timestamp) -> u128 {
    ts.to_unix().as_nanos()
}

/// (is_range, start, end); a point is (false, t, t).
type ExModel = (bool, u128, u128);

fn ex_state(m: &ExModel) -> &'static str {
    match m {
        (false, ..) => "point",
        (true, a, b) if a == b => "empty-range",
        (true, a, b) if a < b => "range",
        _ => "inverted-range",
    }
}

fn ex_real(m: &ExModel) -> Extent {
    if m.0 {
        Extent::range(ts_of(m.1)..ts_of(m.2))
    } else {
        Extent::point(ts_of(m.2))
    }
}

/// The only reading of an extent's text the crate's parsers offer: timestamps, separated by `..`.
fn ex_decode(text: &str) -> Option<ExModel> {
    let parts: Vec<&str> = text.split("..").collect();
    match parts.as_slice() {
        [p] => Timestamp::try_from_str(p).ok().map(|t| (false, nanos(&t), nanos(&t))),
        [a, b] => match (Timestamp::try_from_str(a), Timestamp::try_from_str(b)) {
            (Ok(a), Ok(b)) => Some((true, nanos(&a), nanos(&b))),
            _ => None,
        },
        _ => None,
    }
}

/// All the extents over two instants; judged one by one and against each other.
pub fn extents_over(r: &mut Report, a: u128, b: u128, origin: &str) {
    let mut models: Vec<ExModel> = vec![(false, a, a), (false, b, b), (true, a, a), (true, a, b), (true, b, a), (true, b, b)];
    models.dedup();
    let mut uniq: Vec<ExModel> = Vec::new();
    for m in models {
        if !uniq.contains(&m) {
            uniq.push(m);
        }
    }
    let mut texts: Vec<(ExModel, String)> = Vec::new();
    for m in &uniq {
        r.eval();
        let state = ex_state(m);
        r.observe(&format!("extent:{}:values", state), 1);
        r.nontrivial(&("extent", m));
        let case = || json!({"partial": "extent", "origin": origin, "state": state, "is_range": m.0, "start": m.1.to_string(), "end": m.2.to_string()});
        let res = catch(|| {
            let e = ex_real(m);
            let read_back: ExModel = match e.as_range() {
                Some(range) => (e.is_range(), nanos(&range.start), nanos(&range.end)),
                None => (e.is_range(), nanos(e.as_point()), nanos(e.as_point())),
            };
            let consistent = e.is_point() != e.is_range() && e.as_range().is_some() == e.is_range() && nanos(e.as_point()) == m.2 && e.clone().to_string() == e.to_string();
            let texts = display_entries(&e);
            // the extent as properties: each timestamp's text cast back to the typed form
            let mut props: Vec<(String, Option<u128>, Option<u128>, Option<u128>)> = Vec::new();
            let _ = e.for_each(|k, v| {
                let text = v.to_string();
                props.push((
                    k.get().to_string(),
                    v.by_ref().cast::<Timestamp>().map(|t| nanos(&t)),
                    Value::from(&*text).cast::<Timestamp>().map(|t| nanos(&t)),
                    v.to_owned().by_ref().cast::<Timestamp>().map(|t| nanos(&t)),
                ));
                ControlFlow::Continue(())
            });
            let pulled = (e.pull::<Timestamp, _>(KEY_TS_START).map(|t| nanos(&t)), e.pull::<Timestamp, _>(KEY_TS).map(|t| nanos(&t)));
            (read_back, consistent, texts, props, pulled)
        });
        let (read_back, consistent, entries, props, pulled) = match res {
            Ok(x) => x,
            Err(msg) => {
                r.violation(&format!("C15:panic:extent:{}", state), &format!("extent {:?} panicked: {}", m, msg), case());
                continue;
            }
        };
        // "an empty range is still considered a range"; a point gives back exactly its timestamp
        if read_back != *m || !consistent {
            r.violation(&format!("C15:roundtrip:extent:{}:accessors", state), &format!("extent {:?} reads back as {:?}", m, read_back), case());
        }
        let text = entries[0].1.clone();
        if let Some((entry, other)) = entries.iter().find(|(_, t)| *t != text) {
            r.violation(&format!("C15:entry-points-disagree:extent:{}:format", state), &format!("{:?}: Display gives {:?}, {} gives {:?}", m, text, entry, other), case());
        }
        match ex_decode(&text) {
            Some(back) => {
                r.observe(&format!("extent:{}:parsed-back", state), 1);
                if back != *m {
                    r.violation(
                        &format!("C15:roundtrip:extent:{}", state),
                        &format!("extent {:?} formats as {:?}, whose timestamps parse back as {:?} ({})", m, text, back, ex_state(&back)),
                        case(),
                    );
                }
            }
            None => r.observe(&format!("extent:{}:text-not-timestamps", state), 1),
        }
        // the timestamps it carries as properties: text and owned forms cast back to the same instant
        for (key, typed, from_text, from_owned) in &props {
            r.observe("extent:property-casts", 1);
            if typed.is_none() || typed != from_text || typed != from_owned {
                r.violation(
                    &format!("C15:roundtrip:extent:{}:property:{}", state, key),
                    &format!("extent {:?}: property {} casts to {:?}, its text to {:?}, its owned form to {:?}", m, key, typed, from_text, from_owned),
                    case(),
                );
            }
        }
        // the end / the point under `ts`, the start of a range under `ts_start` and none for a point
        let want = (m.0.then_some(m.1), Some(m.2));
        if pulled != want {
            r.violation(
                &format!("C15:roundtrip:extent:{}:well-known-properties", state),
                &format!("extent {:?}: ({}, {}) pull as {:?}, expected {:?}", m, KEY_TS_START, KEY_TS, pulled, want),
                case(),
            );
        }
        texts.push((*m, text));
    }
    for (i, (ma, ta)) in texts.iter().enumerate() {
        for (mb, tb) in &texts[i + 1..] {
            r.observe("extent:injectivity-pairs", 1);
            if ta == tb {
                r.violation(
                    &format!("C15:conflated:extent:{}~{}", ex_state(ma), ex_state(mb)),
                    &format!("extents {:?} and {:?} are different and both format as {:?}", ma, mb, ta),
                    json!({"partial": "extent", "origin": origin, "start": ma.1.to_string(), "end": mb.2.to_string()}),
                );
            }
        }
    }
}

fn timestamp_edges(r: &mut Report) {
    for (name, ts) in [("MIN", Timestamp::MIN), ("MAX", Timestamp::MAX)] {
        let n = nanos(&ts);
        r.observe("timestamp:edge-constants", 1);
        if n <= MAX_NANOS {
            roundtrip_ts(r, n);
        } else {
            // outside 1970..=9999: the statement does not cover it; still must not panic
            if let Err(msg) = catch(|| ts.to_string()) {
                r.violation(&format!("C15:panic:timestamp:{}", name), &format!("formatting Timestamp::{} panicked: {}", name, msg), json!({"partial": "timestamp", "edge": name}));
            }
        }
        carriers(r, "timestamp", name, &ts, json!({"partial": "timestamp", "edge": name}));
        let case = json!({"partial": "timestamp", "edge": name});
        match catch(|| (format!("{:?}", ts), format!("{}", ts), Timestamp::from_unix(ts.to_unix()), ts.to_parts(), Timestamp::from_parts(ts.to_parts()))) {
            Err(msg) => r.violation(&format!("C15:panic:timestamp:{}", name), &format!("Timestamp::{} panicked: {}", name, msg), case),
            Ok((dbg, disp, unix, _parts, back)) => {
                if dbg != format!("\"{}\"", disp) || unix != Some(ts) || back != Some(ts) {
                    r.violation(
                        &format!("C15:roundtrip:timestamp:edge:{}", name),
                        &format!("Timestamp::{}: Debug {:?} / Display {:?}, from_unix(to_unix) = {:?}, from_parts(to_parts) = {:?}", name, dbg, disp, unix, back),
                        case,
                    );
                }
            }
        }
    }
    extents_over(r, nanos(&Timestamp::MIN), nanos(&Timestamp::MAX).min(MAX_NANOS), "edges");
    extents_over(r, 0, 1, "edges");
    extents_over(r, MAX_NANOS - 1, MAX_NANOS, "edges");
    extents_over(r, 1_000_000_000, 1_000_000_000, "edges");
}

// ---------------------------------------------------------------------------
// typed values captured as `Value`s: every carrier casts back to the value
// ---------------------------------------------------------------------------

pub fn carriers<T>(r: &mut Report, name: &str, state: &str, v: &T, case: Json)
where
    T: ToValue + for<'a> FromValue<'a> + PartialEq + std::fmt::Display,
{
    r.eval();
    r.observe(&format!("{}:value-carriers", name), 1);
    let res = catch(|| {
        let text = v.to_string();
        let val = v.to_value();
        let owned = val.to_owned();
        let shared = val.to_shared();
        let owned_text = Value::from(&*text).to_owned();
        let prop = [("k", v.to_value())];
        let outcomes: Vec<(&'static str, bool)> = vec![
            ("to_value-cast", v.to_value().cast::<T>().as_ref() == Some(v)),
            ("from_any-cast", Value::from_any(v).cast::<T>().as_ref() == Some(v)),
            ("owned-cast", owned.by_ref().cast::<T>().as_ref() == Some(v)),
            ("shared-cast", shared.by_ref().cast::<T>().as_ref() == Some(v)),
            ("owned-of-owned-cast", owned.by_ref().to_owned().by_ref().cast::<T>().as_ref() == Some(v)),
            ("value-text", val.to_string() == text && owned.to_string() == text && shared.to_string() == text),
            ("text-cast", Value::from(&*text).cast::<T>().as_ref() == Some(v)),
            ("owned-text-cast", owned_text.by_ref().cast::<T>().as_ref() == Some(v)),
            ("display-cast", Value::from_display(v).cast::<T>().as_ref() == Some(v)),
            ("props-pull", prop.pull::<T, _>("k").as_ref() == Some(v)),
        ];
        (text, outcomes)
    });
    match res {
        Err(msg) => r.violation(&format!("C15:panic:value-carrier:{}:{}", name, state), &format!("capturing a {} panicked: {}", name, msg), case),
        Ok((text, outcomes)) => {
            for (entry, ok) in outcomes {
                if !ok {
                    r.violation(
                        &format!("C15:value-carrier:{}:{}:{}", name, state, entry),
                        &format!("{} {:?} captured as a value does not come back through {}", name, text, entry),
                        case.clone(),
                    );
                }
            }
        }
    }
}

pub fn seeded_carriers(r: &mut Report, g: &mut Rng) {
    let n = rand_nanos(g);
    carriers(r, "timestamp", "seeded", &ts_of(n), json!({"partial": "carriers", "unix_nanos": n.to_string()}));
    let (t, s) = (rand_u128(g), rand_u64(g));
    carriers(r, "trace_id", "seeded", &TraceId::from_u128(t).unwrap(), json!({"partial": "carriers", "trace": format!("{:032x}", t)}));
    carriers(r, "span_id", "seeded", &SpanId::from_u64(s).unwrap(), json!({"partial": "carriers", "span": format!("{:016x}", s)}));
}

// ---------------------------------------------------------------------------
// path storage forms
// ---------------------------------------------------------------------------

fn path_forms(r: &mut Report) {
    use std::borrow::Cow;
    let texts = ["a", "a::b", "a::b::c", "std::fmt", "x1::y_2::Z", "_a", "é::日本", "r#a"];
    for text in texts {
        r.eval();
        r.observe("path:forms", 1);
        r.nontrivial(&("path-forms", text));
        let valid = matches!(classify_path(text), Expect::MustAccept(_));
        let case = || json!({"partial": "path", "text": text});
        let res = catch(|| {
            let shared = Str::new_shared(text);
            let mut forms: Vec<(&'static str, Path)> = vec![
                ("new_raw", Path::new_raw(text)),
                ("new_ref_raw", Path::new_ref_raw(text)),
                ("new_owned_raw", Path::new_owned_raw(text)),
                ("new_str_raw-shared", Path::new_str_raw(shared.clone())),
                ("new_cow_ref_raw-borrowed", Path::new_cow_ref_raw(Cow::Borrowed(text))),
                ("new_cow_ref_raw-owned", Path::new_cow_ref_raw(Cow::Owned(text.to_string()))),
                ("to_owned", Path::new_ref_raw(text).to_owned()),
            ];
            let mut checked_rejects = Vec::new();
            for (name, p) in [
                ("new", Path::new(text).ok()),
                ("new_ref", Path::new_ref(text).ok()),
                ("new_owned", Path::new_owned(text).ok()),
                ("new_str-shared", Path::new_str(shared.clone()).ok()),
                ("new_cow_ref", Path::new_cow_ref(Cow::Owned(text.to_string())).ok()),
            ] {
                match p {
                    Some(p) => forms.push((name, p)),
                    None => checked_rejects.push(name),
                }
            }
            let mut bad: Vec<(String, String)> = Vec::new();
            for (name, p) in &forms {
                for (entry, got) in display_entries(p) {
                    if got != text {
                        bad.push((format!("{}:{}", name, entry), got));
                    }
                }
                if p.to_cow() != text {
                    bad.push((format!("{}:to_cow", name), p.to_cow().to_string()));
                }
                if *p != forms[0].1 || p.by_ref() != *p || *p != *text {
                    bad.push((format!("{}:eq", name), "not equal to the other forms of the same text".into()));
                }
                if valid {
                    let joined = p.segments().map(|s| s.get().to_string()).collect::<Vec<_>>().join("::");
                    if joined != text {
                        bad.push((format!("{}:segments", name), joined));
                    }
                    // captured as a value and cast back
                    match p.to_value().cast::<Path>() {
                        Some(back) if back == *p => {}
                        other => bad.push((format!("{}:value-cast", name), format!("{:?}", other))),
                    }
                    let owned = p.to_value().to_owned();
                    match owned.by_ref().cast::<Path>() {
                        Some(back) if back == *p => {}
                        other => bad.push((format!("{}:owned-value-cast", name), format!("{:?}", other))),
                    }
                    match Path::new_ref(&p.to_string()) {
                        Ok(back) if back == *p => {}
                        other => bad.push((format!("{}:reparse", name), format!("{:?}", other.ok()))),
                    }
                }
            }
            if valid {
                let appended = Path::new_ref_raw(text).append(Path::new_raw("tail::end"));
                if appended.to_string() != format!("{}::tail::end", text) || Path::new_ref(&appended.to_string()).is_err() {
                    bad.push(("append".to_string(), appended.to_string()));
                }
            }
            (bad, checked_rejects)
        });
        match res {
            Err(msg) => r.violation("C15:panic:path:forms", &format!("path {:?} panicked: {}", text, msg), case()),
            Ok((bad, rejects)) => {
                for (what, got) in bad {
                    r.violation(&format!("C15:roundtrip:path:{}", what), &format!("path {:?} reads back as {:?} through {}", text, got, what), case());
                }
                if valid && !rejects.is_empty() {
                    r.violation("C15:rejects-well-formed:path:constructor", &format!("well-formed path {:?} rejected by {:?}", text, rejects), case());
                }
            }
        }
    }
}

// ---------------------------------------------------------------------------
// entry points of this section
// ---------------------------------------------------------------------------

pub fn fixed(r: &mut Report) {
    fixed_traceparents(r);
    tracestates(r);
    span_ctxts(r);
    timestamp_edges(r);
    for l in [Level::Debug, Level::Info, Level::Warn, Level::Error] {
        carriers(r, "level", "typed", &l, json!({"partial": "carriers", "level": l.to_string()}));
    }
    for k in [Kind::Span, Kind::Metric] {
        carriers(r, "kind", "typed", &k, json!({"partial": "carriers", "kind": k.to_string()}));
    }
    for k in 0..TRACE_EDGES.len() {
        let (t, s) = (TRACE_EDGES[k], SPAN_EDGES[k]);
        carriers(r, "trace_id", "edge", &TraceId::from_u128(t).unwrap(), json!({"partial": "carriers", "trace": format!("{:032x}", t)}));
        carriers(r, "span_id", "edge", &SpanId::from_u64(s).unwrap(), json!({"partial": "carriers", "span": format!("{:016x}", s)}));
    }
    path_forms(r);
}

pub fn seeded(r: &mut Report, g: &mut Rng) {
    seeded_traceparent(r, g);
    if g.chance(1, 4) {
        seeded_carriers(r, g);
    }
    if g.chance(1, 8) {
        let a = rand_nanos(g);
        let b = if g.chance(1, 4) { a } else { rand_nanos(g) };
        extents_over(r, a, b, "seeded");
    }
    if g.chance(1, 64) {
        let pick = |g: &mut Rng, some: bool| some.then(|| rand_u64(g));
        let bits = g.below(8) as u8;
        let m: ScModel = ((bits & 1 != 0).then(|| rand_u128(g)), pick(g, bits & 2 != 0), pick(g, bits & 4 != 0));
        span_ctxt(r, m, None);
    }
}
