/*!
Shared scenario runner for the batching-channel monitors (C06, C07).

A *scenario* drives the real `emit_batcher` channel with scripted actors (senders, flushers,
empty-watchers), one receiver (three flavours) and a scripted batch processor, and records
every boundary event with `vcommon::stamp()` taken at call and at return. Logs are per-thread
and merged after quiescence. The checkers (`check_c06`, `check_c07`) reason only from
"return stamp < call stamp".

Two modes:

* concurrent: real OS threads; the H-B hook logs `(stamp, role, point)` and (native only)
  injects seeded yields / spins / short sleeps *between* critical sections, and lets actors aim
  an operation at a receiver window (swap, taken, retry wait, notify, idle);
* sequential: one thread; the receiver is `Receiver::exec` polled by hand and actor operations
  are injected at the receiver's hook points, so interleavings are deterministic at hook-point
  granularity; every step is compared with a tiny queue model through `verif_snapshot()`.

The queue type `Q` is our own `Channel` implementation: a Vec of ids that also remembers what
each `clear()` (= overflow truncation) removed, so truncated items are known exactly.
*/
#![allow(dead_code)]

use std::{
    cell::{Cell, RefCell},
    collections::{BTreeMap, HashMap, HashSet, VecDeque},
    fmt,
    future::Future,
    pin::Pin,
    sync::{
        atomic::{AtomicU32, AtomicU64, Ordering::SeqCst},
        Arc, Barrier, Mutex,
    },
    task::{Context, Poll, Wake, Waker},
    thread,
    time::Duration,
};

use emit_batcher as eb;
use emit_batcher::{verif::Point, BatchError, Channel, Receiver, Sender};
use vcommon::*;

// ---------------------------------------------------------------------------
// ids and the instrumented queue
// ---------------------------------------------------------------------------

#[derive(Clone, Copy, Debug, PartialEq, Eq, Hash, PartialOrd, Ord)]
pub struct Id {
    /// scenario uid (process-unique; never part of a signature)
    pub sc: u32,
    /// actor index of the sender
    pub who: u8,
    /// per-sender counter (program order)
    pub n: u32,
}

impl Id {
    pub fn j(&self) -> Json {
        json!(format!("{}.{}", self.who, self.n))
    }
}

pub fn ids_json(v: &[Id]) -> Json {
    let mut out: Vec<String> = v.iter().take(48).map(|i| format!("{}.{}", i.who, i.n)).collect();
    if v.len() > 48 {
        out.push(format!("…(+{})", v.len() - 48));
    }
    json!(out)
}

/// The channel storage handed to `emit_batcher::bounded`. `clear()` is only called by an
/// overflow truncation; what it removed travels with the queue object to `on_batch`.
pub struct Q {
    pub items: Vec<Id>,
    pub cleared: Vec<(u64, Vec<Id>)>,
}

impl Q {
    pub fn from_items(items: Vec<Id>) -> Q {
        Q { items, cleared: Vec::new() }
    }
}

static ORPHANS: Mutex<Vec<(u64, Vec<Id>)>> = Mutex::new(Vec::new());

impl Drop for Q {
    fn drop(&mut self) {
        // A queue object that was truncated but never reached the processor (only possible
        // when the receiver is gone): keep its truncation log.
        if !self.cleared.is_empty() {
            if let Ok(mut o) = ORPHANS.lock() {
                o.append(&mut self.cleared);
            }
        }
    }
}

impl Channel for Q {
    type Item = Id;

    fn new() -> Self {
        Q { items: Vec::new(), cleared: Vec::new() }
    }

    fn with_capacity(hint: usize) -> Self {
        Q { items: Vec::with_capacity(hint.min(1 << 16)), cleared: Vec::new() }
    }

    fn push(&mut self, item: Id) {
        self.items.push(item);
    }

    fn len(&self) -> usize {
        self.items.len()
    }

    fn clear(&mut self) {
        let gone = std::mem::take(&mut self.items);
        self.cleared.push((stamp(), gone));
    }
}

#[derive(Debug)]
pub struct ProcErr;

impl fmt::Display for ProcErr {
    fn fmt(&self, f: &mut fmt::Formatter) -> fmt::Result {
        f.write_str("scripted processor failure")
    }
}

impl std::error::Error for ProcErr {}

// ---------------------------------------------------------------------------
// plans
// ---------------------------------------------------------------------------

#[derive(Clone, Copy, Debug, PartialEq, Eq, Hash)]
pub enum Flavour {
    /// `emit_batcher::sync::spawn`
    Sync,
    /// `Receiver::exec(wait, on_batch)` polled by our executor with virtual waits
    Exec,
    /// `emit_batcher::tokio::spawn`
    Tokio,
}

#[derive(Clone, Copy, Debug, PartialEq, Eq, Hash)]
pub enum Mode {
    Concurrent,
    Sequential,
}

pub const W_SWAP: u8 = 0; // receiver about to take the pending batch (queue empties)
pub const W_TAKEN: u8 = 1; // between swap-out and on_batch
pub const W_RETRY: u8 = 2; // before a retry wait
pub const W_NOTIFY: u8 = 3; // last attempt done, flush watchers not yet notified
pub const W_IDLE: u8 = 4; // before an idle wait
pub const NWIN: usize = 5;

pub fn window_of(p: Point) -> Option<u8> {
    match p {
        Point::RecvSwapLock => Some(W_SWAP),
        Point::RecvTaken | Point::RecvBeforeBatch => Some(W_TAKEN),
        Point::RecvBeforeRetryWait => Some(W_RETRY),
        Point::RecvBeforeNotifyFlush => Some(W_NOTIFY),
        Point::RecvBeforeIdleWait => Some(W_IDLE),
        _ => None,
    }
}

#[derive(Clone, Copy, Debug)]
pub enum Pace {
    Yield,
    Spin(u32),
    SleepUs(u32),
    /// wait (bounded) until the receiver is at this window, then go on at once
    Aim(u8),
    /// line up with the other senders (bounded), so that the next operations collide
    Gate,
}

#[derive(Clone, Copy, Debug)]
pub enum SOp {
    Send,
    TrySend,
    BlockingSend(u32),
    TokioSend(u32),
    TokioBlockingSend(u32),
    Pace(Pace),
}

#[derive(Clone, Copy, Debug)]
pub enum FOp {
    Callback,
    Blocking(u32),
    TokioFlush(u32),
    TokioBlocking(u32),
    Pace(Pace),
}

#[derive(Clone, Copy, Debug)]
pub enum WOp {
    WhenEmpty,
    Pace(Pace),
}

#[derive(Clone, Copy, Debug, PartialEq, Eq)]
pub enum Rem {
    All,
    Suffix,
    Subset,
    One,
    Empty,
}

#[derive(Clone, Copy, Debug, PartialEq, Eq)]
pub enum Outcome {
    Ok,
    NoRetry,
    Retry(Rem),
    Panic,
    PanicFut,
}

#[derive(Clone, Copy, Debug)]
pub struct Step {
    /// extra suspension points of the returned future (Exec / Tokio) …
    pub yields: u8,
    /// … and real time spent inside the processor (µs; 0 = none)
    pub slow_us: u16,
    pub out: Outcome,
}

#[derive(Clone, Copy, Debug, Default)]
pub struct HookProfile {
    /// per-mille probabilities at every hook point (native only)
    pub yield_pm: u32,
    pub spin_pm: u32,
    pub sleep_pm: u32,
    /// sequential mode: per-mille probability to inject actor ops at a receiver point
    pub inject_pm: u32,
}

#[derive(Clone, Copy, Debug, PartialEq, Eq)]
pub enum Focus {
    /// C06: sender-heavy, truncation, retries, panics
    Items,
    /// C07: flush-heavy, slow processor, retries
    Flush,
}

/// How the last sender operation before a quiescence step is aimed.
#[derive(Clone, Copy, Debug, PartialEq, Eq)]
pub enum TailAim {
    None,
    /// rendezvous before the call: the receiver is held at this window while the whole
    /// operation runs ("receiver delayed between saw-empty and went-idle")
    PreCall(u8),
    /// delay inside the hook at the sender's lock point (`SendLock` / `TrySendLock`), i.e.
    /// after anything the operation does before taking the lock: concurrent mode waits until
    /// the receiver has passed this window; sequential mode polls the receiver this many times
    AtLock(u8),
}

/// One quiescence round: a last sender operation (optionally followed at once by a callback
/// flush), then nothing but the receiver idling.
#[derive(Clone, Copy, Debug)]
pub struct TailOp {
    pub op: SOp,
    pub aim: TailAim,
    pub flush: bool,
}

#[derive(Clone, Debug)]
pub struct Plan {
    pub seed: u64,
    pub case: u64,
    pub focus: Focus,
    pub mode: Mode,
    pub flavour: Flavour,
    pub cap: usize,
    pub senders: Vec<Vec<SOp>>,
    pub flushers: Vec<Vec<FOp>>,
    pub watchers: Vec<Vec<WOp>>,
    pub proc: Vec<Step>,
    /// Exec flavour only: drop the receiver (the exec future) after this many polls
    pub drop_after_polls: Option<u32>,
    pub hook: HookProfile,
    /// quiescence rounds run after all scripted actors finished and before the sender is
    /// dropped (empty = no quiescence step)
    pub tail: Vec<TailOp>,
    /// per-mille share of `when_flushed` / `when_empty` callbacks that panic when the receiver
    /// runs them (callbacks that run at once on the caller's thread never panic)
    pub watcher_panic_pm: u32,
}

impl Plan {
    fn watcher_panics(&self, role: u8, idx: usize) -> bool {
        self.watcher_panic_pm > 0 && hash_of(&(self.seed, self.case, role, idx as u64)) % 1000 < self.watcher_panic_pm as u64
    }
}

#[derive(Clone, Debug)]
pub struct GenCfg {
    pub focus: Focus,
    pub tokio: bool,
    pub flavours: Vec<Flavour>,
    pub sequential_pm: u32,
    /// upper bound on scripted operations in one history
    pub max_ops: usize,
    pub max_senders: usize,
    pub early_drop_pm: u32,
    pub delays: bool,
    /// share of the histories (per mille) that end with quiescence rounds
    pub quiesce_pm: u32,
}

impl GenCfg {
    pub fn from_args(args: &Args, focus: Focus) -> GenCfg {
        let miri = cfg!(miri);
        let tokio = cfg!(feature = "tokio") && !miri;
        let mut flavours = vec![Flavour::Sync, Flavour::Exec];
        if tokio {
            flavours.push(Flavour::Tokio);
        }
        if let Some(f) = args.get("flavours") {
            flavours = f
                .split(',')
                .filter_map(|s| match s.trim() {
                    "sync" => Some(Flavour::Sync),
                    "exec" => Some(Flavour::Exec),
                    "tokio" if tokio => Some(Flavour::Tokio),
                    _ => None,
                })
                .collect();
            if flavours.is_empty() {
                flavours.push(Flavour::Sync);
            }
        }
        let tokio_actors = tokio && args.get("tokio-actors").map(|v| v != "0").unwrap_or(true);
        GenCfg {
            focus,
            tokio: tokio_actors,
            flavours,
            sequential_pm: args.get_u64("sequential-pm", if miri { 150 } else { 300 }) as u32,
            max_ops: args.get_u64("max-ops", if miri { 22 } else { 600 }) as usize,
            max_senders: args.get_u64("max-senders", if miri { 3 } else { 6 }) as usize,
            early_drop_pm: args.get_u64("early-drop-pm", 60) as u32,
            delays: !miri,
            quiesce_pm: args.get_u64("quiesce-pm", 600) as u32,
        }
    }
}

fn gen_pace(g: &mut Rng, delays: bool, aim: bool) -> Pace {
    if !delays {
        return Pace::Yield;
    }
    match g.below(if aim { 10 } else { 7 }) {
        0..=2 => Pace::Yield,
        3..=5 => Pace::Spin(g.range(20, 3000) as u32),
        6 => Pace::SleepUs(g.range(1, 30) as u32),
        _ => Pace::Aim(g.below(NWIN as u64) as u8),
    }
}

fn gen_proc(g: &mut Rng, focus: Focus, flavour: Flavour, miri: bool) -> Vec<Step> {
    let n = if miri { g.range(0, 6) } else { g.range(0, 40) } as usize;
    let mut out = Vec::new();
    // (ok, noretry, retry, panic, panicfut) weights
    let w: [u64; 5] = match (focus, g.below(4)) {
        (_, 0) => [100, 0, 0, 0, 0],
        (Focus::Items, 1) => [50, 10, 25, 8, 7],
        (Focus::Items, _) => [30, 10, 40, 10, 10],
        (Focus::Flush, 1) => [50, 10, 30, 5, 5],
        (Focus::Flush, _) => [30, 5, 50, 8, 7],
    };
    let slow_pm = match focus {
        Focus::Items => *g.pick(&[0u64, 100, 300]),
        Focus::Flush => *g.pick(&[200u64, 500, 800]),
    };
    let total: u64 = w.iter().sum();
    while out.len() < n {
        let mut k = g.below(total);
        let mut which = 0;
        for (i, wi) in w.iter().enumerate() {
            if k < *wi {
                which = i;
                break;
            }
            k -= wi;
        }
        let slow = g.below(1000) < slow_pm;
        let yields = if slow && flavour != Flavour::Sync { g.range(1, 4) as u8 } else { 0 };
        let slow_us = if slow && !miri {
            match flavour {
                Flavour::Tokio => g.range(0, 40) as u16,
                _ => g.range(1, 120) as u16,
            }
        } else {
            0
        };
        let out_kind = match which {
            0 => Outcome::Ok,
            1 => Outcome::NoRetry,
            2 => Outcome::Retry(*g.pick(&[Rem::All, Rem::Suffix, Rem::Suffix, Rem::Subset, Rem::Subset, Rem::One, Rem::One, Rem::Empty])),
            3 => Outcome::Panic,
            _ => Outcome::PanicFut,
        };
        out.push(Step { yields, slow_us, out: out_kind });
        if which == 2 && !miri && g.chance(1, 6) {
            // a run of retries: short, or long enough to exhaust the retry budget
            let run = *g.pick(&[1u64, 2, 3, 10, 11, 12]);
            let run = if flavour == Flavour::Tokio { run.min(3) } else { run };
            for _ in 0..run {
                out.push(Step { yields: 0, slow_us: 0, out: Outcome::Retry(*g.pick(&[Rem::All, Rem::Suffix, Rem::One])) });
            }
        }
    }
    out
}

pub fn gen_plan(seed: u64, prop: u64, case: u64, cfg: &GenCfg) -> Plan {
    let mut g = Rng::stream(seed, &[prop, 1, case]);
    let miri = cfg!(miri);
    let mode = if g.below(1000) < cfg.sequential_pm as u64 { Mode::Sequential } else { Mode::Concurrent };
    let flavour = if mode == Mode::Sequential { Flavour::Exec } else { *g.pick(&cfg.flavours) };
    let cap = match g.below(12) {
        0 => 1,
        1 => 2,
        2 => 3,
        3 => 4,
        4 => 5,
        5 => 8,
        6 => 16,
        7 => 64,
        8 => g.range(1, 64) as usize,
        9 => 100_000,
        _ => g.range(1, 6) as usize,
    };
    // history size: mostly small, sometimes the maximum
    let max_ops = cfg.max_ops.max(4);
    let total_ops = match if miri { 9 } else { g.below(10) } {
        0..=4 => g.range(4, (max_ops as u64 / 8).max(5)),
        5..=8 => g.range(4, (max_ops as u64 / 3).max(5)),
        _ => g.range(max_ops as u64 / 2, max_ops as u64),
    } as usize;
    let n_senders = g.range(1, cfg.max_senders as u64) as usize;
    let n_flushers = match cfg.focus {
        Focus::Items => g.below(4) as usize,
        Focus::Flush => g.range(1, 3) as usize,
    };
    let n_flushers = if miri { n_flushers.min(2) } else { n_flushers };
    let n_watchers = if miri { g.below(2) as usize } else { g.below(3) as usize };
    let flush_share = match cfg.focus {
        Focus::Items => 8,
        Focus::Flush => 30,
    };
    let flush_ops = if n_flushers == 0 { 0 } else { (total_ops * flush_share / 100).max(n_flushers) };
    let watch_ops = if n_watchers == 0 { 0 } else { (total_ops / 20).max(n_watchers) };
    let send_ops = total_ops.saturating_sub(flush_ops + watch_ops).max(n_senders);
    let tokio_ok = cfg.tokio && mode == Mode::Concurrent;
    let pace_pm = if cfg.delays { *g.pick(&[0u64, 50, 150, 400]) } else { 100 };
    let aim_ok = cfg.delays && mode == Mode::Concurrent;
    let timeout_us = |g: &mut Rng| -> u32 {
        if mode == Mode::Sequential {
            0
        } else if miri {
            *g.pick(&[0u32, 200, 2000])
        } else {
            *g.pick(&[0u32, 1, 50, 300, 2000, 20_000])
        }
    };

    let gate_pm = if aim_ok && n_senders > 1 { *g.pick(&[0u64, 0, 0, 300, 1000]) } else { 0 };
    let mut senders = Vec::new();
    for _ in 0..n_senders {
        let n = (send_ops / n_senders).max(1);
        // personality: weights for send / try_send / blocking / tokio send / tokio blocking
        let w: [u64; 5] = match g.below(5) {
            0 => [10, 0, 0, 0, 0],
            1 => [0, 10, 0, 0, 0],
            2 => [5, 3, 2, 0, 0],
            3 => [2, 2, 6, 0, 0],
            _ => [3, 2, 2, 2, 1],
        };
        let mut ops = Vec::new();
        for _ in 0..n {
            if g.below(1000) < pace_pm {
                ops.push(SOp::Pace(gen_pace(&mut g, cfg.delays, aim_ok)));
            }
            if g.below(1000) < gate_pm {
                ops.push(SOp::Pace(Pace::Gate));
            }
            let total: u64 = if tokio_ok { w.iter().sum() } else { w[..3].iter().sum() };
            let mut k = g.below(total.max(1));
            let mut which = 0;
            for (i, wi) in w.iter().enumerate() {
                if k < *wi {
                    which = i;
                    break;
                }
                k -= wi;
            }
            ops.push(match which {
                0 => SOp::Send,
                1 => SOp::TrySend,
                2 => SOp::BlockingSend(timeout_us(&mut g)),
                3 => SOp::TokioSend(timeout_us(&mut g)),
                _ => SOp::TokioBlockingSend(timeout_us(&mut g)),
            });
        }
        senders.push(ops);
    }
    let mut flushers = Vec::new();
    for _ in 0..n_flushers {
        let n = (flush_ops / n_flushers).max(1);
        let mut ops = Vec::new();
        for _ in 0..n {
            // flushers always pace: a flush only means something relative to earlier sends
            if mode == Mode::Concurrent {
                let aim = aim_ok && cfg.focus == Focus::Flush && g.chance(1, 2);
                ops.push(FOp::Pace(if aim { Pace::Aim(g.below(NWIN as u64) as u8) } else { gen_pace(&mut g, cfg.delays, aim_ok) }));
            }
            let k = g.below(if tokio_ok { 10 } else { 7 });
            ops.push(match k {
                0..=3 => FOp::Callback,
                4..=6 => FOp::Blocking(timeout_us(&mut g)),
                7..=8 => FOp::TokioFlush(timeout_us(&mut g)),
                _ => FOp::TokioBlocking(timeout_us(&mut g)),
            });
        }
        flushers.push(ops);
    }
    let mut watchers = Vec::new();
    for _ in 0..n_watchers {
        let n = (watch_ops / n_watchers).max(1);
        let mut ops = Vec::new();
        for _ in 0..n {
            if mode == Mode::Concurrent {
                ops.push(WOp::Pace(gen_pace(&mut g, cfg.delays, aim_ok)));
            }
            ops.push(WOp::WhenEmpty);
        }
        watchers.push(ops);
    }
    let proc = gen_proc(&mut g, cfg.focus, flavour, miri);
    let drop_after_polls = if flavour == Flavour::Exec && g.below(1000) < cfg.early_drop_pm as u64 {
        Some(g.range(1, 60) as u32)
    } else {
        None
    };
    let hook = if cfg.delays {
        let level = g.below(4);
        HookProfile {
            yield_pm: [0, 20, 80, 200][level as usize],
            spin_pm: [0, 20, 80, 150][level as usize],
            sleep_pm: [0, 2, 10, 30][level as usize],
            inject_pm: *g.pick(&[100u32, 300, 600]),
        }
    } else {
        HookProfile { yield_pm: 0, spin_pm: 0, sleep_pm: 0, inject_pm: *g.pick(&[100u32, 300, 600]) }
    };
    // quiescence rounds (drawn last so that the rest of the plan does not depend on them)
    let mut tail = Vec::new();
    if drop_after_polls.is_none() && g.below(1000) < cfg.quiesce_pm as u64 {
        let rounds = if miri { 1 } else { g.range(1, 3) };
        for _ in 0..rounds {
            let op = match g.below(if tokio_ok { 8 } else { 6 }) {
                0..=1 => SOp::Send,
                2..=3 => SOp::TrySend,
                4..=5 => SOp::BlockingSend(timeout_us(&mut g)),
                6 => SOp::TokioSend(timeout_us(&mut g)),
                _ => SOp::TokioBlockingSend(timeout_us(&mut g)),
            };
            let aim = match mode {
                Mode::Sequential => match g.below(4) {
                    0 => TailAim::None,
                    _ => TailAim::AtLock(g.range(1, 6) as u8),
                },
                Mode::Concurrent if cfg.delays => match g.below(10) {
                    0..=1 => TailAim::None,
                    2..=3 => TailAim::PreCall(*g.pick(&[W_IDLE, W_TAKEN])),
                    4..=8 => TailAim::AtLock(W_IDLE),
                    _ => TailAim::AtLock(W_TAKEN),
                },
                Mode::Concurrent => TailAim::None,
            };
            let flush = match cfg.focus {
                Focus::Flush => g.chance(2, 3),
                Focus::Items => g.chance(1, 5),
            };
            tail.push(TailOp { op, aim, flush });
        }
    }
    let watcher_panic_pm = *g.pick(&[0u32, 0, 150, 400]);
    Plan { seed, case, focus: cfg.focus, mode, flavour, cap, senders, flushers, watchers, proc, drop_after_polls, hook, tail, watcher_panic_pm }
}

impl Plan {
    pub fn to_json(&self) -> Json {
        let sops = |v: &Vec<SOp>| {
            let mut c = [0u32; 6];
            for o in v {
                c[match o {
                    SOp::Send => 0,
                    SOp::TrySend => 1,
                    SOp::BlockingSend(_) => 2,
                    SOp::TokioSend(_) => 3,
                    SOp::TokioBlockingSend(_) => 4,
                    SOp::Pace(_) => 5,
                }] += 1;
            }
            json!({"send": c[0], "try_send": c[1], "blocking_send": c[2], "tokio_send": c[3], "tokio_blocking_send": c[4], "pace": c[5]})
        };
        json!({
            "seed": self.seed,
            "case": self.case,
            "focus": format!("{:?}", self.focus),
            "mode": format!("{:?}", self.mode),
            "flavour": format!("{:?}", self.flavour),
            "capacity": self.cap,
            "senders": self.senders.iter().map(sops).collect::<Vec<_>>(),
            "flushers": self.flushers.iter().map(|f| f.iter().filter(|o| !matches!(o, FOp::Pace(_))).map(|o| format!("{:?}", o)).collect::<Vec<_>>()).collect::<Vec<_>>(),
            "watchers": self.watchers.iter().map(|w| w.iter().filter(|o| matches!(o, WOp::WhenEmpty)).count()).collect::<Vec<_>>(),
            "processor": self.proc.iter().map(|s| format!("{:?}{}{}", s.out, if s.yields > 0 { format!("+y{}", s.yields) } else { String::new() }, if s.slow_us > 0 { format!("+{}us", s.slow_us) } else { String::new() })).collect::<Vec<_>>(),
            "drop_receiver_after_polls": self.drop_after_polls,
            "watcher_panic_per_mille": self.watcher_panic_pm,
            "quiescence_rounds": self.tail.iter().map(|t| format!("{:?}", t)).collect::<Vec<_>>(),
            "hook": format!("{:?}", self.hook),
        })
    }

    pub fn shape(&self) -> String {
        format!(
            "{}:{}{}",
            match self.mode {
                Mode::Concurrent => "concurrent",
                Mode::Sequential => "sequential",
            },
            match self.flavour {
                Flavour::Sync => "sync",
                Flavour::Exec => "exec",
                Flavour::Tokio => "tokio",
            },
            if self.drop_after_polls.is_some() { ":early-drop" } else { "" }
        )
    }
}

// ---------------------------------------------------------------------------
// records
// ---------------------------------------------------------------------------

#[derive(Clone, Copy, Debug, PartialEq, Eq)]
pub enum SendKind {
    Send,
    TrySend,
    BlockingSend,
    TokioSend,
    TokioBlockingSend,
}

#[derive(Clone, Debug)]
pub struct SendRec {
    pub id: Id,
    pub kind: SendKind,
    pub call: u64,
    pub ret: u64,
    /// `send` returned, or the fallible variants returned Ok
    pub accepted: bool,
    /// the item handed back by a failing variant (None: nothing handed back)
    pub returned: Option<Id>,
    /// the call panicked (whether the item went in is unknown)
    pub panicked: bool,
}

#[derive(Clone, Copy, Debug, PartialEq, Eq)]
pub enum Out {
    Ok,
    NoRetry,
    Retry,
    Panic,
    PanicFut,
    /// the call never returned (receiver dropped while the future was pending)
    Unfinished,
}

#[derive(Clone, Debug)]
pub struct BatchRec {
    pub items: Vec<Id>,
    /// truncations that hit this queue object while it was pending: (stamp, removed items)
    pub cleared: Vec<(u64, Vec<Id>)>,
    pub call: u64,
    pub ret: u64,
    pub out: Out,
    pub rem: Option<Vec<Id>>,
    /// how the processor expressed its `Err` (index into `VIA_RETRY` / `VIA_NO_RETRY`; 0 = built directly)
    pub via: u8,
}

#[derive(Clone, Copy, Debug, PartialEq, Eq)]
pub enum FlushKind {
    Callback,
    Blocking,
    TokioFlush,
    TokioBlocking,
}

#[derive(Clone, Debug)]
pub struct FlushRec {
    pub who: u8,
    pub kind: FlushKind,
    /// stamp before the call
    pub req: u64,
    /// completion: stamp inside the callback (exact) or after a `true` return (late); None = not completed
    pub done: Option<u64>,
    pub exact: bool,
    /// the callback panicked when the receiver ran it (scripted)
    pub panicked_on_receiver: bool,
}

#[derive(Clone, Debug)]
pub struct EmptyRec {
    pub req: u64,
    pub fired: Option<u64>,
    /// the callback panicked when the receiver ran it (scripted)
    pub panicked_on_receiver: bool,
}

/// One quiescence round: after `after` (the last sender operation has returned) nothing
/// touches the channel but the receiver; `q` is taken once the receiver has begun
/// `QUIESCE_IDLE_STEPS` further idle waits (None: the watchdog / poll budget expired first).
#[derive(Clone, Debug)]
pub struct QRec {
    pub after: u64,
    pub q: Option<u64>,
    pub idle_steps_seen: u64,
    pub item: Id,
    pub op: SendKind,
    pub accepted: bool,
    pub aim: TailAim,
    /// index into `History::flushes` of the callback flush requested right after the operation
    pub flush: Option<usize>,
}

/// Idle waits the receiver must have begun before a pending item counts as "not taken". Two
/// are enough on paper (the first may follow an empty pass that preceded the push); three is
/// generous.
pub const QUIESCE_IDLE_STEPS: u64 = 3;

static QUIESCE_EXPIRED: AtomicU32 = AtomicU32::new(0);
static LEAKED_RECEIVERS: AtomicU32 = AtomicU32::new(0);

/// True once receiver threads had to be left behind (they never exited): running more
/// histories would only pile up threads, so the lane stops and says so.
pub fn lane_poisoned() -> bool {
    LEAKED_RECEIVERS.load(SeqCst) >= if cfg!(miri) { 1 } else { 3 }
}

pub const ROLE_MAIN: u8 = 0;
pub const ROLE_RECV: u8 = 1;
pub const ROLE_SENDER0: u8 = 10;
pub const ROLE_FLUSHER0: u8 = 30;
pub const ROLE_WATCHER0: u8 = 40;

pub struct History {
    pub plan: Plan,
    pub uid: u32,
    pub sends: Vec<SendRec>,
    pub batches: Vec<BatchRec>,
    pub flushes: Vec<FlushRec>,
    pub empties: Vec<EmptyRec>,
    /// Exec flavour: (stamp, requested nanos) of every virtual wait
    pub waits: Vec<(u64, u64)>,
    /// merged hook log in stamp order
    pub points: Vec<(u64, u8, Point)>,
    /// truncation logs of queue objects that never reached the processor
    pub orphans: Vec<(u64, Vec<Id>)>,
    pub metrics: BTreeMap<String, u64>,
    pub sender_dropped: u64,
    pub recv_exit: Option<u64>,
    pub recv_dropped_early: Option<u64>,
    /// sequential mode: disagreements with the queue model (sig, what)
    pub model_problems: Vec<(String, String)>,
    pub snapshots_compared: u64,
    pub injected_ops: u64,
    pub stuck: Option<String>,
    /// sequential mode: what the queue model ended with
    pub model: Option<ModelEnd>,
    /// panics that escaped a channel API call made by an actor: (operation, message)
    pub panics: Vec<(String, String)>,
    pub quiesce: Vec<QRec>,
    /// the receiver thread / future died with a panic (message)
    pub recv_panicked: Option<String>,
}

impl History {
    /// Which kinds of scripted watchers panicked while the receiver ran them
    /// ("", "on-take", "on-flush" or "on-take+on-flush").
    pub fn panicking_watchers(&self) -> String {
        let take = self.empties.iter().any(|e| e.panicked_on_receiver);
        let flush = self.flushes.iter().any(|f| f.panicked_on_receiver);
        match (take, flush) {
            (true, true) => "on-take+on-flush",
            (true, false) => "on-take",
            (false, true) => "on-flush",
            (false, false) => "",
        }
        .to_string()
    }

    pub fn early_drop(&self) -> bool {
        self.recv_dropped_early.is_some()
    }

    /// All truncation events: (stamp, removed items).
    pub fn clears(&self) -> Vec<&(u64, Vec<Id>)> {
        self.batches.iter().flat_map(|b| b.cleared.iter()).chain(self.orphans.iter()).collect()
    }

    /// Hash of the first 64 (role, point) pairs in stamp order, starting at the first point
    /// logged by an actor other than the receiver; None if fewer than two roles alternate.
    pub fn interleaving_sig(&self) -> Option<u64> {
        let start = self.points.iter().position(|p| p.1 != ROLE_RECV && p.1 != ROLE_MAIN)?;
        let win: Vec<(u8, Point)> = self.points[start..].iter().take(64).map(|p| (p.1, p.2)).collect();
        let mut switches = 0;
        for w in win.windows(2) {
            if w[0].0 != w[1].0 {
                switches += 1;
            }
        }
        if switches < 2 {
            return None;
        }
        Some(hash_of(&(self.plan.shape(), &win)))
    }

    /// Hash of the partition of the delivered sequence into `on_batch` calls.
    pub fn partition_sig(&self) -> u64 {
        let v: Vec<Vec<(u8, u32)>> = self.batches.iter().map(|b| b.items.iter().map(|i| (i.who, i.n)).collect()).collect();
        hash_of(&v)
    }

    pub fn summary(&self) -> Json {
        json!({
            "sends": self.sends.len(),
            "accepted": self.sends.iter().filter(|s| s.accepted).count(),
            "on_batch_calls": self.batches.len(),
            "batch_sizes": self.batches.iter().take(40).map(|b| b.items.len()).collect::<Vec<_>>(),
            "outcomes": self.batches.iter().take(40).map(|b| format!("{:?}", b.out)).collect::<Vec<_>>(),
            "truncations": self.clears().len(),
            "flushes": self.flushes.len(),
            "flushes_completed": self.flushes.iter().filter(|f| f.done.is_some()).count(),
            "hook_points": self.points.len(),
            "metrics": self.metrics,
            "receiver_dropped_early": self.recv_dropped_early,
        })
    }

    /// Everything in the merged history that involves the given items (bounded).
    pub fn witness(&self, ids: &[Id]) -> Json {
        let set: HashSet<Id> = ids.iter().copied().collect();
        let sends: Vec<Json> = self
            .sends
            .iter()
            .filter(|s| set.contains(&s.id))
            .take(24)
            .map(|s| json!({"id": s.id.j(), "op": format!("{:?}", s.kind), "call": s.call, "ret": s.ret, "accepted": s.accepted}))
            .collect();
        let batches: Vec<Json> = self
            .batches
            .iter()
            .enumerate()
            .filter(|(_, b)| b.items.iter().any(|i| set.contains(i)) || b.cleared.iter().any(|c| c.1.iter().any(|i| set.contains(i))))
            .take(16)
            .map(|(k, b)| {
                json!({"call_index": k, "items": ids_json(&b.items), "call": b.call, "ret": b.ret, "outcome": format!("{:?}", b.out),
                       "remainder": b.rem.as_ref().map(|r| ids_json(r)),
                       "truncated_while_pending": b.cleared.iter().map(|c| json!({"stamp": c.0, "items": ids_json(&c.1)})).collect::<Vec<_>>()})
            })
            .collect();
        json!({"sends": sends, "on_batch": batches})
    }

    pub fn case_json(&self, extra: Json) -> Json {
        json!({
            "seed": self.plan.seed,
            "case": self.plan.case,
            "plan": self.plan.to_json(),
            "summary": self.summary(),
            "detail": extra,
        })
    }
}

// ---------------------------------------------------------------------------
// the H-B hook: interleaving log, seeded delays, window rendezvous, sequential injection
// ---------------------------------------------------------------------------

type PointLog = Arc<Mutex<Vec<(u64, u8, Point)>>>;

pub struct ScCtx {
    pub uid: u32,
    pub seed: u64,
    pub profile: HookProfile,
    pub delays: bool,
    logs: Mutex<Vec<PointLog>>,
    waiting: [AtomicU32; NWIN],
    open_gen: [AtomicU64; NWIN],
    acks: AtomicU64,
    gate: AtomicU64,
    gate_k: AtomicU64,
    /// idle waits the receiver has begun (counted at `RecvBeforeIdleWait`)
    pub idle_steps: AtomicU64,
}

impl ScCtx {
    fn new(uid: u32, seed: u64, profile: HookProfile, delays: bool) -> Arc<ScCtx> {
        Arc::new(ScCtx {
            uid,
            seed,
            profile,
            delays,
            logs: Mutex::new(Vec::new()),
            waiting: Default::default(),
            open_gen: Default::default(),
            acks: AtomicU64::new(0),
            gate: AtomicU64::new(0),
            gate_k: AtomicU64::new(1),
            idle_steps: AtomicU64::new(0),
        })
    }

    fn new_log(&self) -> PointLog {
        let l: PointLog = Arc::new(Mutex::new(Vec::new()));
        self.logs.lock().unwrap().push(l.clone());
        l
    }

    fn merged_points(&self) -> Vec<(u64, u8, Point)> {
        let mut all = Vec::new();
        for l in self.logs.lock().unwrap().iter() {
            all.extend(l.lock().unwrap().iter().copied());
        }
        all.sort_by_key(|p| p.0);
        all
    }

    /// Actor side: wait (bounded) for the receiver to reach window `w`.
    fn aim(&self, w: u8) -> bool {
        self.aim_n(w, 4000)
    }

    fn aim_n(&self, w: u8, max_iters: u32) -> bool {
        let w = w as usize;
        self.waiting[w].fetch_add(1, SeqCst);
        let g0 = self.open_gen[w].load(SeqCst);
        let mut hit = false;
        for i in 0..max_iters {
            if self.open_gen[w].load(SeqCst) != g0 {
                hit = true;
                break;
            }
            if i % 8 == 7 {
                thread::yield_now();
            } else {
                std::hint::spin_loop();
            }
        }
        self.waiting[w].fetch_sub(1, SeqCst);
        hit
    }

    /// Sender side: wait (bounded) until all senders arrived at their next gate.
    fn gate(&self) {
        let k = self.gate_k.load(SeqCst).max(1);
        let t = self.gate.fetch_add(1, SeqCst) + 1;
        let target = ((t + k - 1) / k) * k;
        for i in 0..3000u32 {
            if self.gate.load(SeqCst) >= target {
                break;
            }
            if i % 64 == 63 {
                thread::yield_now();
            } else {
                std::hint::spin_loop();
            }
        }
    }

    fn ack(&self) {
        self.acks.fetch_add(1, SeqCst);
    }
}

enum TState {
    Unresolved,
    Foreign,
    In(ThreadCtx),
}

struct ThreadCtx {
    sc: Arc<ScCtx>,
    rng: Rng,
    log: PointLog,
}

thread_local! {
    static TCTX: RefCell<TState> = const { RefCell::new(TState::Unresolved) };
    static ROLE: Cell<u8> = const { Cell::new(ROLE_MAIN) };
    static SEQ: RefCell<Option<Seq>> = const { RefCell::new(None) };
    /// concurrent mode: window to wait for inside the hook at this thread's next sender lock point
    static LOCK_AIM: Cell<u8> = const { Cell::new(u8::MAX) };
    /// sequential mode: receiver polls to run inside the hook at the next sender lock point
    static LOCK_POLLS: Cell<u8> = const { Cell::new(0) };
    /// sequential mode: swap points passed by the receiver during such nested polls
    static NESTED_SWAPS: Cell<u32> = const { Cell::new(0) };
    /// sequential mode: the receiver future while nobody is polling it
    static SEQ_FUT: RefCell<Option<ExecFut>> = const { RefCell::new(None) };
    static SEQ_RECV_DONE: Cell<bool> = const { Cell::new(false) };
    /// the next watcher registered by this thread panics when the receiver runs it
    static NEXT_WATCHER_PANICS: Cell<bool> = const { Cell::new(false) };
    /// sequential mode: the receiver future died with this panic
    static SEQ_RECV_PANIC: RefCell<Option<String>> = const { RefCell::new(None) };
}

const PANIC_BIT: u64 = 1 << 63;

/// Body of every scripted watcher: stamp, and panic if scripted to and run by the receiver.
fn watcher_body(slot: &AtomicU64, panicky: bool) {
    let on_receiver = ROLE.try_with(|r| r.get()).unwrap_or(ROLE_MAIN) == ROLE_RECV;
    let st = stamp();
    if panicky && on_receiver {
        slot.store(st | PANIC_BIT, SeqCst);
        quiet(|| panic!("scripted watcher panic"));
    } else {
        slot.store(st, SeqCst);
    }
}

fn slot_panicked(s: &AtomicU64) -> bool {
    s.load(SeqCst) & PANIC_BIT != 0
}

static REG: Mutex<Vec<(u32, Arc<ScCtx>)>> = Mutex::new(Vec::new());
static NEXT_UID: AtomicU32 = AtomicU32::new(1);

fn enter(sc: &Arc<ScCtx>, role: u8) {
    ROLE.with(|r| r.set(role));
    let ctx = ThreadCtx { sc: sc.clone(), rng: Rng::stream(sc.seed, &[77, role as u64]), log: sc.new_log() };
    TCTX.with(|c| *c.borrow_mut() = TState::In(ctx));
}

fn leave() {
    let _ = TCTX.try_with(|c| *c.borrow_mut() = TState::Unresolved);
}

/// Threads spawned by emit_batcher itself (sync::spawn / tokio::spawn) are recognised by name.
fn resolve_by_name() -> TState {
    let t = thread::current();
    let name = match t.name() {
        Some(n) => n,
        None => return TState::Foreign,
    };
    let uid: u32 = match name.strip_prefix("vrx-").and_then(|s| s.parse().ok()) {
        Some(u) => u,
        None => return TState::Foreign,
    };
    let sc = REG.lock().unwrap().iter().find(|e| e.0 == uid).map(|e| e.1.clone());
    match sc {
        Some(sc) => {
            ROLE.with(|r| r.set(ROLE_RECV));
            let log = sc.new_log();
            TState::In(ThreadCtx { rng: Rng::stream(sc.seed, &[77, ROLE_RECV as u64]), sc, log })
        }
        None => TState::Foreign,
    }
}

enum Act {
    None,
    Yield,
    Spin(u32),
    SleepUs(u32),
}

fn hook(p: Point) {
    let mut role = ROLE.try_with(|r| r.get()).unwrap_or(ROLE_MAIN);
    let mut act = Act::None;
    let mut rendezvous: Option<(Arc<ScCtx>, u8, bool)> = None;
    let mut lock_aim: Option<(Arc<ScCtx>, u8)> = None;
    let _ = TCTX.try_with(|c| {
        let mut c = match c.try_borrow_mut() {
            Ok(c) => c,
            Err(_) => return,
        };
        if matches!(*c, TState::Unresolved) {
            *c = resolve_by_name();
            role = ROLE.try_with(|r| r.get()).unwrap_or(ROLE_MAIN);
        }
        if let TState::In(t) = &mut *c {
            t.log.lock().unwrap().push((stamp(), role, p));
            if role == ROLE_RECV && p == Point::RecvBeforeIdleWait {
                t.sc.idle_steps.fetch_add(1, SeqCst);
            }
            if matches!(p, Point::SendLock | Point::TrySendLock | Point::WhenFlushedLock) {
                let w = LOCK_AIM.with(|l| l.replace(u8::MAX));
                if w != u8::MAX && t.sc.delays {
                    lock_aim = Some((t.sc.clone(), w));
                }
            }
            if t.sc.delays {
                let pr = t.sc.profile;
                let k = t.rng.below(1000) as u32;
                if k < pr.yield_pm {
                    act = Act::Yield;
                } else if k < pr.yield_pm + pr.spin_pm {
                    act = Act::Spin(t.rng.range(20, 2000) as u32);
                } else if k < pr.yield_pm + pr.spin_pm + pr.sleep_pm {
                    act = Act::SleepUs(t.rng.range(1, 20) as u32);
                }
                if role == ROLE_RECV {
                    if let Some(w) = window_of(p) {
                        if t.sc.waiting[w as usize].load(SeqCst) > 0 {
                            rendezvous = Some((t.sc.clone(), w, t.rng.bool()));
                        }
                    }
                }
            }
        }
    });
    // everything below runs outside the TLS borrow and (by the hook's placement) outside the
    // channel lock
    match act {
        Act::None => {}
        Act::Yield => thread::yield_now(),
        Act::Spin(n) => {
            for _ in 0..n {
                std::hint::spin_loop();
            }
        }
        Act::SleepUs(us) => thread::sleep(Duration::from_micros(us as u64)),
    }
    if let Some((sc, w, park)) = rendezvous {
        let a0 = sc.acks.load(SeqCst);
        sc.open_gen[w as usize].fetch_add(1, SeqCst);
        if park {
            // stay at this point until one aimed operation has completed (bounded)
            for i in 0..3000u32 {
                if sc.acks.load(SeqCst) != a0 {
                    break;
                }
                if i % 8 == 7 {
                    thread::yield_now();
                } else {
                    std::hint::spin_loop();
                }
            }
        }
    }
    if let Some((sc, w)) = lock_aim {
        // this sender sits right before its lock acquisition until the receiver has passed `w`
        sc.aim_n(w, 30_000);
    }
    if role == ROLE_RECV && window_of(p).is_some() {
        // sequential mode: inject scripted actor operations at this receiver point
        let nested = SEQ
            .try_with(|s| match s.try_borrow_mut() {
                Ok(mut s) => {
                    if let Some(seq) = s.as_mut() {
                        seq.at_recv_point(p);
                    }
                    false
                }
                // the driver is busy with an actor operation: this is a nested receiver poll
                Err(_) => true,
            })
            .unwrap_or(false);
        if nested && p == Point::RecvSwapLock {
            let _ = NESTED_SWAPS.try_with(|n| n.set(n.get() + 1));
        }
    } else if matches!(p, Point::SendLock | Point::TrySendLock | Point::WhenFlushedLock) {
        // sequential mode: let the receiver run while this sender sits before its lock
        let n = LOCK_POLLS.try_with(|l| l.replace(0)).unwrap_or(0);
        if n > 0 {
            nested_polls(n as u32);
        }
    }
}

/// Sequential mode: poll the receiver from inside an actor operation (at its lock point).
fn nested_polls(n: u32) {
    let fut = SEQ_FUT.try_with(|f| f.try_borrow_mut().ok().and_then(|mut f| f.take())).ok().flatten();
    let mut fut = match fut {
        Some(f) => f,
        None => return,
    };
    let waker: Waker = Arc::new(NoopWake).into();
    let mut cx = Context::from_waker(&waker);
    let prev = ROLE.with(|r| r.replace(ROLE_RECV));
    let mut done = false;
    let mut died = false;
    for _ in 0..n {
        match catch(|| fut.as_mut().poll(&mut cx)) {
            Ok(Poll::Ready(())) => {
                done = true;
                break;
            }
            Ok(Poll::Pending) => {}
            Err(msg) => {
                SEQ_RECV_PANIC.with(|p| *p.borrow_mut() = Some(msg));
                died = true;
                break;
            }
        }
    }
    ROLE.with(|r| r.set(prev));
    if died {
        // the future is dropped here; the driver finds the slot empty
    } else if done {
        SEQ_RECV_DONE.with(|d| d.set(true));
    } else {
        SEQ_FUT.with(|f| *f.borrow_mut() = Some(fut));
    }
}

static INSTALL: std::sync::Once = std::sync::Once::new();

/// Install the hook and scale the receiver's delays (700 ms retry back-off → 7 µs).
pub fn install() {
    INSTALL.call_once(|| {
        // (under Miri: 700 ms → 700 µs, so that an idle receiver thread really sleeps instead of
        // consuming interpretation time)
        eb::verif::set_delay_divisor(100_000);
        eb::verif::set_hook(Some(hook));
    });
}

fn pace(sc: &ScCtx, p: Pace) -> bool {
    match p {
        Pace::Yield => thread::yield_now(),
        Pace::Spin(n) => {
            for _ in 0..n {
                std::hint::spin_loop();
            }
        }
        Pace::SleepUs(us) => thread::sleep(Duration::from_micros(us as u64)),
        Pace::Aim(w) => return sc.aim(w),
        Pace::Gate => sc.gate(),
    }
    false
}

// ---------------------------------------------------------------------------
// the scripted processor
// ---------------------------------------------------------------------------

pub struct Processor {
    script: Vec<Step>,
    calls: usize,
    g: Rng,
    /// own stream for the way an `Err` is expressed (never touches the plan's streams)
    gx: Rng,
    express: bool,
    pub recs: Vec<BatchRec>,
    pub waits: Vec<(u64, u64)>,
}

impl Processor {
    fn new(plan: &Plan) -> Arc<Mutex<Processor>> {
        Arc::new(Mutex::new(Processor {
            script: plan.proc.clone(),
            calls: 0,
            g: Rng::stream(plan.seed, &[78, plan.case]),
            gx: Rng::stream(plan.seed, &[79, plan.case]),
            express: EXPRESS.load(std::sync::atomic::Ordering::Relaxed),
            recs: Vec::new(),
            waits: Vec::new(),
        }))
    }

    fn remainder(&mut self, items: &[Id], rem: Rem) -> Vec<Id> {
        if items.is_empty() {
            return Vec::new();
        }
        match rem {
            Rem::All => items.to_vec(),
            Rem::Suffix => items[self.g.usize(items.len())..].to_vec(),
            Rem::Subset => {
                let mut v: Vec<Id> = items.iter().copied().filter(|_| self.g.bool()).collect();
                if v.is_empty() {
                    v.push(items[items.len() - 1]);
                }
                v
            }
            Rem::One => vec![items[self.g.usize(items.len())]],
            Rem::Empty => Vec::new(),
        }
    }
}

/// The second half of one `on_batch` call: spends the scripted time, takes the return stamp
/// and produces the scripted outcome.
pub struct Finish {
    proc: Arc<Mutex<Processor>>,
    idx: usize,
    step: Step,
    rem: Option<Vec<Id>>,
    via: u8,
    /// the items of this call (only kept when the error is derived from an inner one)
    items: Vec<Id>,
}

/// The inner failure a layered processor starts from.
#[derive(Debug)]
pub struct TransportErr;

impl fmt::Display for TransportErr {
    fn fmt(&self, f: &mut fmt::Formatter) -> fmt::Result {
        f.write_str("scripted transport failure")
    }
}

impl std::error::Error for TransportErr {}

static EXPRESS: std::sync::atomic::AtomicBool = std::sync::atomic::AtomicBool::new(false);

/// C06 only: scripted processors derive their `Err` from an inner "transport" error through the public
/// `BatchError` combinators (seeded choice per call, own stream) instead of always building it directly.
pub fn set_express_through_combinators(on: bool) {
    EXPRESS.store(on, std::sync::atomic::Ordering::Relaxed);
}

/// (expressed-through, from) of the ways to end up with `Err(retry(R))`
pub const VIA_RETRY: [(&str, &str); 9] = [
    ("direct", "retry"),
    ("map_retryable", "no_retry"),
    ("map_retryable", "retry-of-the-whole-batch"),
    ("map_retryable", "retry-of-unit"),
    ("map_retryable-twice", "retry-of-the-whole-batch"),
    ("map_retryable-twice", "retry-dropped-then-restored"),
    ("try_into_retryable", "retry-of-the-whole-batch"),
    ("try_into_retryable", "no_retry"),
    ("into_retryable", "retry-of-the-whole-batch"),
];

/// … and of the ways to end up with a non-retryable `Err`
pub const VIA_NO_RETRY: [(&str, &str); 6] = [
    ("direct", "no_retry"),
    ("map_retryable", "retry-mapped-to-none"),
    ("map_retryable", "no_retry-kept"),
    ("map_retryable-twice", "retry-of-unit-mapped-to-none"),
    ("try_into_retryable", "no_retry"),
    ("into_retryable", "no_retry"),
];

pub fn via_suffix(b: &BatchRec) -> String {
    let t = match b.out {
        Out::Retry => VIA_RETRY.get(b.via as usize),
        Out::NoRetry => VIA_NO_RETRY.get(b.via as usize),
        _ => None,
    };
    match t {
        Some((via, from)) if b.via != 0 => format!(":expressed-through={}:from={}", via, from),
        _ => String::new(),
    }
}

/// keep of `v` what is in `keep` (in `v`'s order): how a layer trims the inner remainder
fn trim(v: Vec<Id>, keep: &[Id]) -> Vec<Id> {
    let k: HashSet<Id> = keep.iter().copied().collect();
    v.into_iter().filter(|i| k.contains(i)).collect()
}

fn express_retry(via: u8, items: Vec<Id>, rem: Vec<Id>) -> BatchError<Q> {
    match via {
        // the docs allow upgrading a non-retryable inner error
        1 => BatchError::<()>::no_retry(TransportErr).map_retryable(|_| Some(Q::from_items(rem))),
        2 => BatchError::retry(TransportErr, Q::from_items(items)).map_retryable(|c| c.map(|mut q| Q::from_items(trim(std::mem::take(&mut q.items), &rem)))),
        3 => BatchError::retry(TransportErr, ()).map_retryable(|c| c.map(|()| Q::from_items(rem))),
        4 => BatchError::retry(TransportErr, items).map_retryable(|c| c.map(|v| trim(v, &rem))).map_retryable(|c| c.map(Q::from_items)),
        5 => BatchError::retry(TransportErr, Q::from_items(items)).map_retryable(|_| None::<()>).map_retryable(|c| match c {
            None => Some(Q::from_items(rem)),
            // the layer below still claims something: pass nothing on
            Some(()) => None,
        }),
        6 => match BatchError::retry(TransportErr, items).try_into_retryable() {
            Ok(v) => BatchError::retry(TransportErr, Q::from_items(trim(v, &rem))),
            Err(e) => e.map_retryable(|c| c.map(Q::from_items)),
        },
        7 => match BatchError::<Vec<Id>>::no_retry(TransportErr).try_into_retryable() {
            Ok(v) => BatchError::retry(TransportErr, Q::from_items(v)),
            Err(e) => e.map_retryable(|c| match c {
                None => Some(Q::from_items(rem)),
                Some(v) => Some(Q::from_items(v)),
            }),
        },
        8 => match BatchError::retry(TransportErr, items).into_retryable() {
            Some(v) => BatchError::retry(TransportErr, Q::from_items(trim(v, &rem))),
            None => BatchError::no_retry(TransportErr),
        },
        _ => BatchError::retry(ProcErr, Q::from_items(rem)),
    }
}

fn express_no_retry(via: u8, items: Vec<Id>) -> BatchError<Q> {
    match via {
        1 => BatchError::retry(TransportErr, Q::from_items(items)).map_retryable(|_| None),
        2 => BatchError::<()>::no_retry(TransportErr).map_retryable(|c| c.map(|()| Q::from_items(items))),
        3 => BatchError::retry(TransportErr, ()).map_retryable(|_| None::<()>).map_retryable(|c| c.map(|()| Q::from_items(items))),
        4 => match BatchError::<Q>::no_retry(TransportErr).try_into_retryable() {
            Ok(q) => BatchError::retry(TransportErr, q),
            Err(e) => e.map_retryable(|c| c),
        },
        5 => match BatchError::<Q>::no_retry(TransportErr).into_retryable() {
            Some(q) => BatchError::retry(TransportErr, q),
            None => BatchError::no_retry(TransportErr),
        },
        _ => BatchError::no_retry(ProcErr),
    }
}

impl Finish {
    fn complete(self) -> Result<(), BatchError<Q>> {
        if self.step.slow_us > 0 {
            if self.step.slow_us < 20 {
                for _ in 0..(self.step.slow_us as u32 * 40) {
                    std::hint::spin_loop();
                }
            } else {
                thread::sleep(Duration::from_micros(self.step.slow_us as u64));
            }
        }
        let out = match self.step.out {
            Outcome::Ok => Out::Ok,
            Outcome::NoRetry => Out::NoRetry,
            Outcome::Retry(_) => Out::Retry,
            Outcome::Panic => Out::Panic,
            Outcome::PanicFut => Out::PanicFut,
        };
        {
            let mut p = self.proc.lock().unwrap();
            let rec = &mut p.recs[self.idx];
            rec.out = out;
            rec.ret = stamp();
        }
        match self.step.out {
            Outcome::Ok => Ok(()),
            Outcome::NoRetry => Err(express_no_retry(self.via, self.items)),
            Outcome::Retry(_) => Err(express_retry(self.via, self.items, self.rem.unwrap_or_default())),
            Outcome::Panic | Outcome::PanicFut => quiet(|| -> Result<(), BatchError<Q>> { panic!("scripted processor panic") }),
        }
    }
}

fn begin_batch(proc: &Arc<Mutex<Processor>>, mut batch: Q) -> Finish {
    let call = stamp();
    let mut p = proc.lock().unwrap();
    let step = p.script.get(p.calls).copied().unwrap_or(Step { yields: 0, slow_us: 0, out: Outcome::Ok });
    p.calls += 1;
    let items = std::mem::take(&mut batch.items);
    let cleared = std::mem::take(&mut batch.cleared);
    let rem = match step.out {
        Outcome::Retry(r) => Some(p.remainder(&items, r)),
        _ => None,
    };
    let via = match step.out {
        Outcome::Retry(_) if p.express && p.gx.chance(2, 3) => p.gx.range(1, VIA_RETRY.len() as u64 - 1) as u8,
        Outcome::NoRetry if p.express && p.gx.chance(2, 3) => p.gx.range(1, VIA_NO_RETRY.len() as u64 - 1) as u8,
        _ => 0,
    };
    let kept = if via != 0 { items.clone() } else { Vec::new() };
    p.recs.push(BatchRec { items, cleared, call, ret: 0, out: Out::Unfinished, rem: rem.clone(), via });
    let idx = p.recs.len() - 1;
    Finish { proc: proc.clone(), idx, step, rem, via, items: kept }
}

pub struct ProcFut {
    yields: u8,
    fin: Option<Finish>,
}

impl Future for ProcFut {
    type Output = Result<(), BatchError<Q>>;

    fn poll(mut self: Pin<&mut Self>, cx: &mut Context<'_>) -> Poll<Self::Output> {
        if self.yields > 0 {
            self.yields -= 1;
            cx.waker().wake_by_ref();
            return Poll::Pending;
        }
        let fin = self.fin.take().expect("processor future polled after completion");
        Poll::Ready(fin.complete())
    }
}

/// `on_batch` for the future-based receivers (Exec, Tokio).
fn on_batch_async(proc: &Arc<Mutex<Processor>>, batch: Q) -> ProcFut {
    let fin = begin_batch(proc, batch);
    if fin.step.out == Outcome::Panic {
        // panic in `on_batch` itself, before a future exists
        let _ = fin.complete();
        unreachable!();
    }
    ProcFut { yields: fin.step.yields, fin: Some(fin) }
}

/// A virtual wait: pending a fixed number of polls.
pub struct YieldN(u8);

impl Future for YieldN {
    type Output = ();

    fn poll(mut self: Pin<&mut Self>, cx: &mut Context<'_>) -> Poll<()> {
        if self.0 > 0 {
            self.0 -= 1;
            cx.waker().wake_by_ref();
            Poll::Pending
        } else {
            Poll::Ready(())
        }
    }
}

struct NoopWake;

impl Wake for NoopWake {
    fn wake(self: Arc<Self>) {}
}

type ExecFut = Pin<Box<dyn Future<Output = ()> + Send>>;

fn exec_future(receiver: Receiver<Q>, proc: Arc<Mutex<Processor>>) -> ExecFut {
    let p_wait = proc.clone();
    Box::pin(receiver.exec(
        move |d: Duration| {
            p_wait.lock().unwrap().waits.push((stamp(), d.as_nanos() as u64));
            YieldN(1)
        },
        move |batch: Q| on_batch_async(&proc, batch),
    ))
}

// ---------------------------------------------------------------------------
// metrics
// ---------------------------------------------------------------------------

struct Grab(RefCell<BTreeMap<String, u64>>);

impl emit::metric::sampler::Sampler for Grab {
    fn metric<P: emit::Props>(&self, m: emit::metric::Metric<P>) {
        let v = m.value().by_ref().cast::<u64>().or_else(|| m.value().by_ref().cast::<usize>().map(|v| v as u64));
        if let Some(v) = v {
            self.0.borrow_mut().insert(m.name().to_string(), v);
        }
    }
}

fn read_metrics(src: &eb::ChannelMetrics<Q>) -> BTreeMap<String, u64> {
    use emit::metric::Source;
    let g = Grab(RefCell::new(BTreeMap::new()));
    src.sample_metrics(&g);
    g.0.into_inner()
}

/// Panics that escaped a channel API call made by an actor: (scenario, operation, message).
static PANICS: Mutex<Vec<(u32, String, String)>> = Mutex::new(Vec::new());

fn note_panic(uid: u32, op: &str, msg: String) {
    if let Ok(mut p) = PANICS.lock() {
        p.push((uid, op.to_string(), msg));
    }
}

fn take_panics(uid: u32) -> Vec<(String, String)> {
    let mut p = PANICS.lock().unwrap();
    let mut mine = Vec::new();
    let mut i = 0;
    while i < p.len() {
        if p[i].0 == uid {
            let e = p.swap_remove(i);
            mine.push((e.1, e.2));
        } else {
            i += 1;
        }
    }
    mine
}

fn take_orphans(uid: u32) -> Vec<(u64, Vec<Id>)> {
    let mut o = ORPHANS.lock().unwrap();
    let mut mine = Vec::new();
    let mut i = 0;
    while i < o.len() {
        if o[i].1.first().map(|id| id.sc) == Some(uid) {
            mine.push(o.swap_remove(i));
        } else {
            i += 1;
        }
    }
    mine.sort_by_key(|c| c.0);
    mine
}

// ---------------------------------------------------------------------------
// actor operations (shared by both modes)
// ---------------------------------------------------------------------------

#[cfg(feature = "tokio")]
type Rt = Option<tokio::runtime::Runtime>;
#[cfg(not(feature = "tokio"))]
type Rt = Option<()>;

#[cfg(feature = "tokio")]
fn rt(slot: &mut Rt) -> &tokio::runtime::Runtime {
    slot.get_or_insert_with(|| tokio::runtime::Builder::new_current_thread().enable_time().build().expect("tokio runtime"))
}

fn do_send(sender: &Sender<Q>, id: Id, op: SOp, rt_slot: &mut Rt) -> SendRec {
    let _ = &rt_slot;
    let us = |t: u32| Duration::from_micros(t as u64);
    let fin = |kind: SendKind, call, res: Result<Result<(), BatchError<Id>>, String>| {
        let ret = stamp();
        match res {
            Ok(Ok(())) => SendRec { id, kind, call, ret, accepted: true, returned: None, panicked: false },
            Ok(Err(e)) => SendRec { id, kind, call, ret, accepted: false, returned: e.into_retryable(), panicked: false },
            Err(msg) => {
                note_panic(
                    id.sc,
                    match kind {
                        SendKind::Send => "send",
                        SendKind::TrySend => "try_send",
                        SendKind::BlockingSend => "sync::blocking_send",
                        SendKind::TokioSend => "tokio::send",
                        SendKind::TokioBlockingSend => "tokio::blocking_send",
                    },
                    msg,
                );
                SendRec { id, kind, call, ret, accepted: false, returned: None, panicked: true }
            }
        }
    };
    match op {
        SOp::Send => {
            let call = stamp();
            let r = catch(|| {
                sender.send(id);
                Ok(())
            });
            fin(SendKind::Send, call, r)
        }
        SOp::TrySend => {
            let call = stamp();
            let r = catch(|| sender.try_send(id));
            fin(SendKind::TrySend, call, r)
        }
        SOp::BlockingSend(t) => {
            let call = stamp();
            let r = catch(|| eb::sync::blocking_send(sender, id, us(t)));
            fin(SendKind::BlockingSend, call, r)
        }
        #[cfg(feature = "tokio")]
        SOp::TokioSend(t) => {
            let call = stamp();
            let r = {
                let rt = rt(rt_slot);
                catch(|| rt.block_on(eb::tokio::send(sender, id, us(t))))
            };
            if r.is_err() {
                *rt_slot = None;
            }
            fin(SendKind::TokioSend, call, r)
        }
        #[cfg(feature = "tokio")]
        SOp::TokioBlockingSend(t) => {
            let call = stamp();
            let r = catch(|| eb::tokio::blocking_send(sender, id, us(t)));
            fin(SendKind::TokioBlockingSend, call, r)
        }
        #[cfg(not(feature = "tokio"))]
        SOp::TokioSend(t) | SOp::TokioBlockingSend(t) => {
            let call = stamp();
            let r = catch(|| eb::sync::blocking_send(sender, id, us(t)));
            fin(SendKind::BlockingSend, call, r)
        }
        SOp::Pace(_) => unreachable!(),
    }
}

/// Returns the record and, for callback flushes, the slot the callback stamps into.
fn do_flush(sender: &Sender<Q>, uid: u32, who: u8, op: FOp, rt_slot: &mut Rt) -> (FlushRec, Option<Arc<AtomicU64>>) {
    let _ = &rt_slot;
    let us = |t: u32| Duration::from_micros(t as u64);
    let late = |kind: FlushKind, req, ok: Result<bool, String>| {
        let e = stamp();
        let ok = match ok {
            Ok(ok) => ok,
            Err(msg) => {
                note_panic(
                    uid,
                    match kind {
                        FlushKind::Callback => "when_flushed",
                        FlushKind::Blocking => "sync::blocking_flush",
                        FlushKind::TokioFlush => "tokio::flush",
                        FlushKind::TokioBlocking => "tokio::blocking_flush",
                    },
                    msg,
                );
                false
            }
        };
        (FlushRec { who, kind, req, done: ok.then_some(e), exact: false, panicked_on_receiver: false }, None)
    };
    match op {
        FOp::Callback => {
            let slot = Arc::new(AtomicU64::new(0));
            let s2 = slot.clone();
            let req = stamp();
            let panicky = NEXT_WATCHER_PANICS.with(|c| c.replace(false));
            let r = catch(|| sender.when_flushed(move || watcher_body(&s2, panicky)));
            if let Err(msg) = r {
                note_panic(uid, "when_flushed", msg);
            }
            (FlushRec { who, kind: FlushKind::Callback, req, done: None, exact: true, panicked_on_receiver: false }, Some(slot))
        }
        FOp::Blocking(t) => {
            let req = stamp();
            let ok = catch(|| eb::sync::blocking_flush(sender, us(t)));
            late(FlushKind::Blocking, req, ok)
        }
        #[cfg(feature = "tokio")]
        FOp::TokioFlush(t) => {
            let req = stamp();
            let ok = {
                let rt = rt(rt_slot);
                catch(|| rt.block_on(eb::tokio::flush(sender, us(t))))
            };
            if ok.is_err() {
                *rt_slot = None;
            }
            late(FlushKind::TokioFlush, req, ok)
        }
        #[cfg(feature = "tokio")]
        FOp::TokioBlocking(t) => {
            let req = stamp();
            let ok = catch(|| eb::tokio::blocking_flush(sender, us(t)));
            late(FlushKind::TokioBlocking, req, ok)
        }
        #[cfg(not(feature = "tokio"))]
        FOp::TokioFlush(t) | FOp::TokioBlocking(t) => {
            let req = stamp();
            let ok = catch(|| eb::sync::blocking_flush(sender, us(t)));
            late(FlushKind::Blocking, req, ok)
        }
        FOp::Pace(_) => unreachable!(),
    }
}

fn do_when_empty(sender: &Sender<Q>, uid: u32) -> (EmptyRec, Arc<AtomicU64>) {
    let slot = Arc::new(AtomicU64::new(0));
    let s2 = slot.clone();
    let req = stamp();
    let panicky = NEXT_WATCHER_PANICS.with(|c| c.replace(false));
    let r = catch(|| sender.when_empty(move || watcher_body(&s2, panicky)));
    if let Err(msg) = r {
        note_panic(uid, "when_empty", msg);
    }
    (EmptyRec { req, fired: None, panicked_on_receiver: false }, slot)
}

fn slot_value(s: &AtomicU64) -> Option<u64> {
    match s.load(SeqCst) & !PANIC_BIT {
        0 => None,
        v => Some(v),
    }
}

// ---------------------------------------------------------------------------
// concurrent mode
// ---------------------------------------------------------------------------

enum RecvHandle {
    Spawned(thread::JoinHandle<()>),
    /// our executor thread; returns (exit stamp, early-drop stamp)
    Exec(thread::JoinHandle<(Option<u64>, Option<u64>)>),
}

fn exec_thread(sc: Arc<ScCtx>, receiver: Receiver<Q>, proc: Arc<Mutex<Processor>>, drop_after: Option<u32>, seed: u64) -> (Option<u64>, Option<u64>) {
    enter(&sc, ROLE_RECV);
    let mut g = Rng::stream(seed, &[79]);
    let mut fut = exec_future(receiver, proc);
    let waker: Waker = Arc::new(NoopWake).into();
    let mut cx = Context::from_waker(&waker);
    let mut polls = 0u32;
    let res = loop {
        match fut.as_mut().poll(&mut cx) {
            Poll::Ready(()) => break (Some(stamp()), None),
            Poll::Pending => {}
        }
        polls += 1;
        if drop_after == Some(polls) {
            drop(fut);
            break (None, Some(stamp()));
        }
        // virtual time: a wait costs one poll; pace the executor a little so that it does
        // not monopolise the channel lock
        if sc.delays {
            match g.below(8) {
                0 => thread::sleep(Duration::from_micros(1)),
                1..=3 => thread::yield_now(),
                _ => {
                    for _ in 0..g.range(10, 400) {
                        std::hint::spin_loop();
                    }
                }
            }
        } else {
            // Miri interleaves all threads on one OS thread: a busy-polling executor would
            // eat the interpretation time of the actors, so let it sleep (real clock)
            thread::yield_now();
        }
    };
    leave();
    res
}

pub fn run_concurrent(plan: &Plan, delays: bool) -> History {
    install();
    let uid = NEXT_UID.fetch_add(1, SeqCst);
    let sc = ScCtx::new(uid, plan.seed ^ plan.case.wrapping_mul(0x9E37_79B9), plan.hook, delays);
    REG.lock().unwrap().push((uid, sc.clone()));
    enter(&sc, ROLE_MAIN);
    sc.gate_k.store(plan.senders.len() as u64, SeqCst);

    let (sender, receiver) = eb::bounded::<Q>(plan.cap);
    let metrics_src = sender.metric_source();
    let proc = Processor::new(plan);
    let name = format!("vrx-{}", uid);

    let handle = match plan.flavour {
        Flavour::Sync => {
            let p = proc.clone();
            RecvHandle::Spawned(eb::sync::spawn(name, receiver, move |batch: Q| begin_batch(&p, batch).complete()).expect("spawn receiver"))
        }
        Flavour::Exec => {
            let (sc2, p, da, seed) = (sc.clone(), proc.clone(), plan.drop_after_polls, sc.seed);
            RecvHandle::Exec(thread::Builder::new().name(name).spawn(move || exec_thread(sc2, receiver, p, da, seed)).expect("spawn executor"))
        }
        #[cfg(feature = "tokio")]
        Flavour::Tokio => {
            let p = proc.clone();
            RecvHandle::Spawned(eb::tokio::spawn(name, receiver, move |batch: Q| on_batch_async(&p, batch)).expect("spawn tokio receiver"))
        }
        #[cfg(not(feature = "tokio"))]
        Flavour::Tokio => unreachable!("tokio flavour without the tokio feature"),
    };

    let n_actors = plan.senders.len() + plan.flushers.len() + plan.watchers.len();
    let barrier = Barrier::new(n_actors + 1);
    let mut sends: Vec<SendRec> = Vec::new();
    let mut flushes: Vec<FlushRec> = Vec::new();
    let mut empties: Vec<EmptyRec> = Vec::new();
    let mut pending_f: Vec<(FlushRec, Option<Arc<AtomicU64>>)> = Vec::new();
    let mut pending_e: Vec<(EmptyRec, Arc<AtomicU64>)> = Vec::new();

    thread::scope(|s| {
        let mut sh = Vec::new();
        for (i, ops) in plan.senders.iter().enumerate() {
            let (sc, sender, barrier) = (&sc, &sender, &barrier);
            sh.push(s.spawn(move || {
                enter(sc, ROLE_SENDER0 + i as u8);
                let mut rt_slot: Rt = None;
                let mut log = Vec::with_capacity(ops.len());
                let mut n = 0u32;
                let mut aimed = false;
                barrier.wait();
                for op in ops {
                    match op {
                        SOp::Pace(p) => aimed = pace(sc, *p),
                        _ => {
                            let id = Id { sc: uid, who: i as u8, n };
                            n += 1;
                            log.push(do_send(sender, id, *op, &mut rt_slot));
                            if aimed {
                                sc.ack();
                                aimed = false;
                            }
                        }
                    }
                }
                leave();
                log
            }));
        }
        let mut fh = Vec::new();
        for (j, ops) in plan.flushers.iter().enumerate() {
            let (sc, sender, barrier) = (&sc, &sender, &barrier);
            fh.push(s.spawn(move || {
                enter(sc, ROLE_FLUSHER0 + j as u8);
                let mut rt_slot: Rt = None;
                let mut log: Vec<(FlushRec, Option<Arc<AtomicU64>>)> = Vec::new();
                let mut aimed = false;
                barrier.wait();
                for op in ops {
                    match op {
                        FOp::Pace(p) => aimed = pace(sc, *p),
                        _ => {
                            NEXT_WATCHER_PANICS.with(|c| c.set(matches!(op, FOp::Callback) && plan.watcher_panics(ROLE_FLUSHER0 + j as u8, log.len())));
                            log.push(do_flush(sender, uid, j as u8, *op, &mut rt_slot));
                            if aimed {
                                sc.ack();
                                aimed = false;
                            }
                        }
                    }
                }
                leave();
                log
            }));
        }
        let mut wh = Vec::new();
        for (k, ops) in plan.watchers.iter().enumerate() {
            let (sc, sender, barrier) = (&sc, &sender, &barrier);
            wh.push(s.spawn(move || {
                enter(sc, ROLE_WATCHER0 + k as u8);
                let mut log = Vec::new();
                barrier.wait();
                for op in ops {
                    match op {
                        WOp::Pace(p) => {
                            pace(sc, *p);
                        }
                        WOp::WhenEmpty => {
                            NEXT_WATCHER_PANICS.with(|c| c.set(plan.watcher_panics(ROLE_WATCHER0 + k as u8, log.len())));
                            log.push(do_when_empty(sender, uid))
                        }
                    }
                }
                leave();
                log
            }));
        }
        barrier.wait();
        for h in sh {
            sends.extend(h.join().expect("sender thread"));
        }
        for h in fh {
            pending_f.extend(h.join().expect("flusher thread"));
        }
        for h in wh {
            pending_e.extend(h.join().expect("watcher thread"));
        }
    });

    // quiescence rounds: one last sender operation, then nothing but the receiver idling;
    // whatever was accepted must be handed to the processor without any further activity
    let mut quiesce: Vec<QRec> = Vec::new();
    if plan.drop_after_polls.is_none() && QUIESCE_EXPIRED.load(SeqCst) < 6 {
        let tail_who = plan.senders.len() as u8;
        let tail_flusher = plan.flushers.len() as u8;
        let mut rt_slot: Rt = None;
        for (n, t) in plan.tail.iter().enumerate() {
            ROLE.with(|r| r.set(ROLE_SENDER0 + tail_who));
            let mut aimed = false;
            if delays {
                match t.aim {
                    TailAim::PreCall(w) => aimed = sc.aim_n(w, 30_000),
                    TailAim::AtLock(w) => LOCK_AIM.with(|l| l.set(w)),
                    TailAim::None => {}
                }
            }
            let id = Id { sc: uid, who: tail_who, n: n as u32 };
            let rec = do_send(&sender, id, t.op, &mut rt_slot);
            LOCK_AIM.with(|l| l.set(u8::MAX));
            if aimed {
                sc.ack();
            }
            let flush = if t.flush {
                ROLE.with(|r| r.set(ROLE_FLUSHER0 + tail_flusher));
                if let (true, TailAim::AtLock(w)) = (delays, t.aim) {
                    LOCK_AIM.with(|l| l.set(w));
                }
                pending_f.push(do_flush(&sender, uid, tail_flusher, FOp::Callback, &mut rt_slot));
                LOCK_AIM.with(|l| l.set(u8::MAX));
                Some(pending_f.len() - 1)
            } else {
                None
            };
            ROLE.with(|r| r.set(ROLE_MAIN));
            let after = stamp();
            let base = sc.idle_steps.load(SeqCst);
            let t0 = std::time::Instant::now();
            let watchdog = Duration::from_secs(if cfg!(miri) { 120 } else { 5 });
            let mut q = None;
            let mut i = 0u32;
            let mut receiver_gone = false;
            loop {
                if sc.idle_steps.load(SeqCst) >= base + QUIESCE_IDLE_STEPS {
                    q = Some(stamp());
                    break;
                }
                let gone = match &handle {
                    RecvHandle::Spawned(h) => h.is_finished(),
                    RecvHandle::Exec(h) => h.is_finished(),
                };
                if gone {
                    receiver_gone = true;
                    break;
                }
                i += 1;
                if cfg!(miri) {
                    thread::sleep(Duration::from_micros(100));
                } else if i % 64 == 0 {
                    if t0.elapsed() > watchdog {
                        break;
                    }
                    thread::sleep(Duration::from_micros(50));
                } else {
                    thread::yield_now();
                }
                if cfg!(miri) && i % 64 == 0 && t0.elapsed() > watchdog {
                    break;
                }
            }
            let seen = sc.idle_steps.load(SeqCst) - base;
            quiesce.push(QRec { after, q, idle_steps_seen: seen, item: rec.id, op: rec.kind, accepted: rec.accepted, aim: t.aim, flush });
            sends.push(rec);
            if q.is_none() {
                if !receiver_gone {
                    QUIESCE_EXPIRED.fetch_add(1, SeqCst);
                }
                break;
            }
        }
    }

    // close the channel and wait for the receiver
    let sender_dropped = stamp();
    drop(sender);
    // a receiver that never notices the closed channel must not hang the lane: wait with a
    // (generous, wall-clock) watchdog, then leave the thread behind and call the history stuck
    let mut stuck = None;
    let mut recv_panicked: Option<String> = None;
    let finished = {
        let is_finished = || match &handle {
            RecvHandle::Spawned(h) => h.is_finished(),
            RecvHandle::Exec(h) => h.is_finished(),
        };
        let t0 = std::time::Instant::now();
        let watchdog = Duration::from_secs(if cfg!(miri) { 60 } else { 10 });
        let mut i = 0u32;
        loop {
            if is_finished() {
                break true;
            }
            i += 1;
            if i < 200 && !cfg!(miri) {
                thread::yield_now();
            } else {
                thread::sleep(Duration::from_micros(if cfg!(miri) { 200 } else { 100 }));
                if t0.elapsed() > watchdog {
                    break false;
                }
            }
        }
    };
    let (recv_exit, recv_dropped_early) = if finished {
        match handle {
            RecvHandle::Spawned(h) => match h.join() {
                Ok(()) => (Some(stamp()), None),
                Err(p) => {
                    recv_panicked = Some(panic_message(&p));
                    (None, None)
                }
            },
            RecvHandle::Exec(h) => match h.join() {
                Ok(r) => r,
                Err(p) => {
                    recv_panicked = Some(panic_message(&p));
                    (None, None)
                }
            },
        }
    } else {
        LEAKED_RECEIVERS.fetch_add(1, SeqCst);
        stuck = Some("the receiver thread did not exit within the watchdog after the sender was dropped; it was left behind".to_string());
        drop(handle);
        (None, None)
    };
    // callbacks can fire until the receiver is gone: read the slots only now
    for (mut rec, slot) in pending_f {
        if let Some(s) = slot {
            rec.done = slot_value(&s);
            rec.panicked_on_receiver = slot_panicked(&s);
        }
        flushes.push(rec);
    }
    for (mut rec, slot) in pending_e {
        rec.fired = slot_value(&slot);
        rec.panicked_on_receiver = slot_panicked(&slot);
        empties.push(rec);
    }
    let metrics = read_metrics(&metrics_src);
    drop(metrics_src);
    leave();
    REG.lock().unwrap().retain(|e| e.0 != uid);

    let (recs, waits) = {
        let mut p = proc.lock().unwrap();
        (std::mem::take(&mut p.recs), std::mem::take(&mut p.waits))
    };
    sends.sort_by_key(|s| s.call);
    History {
        plan: plan.clone(),
        uid,
        sends,
        batches: recs,
        flushes,
        empties,
        waits,
        points: sc.merged_points(),
        orphans: take_orphans(uid),
        metrics,
        sender_dropped,
        recv_exit,
        recv_dropped_early,
        model_problems: Vec::new(),
        snapshots_compared: 0,
        injected_ops: 0,
        stuck,
        model: None,
        panics: take_panics(uid),
        quiesce,
        recv_panicked,
    }
}

// ---------------------------------------------------------------------------
// sequential mode: deterministic interleavings at hook-point granularity + queue model
// ---------------------------------------------------------------------------

#[derive(Clone, Copy, Debug)]
enum SeqKind {
    S(SOp),
    F(FOp),
    W,
}

#[derive(Clone, Copy, Debug)]
struct SeqOp {
    role: u8,
    kind: SeqKind,
}

#[derive(Clone, Debug, Default)]
pub struct ModelEnd {
    /// what the model says each swap-out took, in order
    pub takes: Vec<Vec<Id>>,
    pub lost: Vec<Id>,
    pub truncations: u64,
}

/// The queue model, written from the statement: a FIFO of accepted items bounded by the
/// capacity; a plain `send` on a full queue discards the whole queue (counted) and then
/// accepts the item; the fallible variants refuse on a full queue and change nothing; the
/// receiver takes the whole queue at once.
pub struct Seq {
    sender: Option<Sender<Q>>,
    uid: u32,
    cap: usize,
    ops: VecDeque<SeqOp>,
    g: Rng,
    inject_pm: u32,
    counters: Vec<u32>,
    m_pending: Vec<Id>,
    m_end: ModelEnd,
    compare: bool,
    sends: Vec<SendRec>,
    flushes: Vec<(FlushRec, Option<Arc<AtomicU64>>)>,
    empties: Vec<(EmptyRec, Arc<AtomicU64>)>,
    problems: Vec<(String, String)>,
    snapshots: u64,
    injected: u64,
    steps: u64,
    /// receiver polls to run at the lock point of the next top-level sender operation
    lock_polls: u8,
    watcher_panic_pm: u32,
}

impl Seq {
    fn problem(&mut self, sig: &str, what: String) {
        if self.problems.len() < 8 {
            self.problems.push((sig.to_string(), what));
        }
    }

    fn compare_snapshot(&mut self, after: &str) {
        if !self.compare {
            return;
        }
        let snap = match &self.sender {
            Some(s) => s.verif_snapshot(),
            None => return,
        };
        self.snapshots += 1;
        if snap.pending_len != self.m_pending.len() {
            let what = format!(
                "step {} ({}): the channel holds {} pending items, the queue model {} (capacity {})",
                self.steps,
                after,
                snap.pending_len,
                self.m_pending.len(),
                self.cap
            );
            self.problem("C06:model:pending-length", what);
            // resynchronising is not possible without knowing which items went: stop comparing
            self.compare = false;
        } else if !snap.is_open {
            let what = format!("step {} ({}): the channel reports closed while both halves are alive", self.steps, after);
            self.problem("C06:model:closed-while-alive", what);
            self.compare = false;
        }
    }

    /// Let the receiver run while the next operation sits right before its lock acquisition
    /// (only has an effect for top-level operations: the receiver future is parked then).
    fn arm_lock_polls(&mut self) {
        let lp = std::mem::take(&mut self.lock_polls);
        LOCK_POLLS.with(|l| l.set(lp));
        NESTED_SWAPS.with(|n| n.set(0));
    }

    /// The receiver swapped during such nested polls, i.e. before the operation took the lock.
    fn apply_nested_swaps(&mut self) {
        LOCK_POLLS.with(|l| l.set(0));
        let nested_swaps = NESTED_SWAPS.with(|n| n.replace(0));
        if nested_swaps > 0 && !self.m_pending.is_empty() {
            let taken = std::mem::take(&mut self.m_pending);
            self.m_end.takes.push(taken);
        }
    }

    fn do_next_op(&mut self) -> bool {
        let op = match self.ops.pop_front() {
            Some(op) => op,
            None => return false,
        };
        let sender = match self.sender.take() {
            Some(s) => s,
            None => return false,
        };
        self.steps += 1;
        let prev = ROLE.with(|r| r.replace(op.role));
        let mut rt_slot: Rt = None;
        let label;
        match op.kind {
            SeqKind::S(sop) => {
                let who = (op.role - ROLE_SENDER0) as usize;
                let id = Id { sc: self.uid, who: who as u8, n: self.counters[who] };
                self.counters[who] += 1;
                // let the receiver run while this sender sits right before its lock acquisition
                // (only has an effect for top-level operations: the receiver future is parked)
                self.arm_lock_polls();
                let rec = do_send(&sender, id, sop, &mut rt_slot);
                self.apply_nested_swaps();
                label = format!("{:?} of {}.{}", rec.kind, id.who, id.n);
                if self.compare {
                    match rec.kind {
                        SendKind::Send => {
                            if self.m_pending.len() >= self.cap {
                                let gone = std::mem::take(&mut self.m_pending);
                                self.m_end.lost.extend(gone);
                                self.m_end.truncations += 1;
                            }
                            self.m_pending.push(id);
                        }
                        _ => {
                            let expect_ok = self.m_pending.len() < self.cap;
                            if rec.accepted != expect_ok {
                                let what = format!(
                                    "step {}: {:?} returned {} with {} of {} slots used",
                                    self.steps,
                                    rec.kind,
                                    if rec.accepted { "Ok" } else { "Err" },
                                    self.m_pending.len(),
                                    self.cap
                                );
                                self.problem("C06:model:send-result", what);
                                self.compare = false;
                            } else if rec.accepted {
                                self.m_pending.push(id);
                            } else if rec.returned != Some(id) {
                                let what = format!("step {}: {:?} on a full queue did not hand the item back", self.steps, rec.kind);
                                self.problem("C06:model:rejected-item-not-returned", what);
                            }
                        }
                    }
                }
                self.sends.push(rec);
            }
            SeqKind::F(fop) => {
                let who = op.role - ROLE_FLUSHER0;
                label = format!("{:?}", fop);
                NEXT_WATCHER_PANICS.with(|c| c.set(matches!(fop, FOp::Callback) && self.watcher_panic_pm > 0 && self.g.below(1000) < self.watcher_panic_pm as u64));
                self.arm_lock_polls();
                let rec = do_flush(&sender, self.uid, who, fop, &mut rt_slot);
                self.apply_nested_swaps();
                self.flushes.push(rec);
            }
            SeqKind::W => {
                label = "when_empty".to_string();
                NEXT_WATCHER_PANICS.with(|c| c.set(self.watcher_panic_pm > 0 && self.g.below(1000) < self.watcher_panic_pm as u64));
                self.empties.push(do_when_empty(&sender, self.uid));
            }
        }
        ROLE.with(|r| r.set(prev));
        self.sender = Some(sender);
        self.compare_snapshot(&label);
        true
    }

    /// Called by the hook on the sequential thread at a receiver scheduling point.
    fn at_recv_point(&mut self, p: Point) {
        if self.g.below(1000) < self.inject_pm as u64 {
            for _ in 0..self.g.range(1, 3) {
                if self.do_next_op() {
                    self.injected += 1;
                }
            }
        }
        if p == Point::RecvSwapLock && !self.m_pending.is_empty() {
            // the swap-out follows this point immediately and takes the whole queue
            let taken = std::mem::take(&mut self.m_pending);
            self.m_end.takes.push(taken);
        }
    }
}

/// Run the next scripted operation from the top level of the sequential driver: the receiver
/// future is parked where the hook can find it, so that it can be polled while the operation
/// sits at its lock point.
fn top_level_op(fut: &mut Option<ExecFut>, lock_polls: u8, recv_exit: &mut Option<u64>) {
    SEQ_FUT.with(|f| *f.borrow_mut() = fut.take());
    SEQ_RECV_DONE.with(|d| d.set(false));
    with_seq(|s| {
        s.lock_polls = lock_polls;
        s.do_next_op();
        s.lock_polls = 0;
    });
    *fut = SEQ_FUT.with(|f| f.borrow_mut().take());
    if SEQ_RECV_DONE.with(|d| d.replace(false)) {
        *recv_exit = Some(stamp());
    }
}

fn with_seq<R>(f: impl FnOnce(&mut Seq) -> R) -> R {
    SEQ.with(|s| f(s.borrow_mut().as_mut().expect("sequential driver installed")))
}

pub fn run_sequential(plan: &Plan) -> History {
    install();
    let uid = NEXT_UID.fetch_add(1, SeqCst);
    let sc = ScCtx::new(uid, plan.seed ^ plan.case.wrapping_mul(0x9E37_79B9), plan.hook, false);
    enter(&sc, ROLE_MAIN);
    let mut g = Rng::stream(plan.seed, &[80, plan.case]);

    // one operation queue: seeded merge of the actors' scripts (program order per actor kept)
    let mut queues: Vec<VecDeque<SeqOp>> = Vec::new();
    for (i, ops) in plan.senders.iter().enumerate() {
        queues.push(ops.iter().filter(|o| !matches!(o, SOp::Pace(_))).map(|o| SeqOp { role: ROLE_SENDER0 + i as u8, kind: SeqKind::S(*o) }).collect());
    }
    for (j, ops) in plan.flushers.iter().enumerate() {
        queues.push(ops.iter().filter(|o| !matches!(o, FOp::Pace(_))).map(|o| SeqOp { role: ROLE_FLUSHER0 + j as u8, kind: SeqKind::F(*o) }).collect());
    }
    for (k, ops) in plan.watchers.iter().enumerate() {
        queues.push(ops.iter().filter(|o| matches!(o, WOp::WhenEmpty)).map(|_| SeqOp { role: ROLE_WATCHER0 + k as u8, kind: SeqKind::W }).collect());
    }
    let mut ops = VecDeque::new();
    loop {
        let live: Vec<usize> = (0..queues.len()).filter(|i| !queues[*i].is_empty()).collect();
        if live.is_empty() {
            break;
        }
        // bursts make full queues (and therefore truncation) likely
        let q = *g.pick(&live);
        for _ in 0..g.range(1, 4) {
            if let Some(op) = queues[q].pop_front() {
                ops.push_back(op);
            }
        }
    }

    let (sender, receiver) = eb::bounded::<Q>(plan.cap);
    let metrics_src = sender.metric_source();
    let proc = Processor::new(plan);
    let mut fut = Some(exec_future(receiver, proc.clone()));
    SEQ.with(|s| {
        *s.borrow_mut() = Some(Seq {
            sender: Some(sender),
            uid,
            cap: plan.cap,
            ops,
            g: g.fork(),
            inject_pm: plan.hook.inject_pm,
            counters: vec![0; plan.senders.len() + 1],
            m_pending: Vec::new(),
            m_end: ModelEnd::default(),
            compare: true,
            sends: Vec::new(),
            flushes: Vec::new(),
            empties: Vec::new(),
            problems: Vec::new(),
            snapshots: 0,
            injected: 0,
            steps: 0,
            lock_polls: 0,
            watcher_panic_pm: plan.watcher_panic_pm,
        })
    });

    let waker: Waker = Arc::new(NoopWake).into();
    let mut cx = Context::from_waker(&waker);
    let mut polls = 0u32;
    let mut recv_exit = None;
    let mut recv_dropped_early = None;
    let poll_pm = *g.pick(&[150u64, 400, 700]);

    // returns true when the receiver finished
    let mut poll_once = |fut: &mut Option<ExecFut>, polls: &mut u32| -> bool {
        let f = match fut.as_mut() {
            Some(f) => f,
            None => return false,
        };
        ROLE.with(|r| r.set(ROLE_RECV));
        let res = catch(|| f.as_mut().poll(&mut cx));
        ROLE.with(|r| r.set(ROLE_MAIN));
        *polls += 1;
        let res = match res {
            Ok(res) => res,
            Err(msg) => {
                // the receiver future died: nothing may be polled again
                SEQ_RECV_PANIC.with(|p| *p.borrow_mut() = Some(msg));
                *fut = None;
                with_seq(|s| s.compare = false);
                return false;
            }
        };
        with_seq(|s| {
            s.steps += 1;
            s.compare_snapshot("receiver poll")
        });
        if res.is_ready() {
            *fut = None;
            true
        } else {
            false
        }
    };

    loop {
        if with_seq(|s| s.ops.is_empty()) {
            break;
        }
        if fut.is_some() && g.below(1000) < poll_pm {
            if poll_once(&mut fut, &mut polls) {
                // cannot happen while the sender is alive; the conservation check will say so
                recv_exit = Some(stamp());
            }
            if fut.is_some() && plan.drop_after_polls == Some(polls) {
                fut = None;
                recv_dropped_early = Some(stamp());
                with_seq(|s| s.compare = false);
            }
        } else {
            let lp = if g.chance(1, 4) { g.range(1, 3) as u8 } else { 0 };
            top_level_op(&mut fut, lp, &mut recv_exit);
        }
    }

    // quiescence rounds: one last sender operation (the receiver may run while it sits before
    // its lock), then nothing but receiver polls until it has begun K further idle waits
    let mut quiesce: Vec<QRec> = Vec::new();
    if fut.is_some() && recv_dropped_early.is_none() {
        let tail_role = ROLE_SENDER0 + plan.senders.len() as u8;
        let flush_role = ROLE_FLUSHER0 + plan.flushers.len() as u8;
        for t in &plan.tail {
            with_seq(|s| s.ops.push_back(SeqOp { role: tail_role, kind: SeqKind::S(t.op) }));
            let lp = match t.aim {
                TailAim::AtLock(n) => n,
                _ => 0,
            };
            top_level_op(&mut fut, lp, &mut recv_exit);
            let (item, op, accepted) = with_seq(|s| {
                let r = s.sends.last().expect("tail operation recorded");
                (r.id, r.kind, r.accepted)
            });
            let flush = if t.flush {
                with_seq(|s| s.ops.push_back(SeqOp { role: flush_role, kind: SeqKind::F(FOp::Callback) }));
                top_level_op(&mut fut, lp, &mut recv_exit);
                Some(with_seq(|s| s.flushes.len() - 1))
            } else {
                None
            };
            let after = stamp();
            let base = sc.idle_steps.load(SeqCst);
            let mut q = None;
            for _ in 0..5_000 {
                if fut.is_none() {
                    break;
                }
                if poll_once(&mut fut, &mut polls) {
                    recv_exit = Some(stamp());
                    break;
                }
                if sc.idle_steps.load(SeqCst) >= base + QUIESCE_IDLE_STEPS {
                    q = Some(stamp());
                    break;
                }
            }
            let seen = sc.idle_steps.load(SeqCst) - base;
            quiesce.push(QRec { after, q, idle_steps_seen: seen, item, op, accepted, aim: t.aim, flush });
            if q.is_none() {
                break;
            }
        }
    }

    for _ in 0..g.below(6) {
        if poll_once(&mut fut, &mut polls) {
            recv_exit = Some(stamp());
        }
    }
    let sender_dropped = stamp();
    let sender = with_seq(|s| {
        s.compare = false;
        s.sender.take()
    });
    drop(sender);
    let mut stuck = None;
    if fut.is_some() {
        let mut budget = 50_000u32;
        loop {
            if poll_once(&mut fut, &mut polls) {
                recv_exit = Some(stamp());
                break;
            }
            budget -= 1;
            if budget == 0 {
                stuck = Some(format!("receiver did not finish within 50000 polls after the sender was dropped ({} polls in total)", polls));
                break;
            }
        }
    }
    drop(fut);
    let seq = SEQ.with(|s| s.borrow_mut().take()).expect("sequential driver");
    let metrics = read_metrics(&metrics_src);
    drop(metrics_src);
    leave();
    let (recs, waits) = {
        let mut p = proc.lock().unwrap();
        (std::mem::take(&mut p.recs), std::mem::take(&mut p.waits))
    };
    let flushes = seq
        .flushes
        .into_iter()
        .map(|(mut r, slot)| {
            if let Some(s) = slot {
                r.done = slot_value(&s);
                r.panicked_on_receiver = slot_panicked(&s);
            }
            r
        })
        .collect();
    let empties = seq
        .empties
        .into_iter()
        .map(|(mut r, slot)| {
            r.fired = slot_value(&slot);
            r.panicked_on_receiver = slot_panicked(&slot);
            r
        })
        .collect();
    let mut h = History {
        plan: plan.clone(),
        uid,
        sends: seq.sends,
        batches: recs,
        flushes,
        empties,
        waits,
        points: sc.merged_points(),
        orphans: take_orphans(uid),
        metrics,
        sender_dropped,
        recv_exit,
        recv_dropped_early,
        model_problems: seq.problems,
        snapshots_compared: seq.snapshots,
        injected_ops: seq.injected,
        stuck,
        model: None,
        panics: take_panics(uid),
        quiesce,
        recv_panicked: SEQ_RECV_PANIC.with(|p| p.borrow_mut().take()),
    };
    h.model = Some(seq.m_end);
    h
}

pub fn run_plan(plan: &Plan, delays: bool) -> History {
    match plan.mode {
        Mode::Concurrent => run_concurrent(plan, delays),
        Mode::Sequential => run_sequential(plan),
    }
}

// ---------------------------------------------------------------------------
// checkers
// ---------------------------------------------------------------------------

/// Measure the retry budget once per run: how many attempts does an always-retry batch get?
/// (The number is a constant of the channel, not part of the statement.) None = no give-up
/// within 64 attempts.
pub fn calibrate_retry_budget() -> Option<u32> {
    // several batch sizes, the largest count wins: a budget that depends on the size of the
    // remainder is not a budget
    let mut best: Option<u32> = None;
    let sizes: &[usize] = if cfg!(miri) { &[2] } else { &[1, 2, 3, 5] };
    for &n in sizes {
        let plan = Plan {
            seed: 0,
            case: n as u64,
            focus: Focus::Items,
            mode: Mode::Sequential,
            flavour: Flavour::Exec,
            cap: 8,
            senders: vec![vec![SOp::Send; n]],
            flushers: vec![],
            watchers: vec![],
            proc: (0..64).map(|_| Step { yields: 0, slow_us: 0, out: Outcome::Retry(Rem::All) }).collect(),
            drop_after_polls: None,
            hook: HookProfile::default(),
            tail: Vec::new(),
            watcher_panic_pm: 0,
        };
        let h = run_sequential(&plan);
        // attempts of the longest chain
        let mut longest = 0u32;
        let mut cur = 0u32;
        let mut prev: Option<&Vec<Id>> = None;
        for b in &h.batches {
            if prev == Some(&b.items) {
                cur += 1;
            } else {
                cur = 1;
            }
            longest = longest.max(cur);
            prev = Some(&b.items);
        }
        if h.stuck.is_some() || longest >= 60 {
            return None;
        }
        if longest > 0 {
            best = Some(best.unwrap_or(0).max(longest - 1));
        }
    }
    best
}

pub struct Attempts {
    /// per `on_batch` call: is it the first attempt of a batch?
    pub first: Vec<bool>,
    pub problems: Vec<(String, String, Vec<Id>)>,
    pub retried_chains: u64,
    pub exhausted_chains: u64,
}

/// Check 2: after `Err(retry R)` the next call is exactly R, unless the budget is exhausted.
pub fn send_op_name(k: SendKind) -> &'static str {
    match k {
        SendKind::Send => "send",
        SendKind::TrySend => "try_send",
        SendKind::BlockingSend => "blocking_send",
        SendKind::TokioSend => "tokio_send",
        SendKind::TokioBlockingSend => "tokio_blocking_send",
    }
}

fn note_expired_quiescence(h: &History, r: &mut Report, prop: &str) {
    for qr in &h.quiesce {
        if qr.q.is_none() {
            r.observe("quiescence-rounds:watchdog-expired", 1);
            r.inconclusive(format!(
                "{} quiescence step ({}): the receiver did not begin {} idle waits before the watchdog / poll budget expired",
                prop,
                h.plan.shape(),
                QUIESCE_IDLE_STEPS
            ));
        }
    }
}

pub fn classify_attempts(h: &History, budget: Option<u32>) -> Attempts {
    let mut a = Attempts { first: Vec::new(), problems: Vec::new(), retried_chains: 0, exhausted_chains: 0 };
    let mut expect: Option<Vec<Id>> = None;
    // how the attempt that asked for the pending retry expressed it ("" = built directly)
    let mut expect_via = String::new();
    // a non-retryable failure derived through the combinators: (call index, its items, suffix)
    let mut refused: Option<(usize, HashSet<Id>, String)> = None;
    let mut chain_attempts = 0u32;
    let mut chain_items: HashSet<Id> = HashSet::new();
    for (k, b) in h.batches.iter().enumerate() {
        let mut first = true;
        if let Some((k0, its, sfx)) = refused.take() {
            let again: Vec<Id> = b.items.iter().copied().filter(|i| its.contains(i)).collect();
            if !again.is_empty() {
                a.problems.push((
                    format!("C06:retry:re-delivered-after-a-non-retryable-failure{}", sfx),
                    format!("on_batch call #{} was handed {} item(s) of call #{} again although that call failed with an error that carries no remainder", k, again.len(), k0),
                    again,
                ));
            }
        }
        if let Some(r) = expect.take() {
            if b.items == r {
                first = false;
                if chain_attempts == 1 {
                    a.retried_chains += 1;
                }
                chain_attempts += 1;
            } else {
                let overlaps = b.items.iter().any(|i| chain_items.contains(i));
                let exhausted = budget.map(|bd| chain_attempts >= bd + 1).unwrap_or(true);
                if overlaps {
                    let bs: HashSet<Id> = b.items.iter().copied().collect();
                    let rs: HashSet<Id> = r.iter().copied().collect();
                    let class = if bs == rs {
                        "reordered"
                    } else if rs.is_subset(&bs) {
                        "more-than-the-remainder"
                    } else if bs.is_subset(&rs) {
                        "part-of-the-remainder"
                    } else {
                        "other-items"
                    };
                    let mut ids = r.clone();
                    ids.extend(b.items.iter().copied());
                    a.problems.push((
                        format!("C06:retry:not-the-remainder:{}{}", class, expect_via),
                        format!("on_batch call #{} was handed {} items after the processor asked for a retry of {} ({})", k, b.items.len(), r.len(), class),
                        ids,
                    ));
                } else if !exhausted {
                    a.problems.push((
                        format!("C06:retry:remainder-dropped{}", expect_via),
                        format!(
                            "the remainder of {} item(s) returned by attempt {} was never re-delivered (budget is {} retries); call #{} is a fresh batch",
                            r.len(),
                            chain_attempts,
                            budget.unwrap_or(0),
                            k
                        ),
                        r.clone(),
                    ));
                } else {
                    a.exhausted_chains += 1;
                }
            }
        }
        if first {
            chain_attempts = 1;
            chain_items = b.items.iter().copied().collect();
        }
        a.first.push(first);
        if b.out == Out::Retry {
            if let Some(r) = &b.rem {
                if !r.is_empty() {
                    expect = Some(r.clone());
                    expect_via = via_suffix(b);
                }
            }
        }
        if b.out == Out::NoRetry && b.via != 0 {
            refused = Some((k, b.items.iter().copied().collect(), via_suffix(b)));
        }
    }
    if let Some(r) = expect {
        let exhausted = budget.map(|bd| chain_attempts >= bd + 1).unwrap_or(true);
        if exhausted {
            a.exhausted_chains += 1;
        } else if !h.early_drop() && h.stuck.is_none() {
            a.problems.push((
                format!("C06:retry:remainder-dropped{}", expect_via),
                format!("the receiver exited without re-delivering the remainder of {} item(s) returned by attempt {}", r.len(), chain_attempts),
                r,
            ));
        }
    }
    a
}

pub struct Seen {
    pub truncation: bool,
    pub retry: bool,
    pub panic: bool,
    pub exhausted: bool,
}

/// C06: offline history checker. Returns what the history exercised.
pub fn check_c06(h: &History, budget: Option<u32>, r: &mut Report) -> Seen {
    let shape = h.plan.shape();
    let att = classify_attempts(h, budget);
    let seen = Seen {
        truncation: !h.clears().is_empty(),
        retry: att.retried_chains > 0,
        panic: h.batches.iter().any(|b| matches!(b.out, Out::Panic | Out::PanicFut)),
        exhausted: att.exhausted_chains > 0,
    };
    if let Some(s) = &h.stuck {
        r.inconclusive(format!("C06 {} history seed={} case={}: {}", h.plan.shape(), h.plan.seed, h.plan.case, s));
    }
    note_expired_quiescence(h, r, "C06");
    let mut viol = |sig: &str, what: String, ids: &[Id], extra: Json| {
        r.violation(
            &format!("{}:{}", sig, shape),
            &what,
            h.case_json(json!({"witness": h.witness(ids), "more": extra})),
        );
    };
    for (sig, what) in &h.model_problems {
        viol(sig, what.clone(), &[], Json::Null);
    }
    for (op, msg) in &h.panics {
        viol(&format!("C06:panic:{}", op), format!("{} panicked on the caller's thread: {}", op, msg), &[], Json::Null);
    }
    // user watchers that panicked when the receiver ran them: the receiver must survive them
    let pw = h.panicking_watchers();
    if let Some(msg) = &h.recv_panicked {
        viol(
            &if pw.is_empty() { "C06:receiver-died".to_string() } else { format!("C06:receiver-died:after-panicking-watcher:{}", pw) },
            format!("the receiver died with a panic ({}); whatever it had taken or was still queued is gone", msg),
            &[],
            json!({"panicking_watchers_run": pw}),
        );
    }
    // check 2
    for (sig, what, ids) in &att.problems {
        viol(sig, what.clone(), ids, Json::Null);
    }

    let by_id: HashMap<Id, &SendRec> = h.sends.iter().map(|s| (s.id, s)).collect();

    // check 1: no invention, no duplication
    let mut delivered: HashMap<Id, usize> = HashMap::new();
    let mut d_seq: Vec<Id> = Vec::new();
    for (k, b) in h.batches.iter().enumerate() {
        if !att.first[k] {
            continue;
        }
        for id in &b.items {
            match by_id.get(id) {
                None => viol("C06:invented-item", format!("on_batch call #{} contains {}.{} which no sender sent", k, id.who, id.n), &[*id], Json::Null),
                Some(s) => {
                    if s.call > b.call {
                        viol(
                            "C06:delivered-before-sent",
                            format!("{}.{} was handed to on_batch (call stamp {}) before its send was called (stamp {})", id.who, id.n, b.call, s.call),
                            &[*id],
                            Json::Null,
                        );
                    }
                    if !s.accepted && !s.panicked {
                        viol(
                            "C06:rejected-item-delivered",
                            format!("{}.{} was refused by {:?} (item handed back to the caller) but delivered in call #{}", id.who, id.n, s.kind, k),
                            &[*id],
                            Json::Null,
                        );
                    }
                }
            }
            if let Some(prev) = delivered.insert(*id, k) {
                viol("C06:duplicate", format!("{}.{} is in two first-attempt batches (calls #{} and #{})", id.who, id.n, prev, k), &[*id], Json::Null);
            } else {
                d_seq.push(*id);
            }
        }
    }

    // check 3: order. a before b in D  ⇒  not (send b returned before send a was called)
    let mut max_call: Option<(u64, Id)> = None;
    for id in &d_seq {
        if let Some(s) = by_id.get(id) {
            if let Some((mc, a)) = max_call {
                if s.ret < mc {
                    let same = a.who == id.who;
                    viol(
                        if same { "C06:order:per-sender" } else { "C06:order:cross-sender" },
                        format!(
                            "{}.{} was delivered before {}.{} although send({}.{}) returned (stamp {}) before send({}.{}) was called (stamp {})",
                            a.who, a.n, id.who, id.n, id.who, id.n, s.ret, a.who, a.n, mc
                        ),
                        &[a, *id],
                        Json::Null,
                    );
                    break;
                }
            }
            if max_call.map(|m| s.call > m.0).unwrap_or(true) {
                max_call = Some((s.call, *id));
            }
        }
    }

    // check 4: conservation
    let clears = h.clears();
    let mut cleared: HashMap<Id, u64> = HashMap::new();
    for (st, items) in clears.iter().map(|c| (c.0, &c.1)) {
        for id in items {
            if cleared.insert(*id, st).is_some() {
                viol("C06:truncated-twice", format!("{}.{} was removed by two truncations", id.who, id.n), &[*id], Json::Null);
            }
            if delivered.contains_key(id) {
                viol("C06:truncated-and-delivered", format!("{}.{} was removed by a truncation and also delivered", id.who, id.n), &[*id], Json::Null);
            }
        }
        if items.len() != h.plan.cap {
            viol(
                "C06:truncation-of-non-full-queue",
                format!("a truncation removed {} items from a queue of capacity {}", items.len(), h.plan.cap),
                &items[..items.len().min(6)],
                json!({"stamp": st}),
            );
        }
        // runs contiguous in each sender's order (among that sender's accepted items)
        let mut per: BTreeMap<u8, Vec<u32>> = BTreeMap::new();
        for id in items {
            per.entry(id.who).or_default().push(id.n);
        }
        for (who, ns) in per {
            let (lo, hi) = (*ns.iter().min().unwrap(), *ns.iter().max().unwrap());
            let set: HashSet<u32> = ns.iter().copied().collect();
            let hole = h.sends.iter().find(|s| s.id.who == who && s.accepted && s.id.n > lo && s.id.n < hi && !set.contains(&s.id.n));
            if let Some(hs) = hole {
                viol(
                    "C06:truncation-not-contiguous",
                    format!("a truncation removed {}.{}..{}.{} but not {}.{} sent in between", who, lo, who, hi, who, hs.id.n),
                    &[Id { sc: h.uid, who, n: lo }, hs.id, Id { sc: h.uid, who, n: hi }],
                    Json::Null,
                );
            }
        }
    }
    let counted = h.metrics.get("queue_full_truncated").copied();
    if counted != Some(clears.len() as u64) {
        viol(
            "C06:truncation-count",
            format!("{} truncation(s) happened, the queue_full_truncated metric says {:?}", clears.len(), counted),
            &[],
            Json::Null,
        );
    }
    if !h.early_drop() && h.stuck.is_none() {
        let mut missing: Vec<Id> = Vec::new();
        for s in &h.sends {
            if s.accepted && !delivered.contains_key(&s.id) && !cleared.contains_key(&s.id) {
                missing.push(s.id);
            }
        }
        if !missing.is_empty() {
            // where in the history were they lost?
            let last = h.sends.iter().filter(|s| s.accepted).map(|s| s.id).filter(|id| id.who == missing[0].who).max_by_key(|id| id.n);
            let class = if Some(missing[0]) == last || missing.iter().any(|m| Some(*m) == last) { "tail" } else { "middle" };
            viol(
                &if pw.is_empty() { format!("C06:lost-unaccounted:{}", class) } else { format!("C06:lost-unaccounted:after-panicking-watcher:{}", pw) },
                format!(
                    "{} accepted item(s) were neither delivered nor removed by a counted truncation, e.g. {}.{} ({})",
                    missing.len(),
                    missing[0].who,
                    missing[0].n,
                    if h.recv_panicked.is_some() { "the receiver died with a panic" } else { "receiver ran to completion" }
                ),
                &missing[..missing.len().min(6)],
                json!({"missing": ids_json(&missing)}),
            );
        }
        if h.recv_exit.is_none() && h.recv_panicked.is_none() {
            viol("C06:receiver-did-not-exit", "the receiver did not report completion".to_string(), &[], Json::Null);
        }
    }

    // check 6: quiescence. With the receiver alive and nothing else touching the channel, every
    // accepted item (minus truncations) is handed to the processor before the receiver has begun
    // K further idle waits
    for qr in &h.quiesce {
        let q = match qr.q {
            Some(q) => q,
            None => continue,
        };
        let mut stuck: Vec<&SendRec> = Vec::new();
        for s in &h.sends {
            if !s.accepted || s.ret > qr.after {
                continue;
            }
            if cleared.get(&s.id).map(|t| *t < q).unwrap_or(false) {
                continue;
            }
            let taken = delivered.get(&s.id).map(|k| h.batches[*k].call < q).unwrap_or(false);
            if !taken {
                stuck.push(s);
            }
        }
        if let Some(s) = stuck.first() {
            let ids: Vec<Id> = stuck.iter().take(6).map(|s| s.id).collect();
            viol(
                &format!("C06:accepted-item-not-taken:receiver-idle:{}", send_op_name(s.kind)),
                format!(
                    "{}.{} was accepted by {} (returned at stamp {}); afterwards nothing touched the channel, the receiver began {} idle waits (until stamp {}) and still had not handed it to the processor ({} item(s) pending; last operation aimed {:?})",
                    s.id.who,
                    s.id.n,
                    send_op_name(s.kind),
                    s.ret,
                    qr.idle_steps_seen,
                    q,
                    stuck.len(),
                    qr.aim
                ),
                &ids,
                json!({"quiescence": {"after": qr.after, "judged_at": q, "idle_waits_begun": qr.idle_steps_seen, "last_operation": format!("{:?} of {}.{}", qr.op, qr.item.who, qr.item.n)}}),
            );
        }
    }

    // check 5: the queue model's view (sequential mode)
    if let Some(m) = &h.model {
        let firsts: Vec<&Vec<Id>> = h.batches.iter().enumerate().filter(|(k, _)| att.first[*k]).map(|(_, b)| &b.items).collect();
        let same = firsts.len() == m.takes.len() && firsts.iter().zip(m.takes.iter()).all(|(a, b)| *a == b);
        if !same && h.model_problems.is_empty() {
            let k = firsts.iter().zip(m.takes.iter()).position(|(a, b)| *a != b).unwrap_or(firsts.len().min(m.takes.len()));
            viol(
                "C06:model:batch-differs-from-pending",
                format!(
                    "first-attempt batch #{} is {:?}, the queue model's pending sequence at that swap is {:?} ({} batches vs {} swaps)",
                    k,
                    firsts.get(k).map(|v| ids_json(v)),
                    m.takes.get(k).map(|v| ids_json(v)),
                    firsts.len(),
                    m.takes.len()
                ),
                &firsts.get(k).map(|v| v.to_vec()).unwrap_or_default(),
                Json::Null,
            );
        }
        if !h.early_drop() && h.model_problems.is_empty() {
            let ml: HashSet<Id> = m.lost.iter().copied().collect();
            let cl: HashSet<Id> = cleared.keys().copied().collect();
            if ml != cl || m.truncations != clears.len() as u64 {
                viol(
                    "C06:model:truncation",
                    format!("the queue model lost {} items in {} truncations, the channel {} in {}", ml.len(), m.truncations, cl.len(), clears.len()),
                    &[],
                    Json::Null,
                );
            }
        }
    }
    seen
}

/// C07: when a flush completed at `d`, requested at `c`, every item whose send returned before
/// `c` was truncated before `d`, or all its attempts returned before `d` and none starts after.
/// Returns (completed flushes judged, items judged).
pub fn check_c07(h: &History, r: &mut Report) -> (u64, u64) {
    if h.early_drop() || h.stuck.is_some() || h.recv_panicked.is_some() {
        return (0, 0);
    }
    let shape = h.plan.shape();
    for (op, msg) in &h.panics {
        r.violation(
            &format!("C07:panic:{}:{}", op, shape),
            &format!("{} panicked on the caller's thread: {}", op, msg),
            h.case_json(Json::Null),
        );
    }
    note_expired_quiescence(h, r, "C07");
    // quiescence: a callback flush requested right after the last sender operation, with nothing
    // else touching the channel and no processor failure, has completed before the receiver
    // has begun K further idle waits
    for qr in &h.quiesce {
        let (q, fi) = match (qr.q, qr.flush) {
            (Some(q), Some(fi)) => (q, fi),
            _ => continue,
        };
        let f = match h.flushes.get(fi) {
            Some(f) => f,
            None => continue,
        };
        let done = f.done.map(|d| d < q).unwrap_or(false);
        let all_ok = h.batches.iter().filter(|b| b.ret == 0 || (b.ret > f.req && b.call < q)).all(|b| b.out == Out::Ok);
        if !done && all_ok {
            r.violation(
                &format!("C07:flush-not-completed-at-quiescence:callback:{}", shape),
                &format!(
                    "a callback flush requested at stamp {} right after the last sender operation had not completed when the receiver had begun {} idle waits (stamp {}) although nothing else touched the channel and no processor call failed",
                    f.req, qr.idle_steps_seen, q
                ),
                h.case_json(json!({"flush": {"requested": f.req, "completed": f.done}, "quiescence": {"after": qr.after, "judged_at": q}, "witness": h.witness(&[qr.item])})),
            );
        }
    }
    // per item: first call, last call, last return over all attempts containing it
    struct A {
        first_call: u64,
        last_call: u64,
        last_ret: u64,
        unfinished: bool,
        n: u32,
    }
    let mut att: HashMap<Id, A> = HashMap::new();
    for b in &h.batches {
        for id in &b.items {
            let e = att.entry(*id).or_insert(A { first_call: b.call, last_call: b.call, last_ret: 0, unfinished: false, n: 0 });
            e.first_call = e.first_call.min(b.call);
            e.last_call = e.last_call.max(b.call);
            e.last_ret = e.last_ret.max(b.ret);
            e.unfinished |= b.out == Out::Unfinished;
            e.n += 1;
        }
    }
    let mut cleared: HashMap<Id, u64> = HashMap::new();
    for c in h.clears() {
        for id in &c.1 {
            cleared.insert(*id, c.0);
        }
    }
    let mut sends: Vec<&SendRec> = h.sends.iter().filter(|s| s.accepted).collect();
    sends.sort_by_key(|s| s.ret);
    let (mut judged_f, mut judged_i) = (0u64, 0u64);
    for f in &h.flushes {
        let d = match f.done {
            Some(d) => d,
            None => continue,
        };
        judged_f += 1;
        let kind = match f.kind {
            FlushKind::Callback => "callback",
            FlushKind::Blocking => "blocking",
            FlushKind::TokioFlush => "tokio-async",
            FlushKind::TokioBlocking => "tokio-blocking",
        }
        .to_string();
        let mut reported = false;
        for s in sends.iter().take_while(|s| s.ret < f.req) {
            judged_i += 1;
            let id = s.id;
            let bad: Option<(&str, String)> = match (att.get(&id), cleared.get(&id)) {
                (None, Some(t)) if *t > d => Some(("queued-at-flush", format!("it was still queued (a truncation removed it later, at stamp {})", t))),
                (None, Some(_)) => None,
                (None, None) => Some(("never-processed", "it was never handed to the processor and no truncation removed it".to_string())),
                (Some(a), _) => {
                    if a.first_call > d {
                        Some(("queued-at-flush", format!("it was first handed to the processor afterwards (call stamp {})", a.first_call)))
                    } else if a.unfinished || a.last_ret > d {
                        Some(("in-flight-at-flush", format!("an on_batch attempt containing it returned afterwards (stamp {})", a.last_ret)))
                    } else if a.last_call > d {
                        Some(("retried-after-flush", format!("it was handed to the processor again afterwards (call stamp {}, {} attempts)", a.last_call, a.n)))
                    } else {
                        None
                    }
                }
            };
            if let Some((class, why)) = bad {
                if !reported {
                    reported = true;
                    r.violation(
                        &format!("C07:{}:{}:{}", class, kind, shape),
                        &format!(
                            "a {} flush requested at stamp {} completed at stamp {}{} although {}.{} (send returned at stamp {}) was not done: {}",
                            kind,
                            f.req,
                            d,
                            if f.exact { "" } else { " (late stamp)" },
                            id.who,
                            id.n,
                            s.ret,
                            why
                        ),
                        h.case_json(json!({"flush": {"kind": kind, "flusher": f.who, "requested": f.req, "completed": d, "exact": f.exact}, "witness": h.witness(&[id])})),
                    );
                }
            }
        }
    }
    (judged_f, judged_i)
}

// ---------------------------------------------------------------------------
// lane driver shared by c06 / c07
// ---------------------------------------------------------------------------

pub static PARTITIONS: Mutex<Option<HashSet<u64>>> = Mutex::new(None);

pub fn note_partition(sig: u64) {
    let mut p = PARTITIONS.lock().unwrap();
    p.get_or_insert_with(HashSet::new).insert(sig);
}

pub fn partitions_seen() -> usize {
    PARTITIONS.lock().unwrap().as_ref().map(|s| s.len()).unwrap_or(0)
}

/// Observation counters common to both monitors.
pub fn observe_history(h: &History, r: &mut Report) {
    r.observe("sender-ops", h.sends.len() as u64);
    r.observe("on_batch-calls", h.batches.len() as u64);
    r.observe("flush-requests", h.flushes.len() as u64);
    r.observe("flush-completions", h.flushes.iter().filter(|f| f.done.is_some()).count() as u64);
    r.observe("when_empty-callbacks", h.empties.iter().filter(|e| e.fired.is_some()).count() as u64);
    r.observe("hook-points", h.points.len() as u64);
    r.observe("virtual-waits", h.waits.len() as u64);
    r.observe("truncation-events", h.clears().len() as u64);
    r.observe("model-snapshots-compared", h.snapshots_compared);
    r.observe("ops-injected-at-receiver-points", h.injected_ops);
    r.observe(&format!("histories:{}", h.plan.shape()), 1);
    r.observe("panicking-watchers-run-by-receiver:on-take", h.empties.iter().filter(|e| e.panicked_on_receiver).count() as u64);
    r.observe("panicking-watchers-run-by-receiver:on-flush", h.flushes.iter().filter(|f| f.panicked_on_receiver).count() as u64);
    if !h.panicking_watchers().is_empty() {
        r.observe("histories:with-panicking-watcher-run-by-receiver", 1);
    }
    for qr in &h.quiesce {
        if qr.q.is_some() {
            r.observe(
                match qr.aim {
                    TailAim::None => "quiescence-rounds:last-op-unaimed",
                    TailAim::PreCall(_) => "quiescence-rounds:receiver-held-between-saw-empty-and-idle",
                    TailAim::AtLock(_) => "quiescence-rounds:last-op-delayed-before-its-lock",
                },
                1,
            );
            r.observe(&format!("quiescence-rounds:last-op:{}", send_op_name(qr.op)), 1);
            if qr.flush.is_some() {
                r.observe("quiescence-rounds:with-flush-request", 1);
            }
        }
    }
    note_partition(h.partition_sig());
    if let Some(sig) = h.interleaving_sig() {
        r.nontrivial(&sig);
    }
}

pub fn sample_json(h: &History) -> Json {
    let mut ev: Vec<(u64, Json)> = Vec::new();
    for s in h.sends.iter().take(12) {
        ev.push((s.call, json!({"t": [s.call, s.ret], "actor": format!("sender{}", s.id.who), "op": format!("{:?}", s.kind), "item": s.id.j(), "accepted": s.accepted})));
    }
    for (k, b) in h.batches.iter().take(8).enumerate() {
        ev.push((b.call, json!({"t": [b.call, b.ret], "actor": "receiver", "op": "on_batch", "call_index": k, "items": ids_json(&b.items), "outcome": format!("{:?}", b.out), "remainder": b.rem.as_ref().map(|x| ids_json(x)), "expressed": via_suffix(b)})));
    }
    for f in h.flushes.iter().take(6) {
        ev.push((f.req, json!({"t": [f.req, f.done], "actor": format!("flusher{}", f.who), "op": format!("{:?}", f.kind)})));
    }
    ev.sort_by_key(|e| e.0);
    json!({
        "plan": h.plan.to_json(),
        "summary": h.summary(),
        "first_events": ev.into_iter().map(|e| e.1).collect::<Vec<_>>(),
        "first_hook_points": h.points.iter().take(24).map(|p| format!("{}@{}:{:?}", p.0, p.1, p.2)).collect::<Vec<_>>(),
    })
}

// ---------------------------------------------------------------------------
// stress family: the truncation accounting while SEVERAL senders truncate at the same time
// ---------------------------------------------------------------------------
//
// The scripted histories above have a handful of senders and truncate now and then, so the
// conservation rule is next to never evaluated with two truncating sends overlapping in time.
// Here nearly every `send` truncates: tiny capacity, 2-16 sender threads doing nothing but plain
// sends, many rounds. Two families, both pure accounting at quiescence (no timing):
//
// * parked   – the receiver exists but never runs while the senders send. Afterwards, through the
//              public `metric_source()`:  sent == queue_full_truncated x capacity + queue_length.
//              Then the receiver is run once to drain: the drained queue object (our own `LQ`)
//              says how many `clear()` calls it saw and how many items each removed, the survivors
//              must be a suffix of every sender's sequence.
// * slow     – a real receiver thread (sync / tokio) with a slow processor runs next to the senders;
//              items carry ids (`Q` / `Id`), so the lost items are known exactly:
//              sent == delivered + queue_full_truncated x capacity (+ nothing pending after the
//              receiver exited), lost == union of what the truncations removed, every truncation
//              removed exactly one full queue (a run contiguous in every sender's order).

/// Queue type of the parked family: counts what `clear()` did; the counters travel with the queue
/// object (no receiver swaps it while the senders run).
pub struct LQ {
    pub items: Vec<u64>,
    pub clears: u64,
    pub removed: u64,
    pub min_cleared: u64,
    pub max_cleared: u64,
    /// truncations done while another sender that had already truncated inside its current `send`
    /// call had not yet returned from it (measured rounds only)
    pub overlapping: u64,
    /// consecutive truncations done by different threads (measured rounds only)
    pub handovers: u64,
    last_by: u32,
}

static STRESS_MEASURE: AtomicU32 = AtomicU32::new(0);
/// truncating `send` calls that have truncated and not yet returned (measured rounds only)
static STRESS_TRUNC_INFLIGHT: AtomicU32 = AtomicU32::new(0);

thread_local! {
    static STRESS_TID: Cell<u32> = const { Cell::new(0) };
    static STRESS_DID_TRUNC: Cell<bool> = const { Cell::new(false) };
}

impl Channel for LQ {
    type Item = u64;

    fn new() -> Self {
        LQ { items: Vec::new(), clears: 0, removed: 0, min_cleared: u64::MAX, max_cleared: 0, overlapping: 0, handovers: 0, last_by: 0 }
    }

    fn with_capacity(hint: usize) -> Self {
        let mut q = LQ::new();
        q.items = Vec::with_capacity(hint.min(1 << 12));
        q
    }

    fn push(&mut self, item: u64) {
        self.items.push(item);
    }

    fn len(&self) -> usize {
        self.items.len()
    }

    fn clear(&mut self) {
        let n = self.items.len() as u64;
        self.items.clear();
        self.clears += 1;
        self.removed += n;
        self.min_cleared = self.min_cleared.min(n);
        self.max_cleared = self.max_cleared.max(n);
        if STRESS_MEASURE.load(std::sync::atomic::Ordering::Relaxed) != 0 {
            let me = STRESS_TID.with(|t| t.get());
            if me != self.last_by && self.last_by != 0 {
                self.handovers += 1;
            }
            self.last_by = me;
            STRESS_DID_TRUNC.with(|d| d.set(true));
            if STRESS_TRUNC_INFLIGHT.fetch_add(1, SeqCst) >= 1 {
                self.overlapping += 1;
            }
        }
    }
}

struct GrabAny(RefCell<BTreeMap<String, u64>>);

impl emit::metric::sampler::Sampler for GrabAny {
    fn metric<P: emit::Props>(&self, m: emit::metric::Metric<P>) {
        let v = m.value().by_ref().cast::<u64>().or_else(|| m.value().by_ref().cast::<usize>().map(|v| v as u64));
        if let Some(v) = v {
            self.0.borrow_mut().insert(m.name().to_string(), v);
        }
    }
}

/// The public metrics of a channel of any queue type.
pub fn read_metrics_of<T: Channel>(src: &eb::ChannelMetrics<T>) -> BTreeMap<String, u64> {
    use emit::metric::Source;
    let g = GrabAny(RefCell::new(BTreeMap::new()));
    src.sample_metrics(&g);
    g.0.into_inner()
}

fn join_within(h: thread::JoinHandle<()>, limit: Duration) -> Option<thread::Result<()>> {
    let start = std::time::Instant::now();
    while !h.is_finished() {
        if start.elapsed() > limit {
            return None;
        }
        thread::sleep(Duration::from_micros(200));
    }
    Some(h.join())
}

#[derive(Clone, Debug)]
pub struct StressPlan {
    pub seed: u64,
    pub round: u64,
    /// "parked" | "slow"
    pub family: &'static str,
    pub cap: usize,
    pub senders: usize,
    pub per_sender: u64,
    /// parked: the senders also keep the overlap counters (two extra atomic operations per truncation)
    pub measured: bool,
    /// slow: receiver flavour and time spent per batch
    pub flavour: Flavour,
    pub slow_us: u32,
    /// slow: every sender yields after this many sends (0 = never), so that the receiver gets a share
    pub yield_every: u32,
}

impl StressPlan {
    pub fn to_json(&self) -> Json {
        json!({"section": "stress", "family": self.family, "seed": self.seed, "round": self.round, "capacity": self.cap, "senders": self.senders,
               "sends_per_sender": self.per_sender, "overlap_counters": self.measured,
               "receiver": if self.family == "parked" { "never runs while the senders send".to_string() } else { format!("{:?}, {} us per batch; senders yield every {} sends", self.flavour, self.slow_us, self.yield_every) }})
    }
}

/// `size`: 0 = sanitizer lane (tiny), 1 = quick, 2 = thorough.
pub fn gen_stress(seed: u64, round: u64, size: u8) -> StressPlan {
    let mut g = Rng::stream(seed, &[6, 9, round]);
    // two parked rounds, then a slow one
    let family = if round % 3 == 2 { "slow" } else { "parked" };
    let cap = match g.below(6) {
        0 => 1,
        1 => 2,
        2 => 3,
        3 => 4,
        _ => g.range(1, 8) as usize,
    };
    let tokio_ok = cfg!(feature = "tokio") && size > 0;
    let flavour = if tokio_ok && g.chance(1, 3) { Flavour::Tokio } else { Flavour::Sync };
    let slow_us = *g.pick(&[0u32, 5, 20, 60, 150, 400]);
    let (senders, per_sender) = match (family, size) {
        (_, 0) => (g.range(2, 4) as usize, g.range(300, 1500)),
        ("parked", _) => (g.range(2, 16) as usize, g.range(10_000, 100_000)),
        (_, 1) => (g.range(2, 12) as usize, g.range(2_000, 10_000)),
        _ => (g.range(2, 16) as usize, g.range(10_000, 30_000)),
    };
    let yield_every = *g.pick(&[0u32, 0, 1, 4, 32]);
    StressPlan { seed, round, family, cap, senders, per_sender, measured: round % 2 == 1, flavour, slow_us, yield_every }
}

#[derive(Default)]
pub struct StressSeen {
    pub sends: u64,
    pub truncations: u64,
    pub overlapping: u64,
}

pub fn stress_round(r: &mut Report, prop: &str, p: &StressPlan) -> StressSeen {
    r.eval();
    match p.family {
        "parked" => stress_parked(r, prop, p),
        _ => stress_slow(r, prop, p),
    }
}

fn stress_sig(prop: &str, what: &str) -> String {
    format!("{}:conservation:concurrent-truncations:{}", prop, what)
}

fn stress_parked(r: &mut Report, prop: &str, p: &StressPlan) -> StressSeen {
    let case = p.to_json();
    let cap = p.cap as u64;
    let (sender, receiver) = eb::bounded::<LQ>(p.cap);
    let metrics_src = sender.metric_source();
    let sender = Arc::new(sender);
    STRESS_MEASURE.store(p.measured as u32, SeqCst);
    STRESS_TRUNC_INFLIGHT.store(0, SeqCst);
    let barrier = Arc::new(Barrier::new(p.senders));
    let handles: Vec<thread::JoinHandle<()>> = (0..p.senders)
        .map(|ti| {
            let (sender, barrier) = (sender.clone(), barrier.clone());
            let (n, measured) = (p.per_sender, p.measured);
            thread::Builder::new()
                .name("c06s-tx".into())
                .spawn(move || {
                    STRESS_TID.with(|t| t.set(ti as u32 + 1));
                    barrier.wait();
                    let base = (ti as u64 + 1) << 32;
                    if measured {
                        for k in 0..n {
                            sender.send(base | k);
                            if STRESS_DID_TRUNC.with(|d| d.replace(false)) {
                                STRESS_TRUNC_INFLIGHT.fetch_sub(1, SeqCst);
                            }
                        }
                    } else {
                        for k in 0..n {
                            sender.send(base | k);
                        }
                    }
                })
                .expect("spawn stress sender")
        })
        .collect();
    let mut panicked = false;
    for h in handles {
        match join_within(h, Duration::from_secs(120)) {
            Some(Ok(())) => {}
            Some(Err(_)) => panicked = true,
            None => {
                STRESS_MEASURE.store(0, SeqCst);
                r.inconclusive(format!("{} stress (parked receiver): a sender thread did not finish its plain sends within 120 s", prop));
                return StressSeen::default();
            }
        }
    }
    STRESS_MEASURE.store(0, SeqCst);
    if panicked {
        r.violation(&format!("{}:panic:send:concurrent-truncations", prop), "a plain send panicked on a sender thread of the truncation stress scenario", case.clone());
        return StressSeen::default();
    }
    // quiescence: every send has returned, nobody touches the channel
    let sent = p.senders as u64 * p.per_sender;
    let m = read_metrics_of(&metrics_src);
    let counted = m.get("queue_full_truncated").copied();
    let qlen = m.get("queue_length").copied();
    let (counted, qlen) = match (counted, qlen) {
        (Some(c), Some(q)) => (c, q),
        _ => {
            r.violation(&stress_sig(prop, "metrics-missing"), &format!("metric_source() did not report queue_full_truncated / queue_length: {:?}", m), case);
            return StressSeen::default();
        }
    };
    // drain: run the receiver once over what is left
    drop(sender);
    let slot: Arc<Mutex<Vec<LQ>>> = Arc::new(Mutex::new(Vec::new()));
    let s2 = slot.clone();
    let rx = eb::sync::spawn("c06s-rx", receiver, move |batch: LQ| {
        s2.lock().unwrap().push(batch);
        Ok(())
    })
    .expect("spawn receiver");
    if join_within(rx, Duration::from_secs(20)).is_none() {
        r.inconclusive(format!("{} stress (parked receiver): the receiver did not drain and exit within 20 s after the sender was dropped", prop));
        return StressSeen::default();
    }
    let drained = std::mem::take(&mut *slot.lock().unwrap());
    let detail = |extra: Json| {
        let mut c = case.clone();
        c["observed"] = extra;
        c
    };
    let lost_by_metrics = sent as i128 - qlen as i128;
    let explained = counted as i128 * cap as i128;
    let numbers = json!({"sent": sent, "queue_full_truncated": counted, "queue_length": qlen, "capacity": cap,
        "sent_minus_queue_length": lost_by_metrics.to_string(), "truncated_x_capacity": explained.to_string(),
        "drained_batches": drained.len(), "drained_items": drained.iter().map(|q| q.items.len()).sum::<usize>(),
        "clear_calls_seen_by_the_queue_object": drained.iter().map(|q| q.clears).sum::<u64>(),
        "items_removed_by_clear_calls": drained.iter().map(|q| q.removed).sum::<u64>()});
    // the rule, from public observations only
    if lost_by_metrics != explained {
        let (sig, what) = if lost_by_metrics > explained {
            ("counted-less-than-lost", "fewer truncations were counted than items were lost")
        } else {
            ("counted-more-than-lost", "more truncations were counted than items were lost")
        };
        r.violation(
            &stress_sig(prop, sig),
            &format!(
                "{}: {} sender threads x {} plain sends into a queue of capacity {} whose receiver never ran: {} sent, queue_length {} at quiescence, so {} items were discarded, but queue_full_truncated = {} explains {} (each truncation removes exactly a full queue)",
                what, p.senders, p.per_sender, cap, sent, qlen, lost_by_metrics, counted, explained
            ),
            detail(numbers.clone()),
        );
    }
    // the queue object's own account
    let mut seen = StressSeen { sends: sent, ..Default::default() };
    if drained.len() != 1 {
        r.violation(
            &stress_sig(prop, "drain-not-one-batch"),
            &format!("the receiver had never run; draining {} pending item(s) produced {} on_batch calls", qlen, drained.len()),
            detail(numbers.clone()),
        );
        return seen;
    }
    let q = &drained[0];
    seen.truncations = q.clears;
    seen.overlapping = q.overlapping;
    r.observe("stress:parked:rounds", 1);
    r.observe("stress:parked:sends", sent);
    r.observe("stress:parked:truncations", q.clears);
    if p.measured {
        r.observe("stress:parked:measured-rounds:truncations", q.clears);
        r.observe("stress:parked:measured-rounds:truncations-overlapping-another-truncating-send", q.overlapping);
        r.observe("stress:parked:measured-rounds:truncations-handed-over-between-threads", q.handovers);
    }
    if q.items.len() as u64 != qlen {
        r.violation(
            &stress_sig(prop, "queue-length-differs-from-pending"),
            &format!("queue_length said {} at quiescence, the receiver then drained {} item(s)", qlen, q.items.len()),
            detail(numbers.clone()),
        );
    }
    if q.removed + q.items.len() as u64 != sent {
        r.violation(
            &stress_sig(prop, "lost-without-truncation"),
            &format!("{} sent, {} drained, the clear() calls removed {}: {} item(s) vanished without a truncation", sent, q.items.len(), q.removed, sent as i128 - q.removed as i128 - q.items.len() as i128),
            detail(numbers.clone()),
        );
    }
    if q.clears > 0 && (q.min_cleared != cap || q.max_cleared != cap) {
        r.violation(
            &stress_sig(prop, "truncation-of-non-full-queue"),
            &format!("truncations removed between {} and {} items from a queue of capacity {}", q.min_cleared, q.max_cleared, cap),
            detail(numbers.clone()),
        );
    }
    if lost_by_metrics == explained && q.clears != counted {
        r.violation(
            &stress_sig(prop, "clear-calls-differ-from-counted"),
            &format!("the queue object saw {} clear() calls, queue_full_truncated = {}", q.clears, counted),
            detail(numbers.clone()),
        );
    }
    // survivors: unique, really sent, and the newest of every sender
    let mut newest: BTreeMap<u64, Vec<u64>> = BTreeMap::new();
    let mut bad = None;
    for id in &q.items {
        let (who, n) = (id >> 32, id & 0xFFFF_FFFF);
        if who == 0 || who > p.senders as u64 || n >= p.per_sender {
            bad = Some(format!("item {:#x} was never sent", id));
        }
        newest.entry(who).or_default().push(n);
    }
    for (who, ns) in &newest {
        for w in ns.windows(2) {
            if w[1] != w[0] + 1 {
                bad = Some(format!("survivors of sender {} are {:?}: not consecutive in its order", who, ns));
            }
        }
        if ns.last() != Some(&(p.per_sender - 1)) {
            bad = Some(format!("survivors of sender {} are {:?} but its last send was #{}: a later item was discarded while an earlier one was kept", who, ns, p.per_sender - 1));
        }
    }
    if let Some(b) = bad {
        r.violation(&stress_sig(prop, "survivors-not-the-newest"), &b, detail(numbers.clone()));
    }
    r.nontrivial(&("stress-parked", p.cap, p.senders, q.overlapping.min(3), q.handovers.min(3)));
    if r.wants_sample() && p.round < 2 {
        let (ov, ho) = (q.overlapping, q.handovers);
        let measured = p.measured;
        r.sample(move || json!({"case": case, "observed": numbers, "overlap_counters": if measured { json!({"overlapping_truncations": ov, "handovers": ho}) } else { Json::Null }}));
    }
    seen
}

fn stress_slow(r: &mut Report, prop: &str, p: &StressPlan) -> StressSeen {
    let case = p.to_json();
    let uid = NEXT_UID.fetch_add(1, SeqCst);
    let (sender, receiver) = eb::bounded::<Q>(p.cap);
    let metrics_src = sender.metric_source();
    let sender = Arc::new(sender);
    // (call stamp, items, truncations that hit the queue object while it was pending)
    type Got = Vec<(u64, Vec<Id>, Vec<(u64, Vec<Id>)>)>;
    let got: Arc<Mutex<Got>> = Arc::new(Mutex::new(Vec::new()));
    let slow_us = p.slow_us;
    let spend = move || {
        if slow_us == 0 {
        } else if slow_us < 30 {
            for _ in 0..slow_us * 40 {
                std::hint::spin_loop();
            }
        } else {
            thread::sleep(Duration::from_micros(slow_us as u64));
        }
    };
    let rx = match p.flavour {
        #[cfg(feature = "tokio")]
        Flavour::Tokio => {
            let got = got.clone();
            eb::tokio::spawn("c06s-rx", receiver, move |mut batch: Q| {
                let call = stamp();
                let items = std::mem::take(&mut batch.items);
                let cleared = std::mem::take(&mut batch.cleared);
                got.lock().unwrap().push((call, items, cleared));
                async move {
                    if slow_us > 0 {
                        tokio::time::sleep(Duration::from_micros(slow_us as u64)).await;
                    }
                    Ok(())
                }
            })
            .expect("spawn receiver")
        }
        _ => {
            let got = got.clone();
            eb::sync::spawn("c06s-rx", receiver, move |mut batch: Q| {
                let call = stamp();
                let items = std::mem::take(&mut batch.items);
                let cleared = std::mem::take(&mut batch.cleared);
                got.lock().unwrap().push((call, items, cleared));
                spend();
                Ok(())
            })
            .expect("spawn receiver")
        }
    };
    let barrier = Arc::new(Barrier::new(p.senders));
    let handles: Vec<thread::JoinHandle<Vec<(u64, u64)>>> = (0..p.senders)
        .map(|ti| {
            let (sender, barrier) = (sender.clone(), barrier.clone());
            let (n, yield_every) = (p.per_sender, p.yield_every as u64);
            thread::Builder::new()
                .name("c06s-tx".into())
                .spawn(move || {
                    let mut win = Vec::with_capacity(n as usize);
                    barrier.wait();
                    for k in 0..n {
                        let call = stamp();
                        sender.send(Id { sc: uid, who: ti as u8, n: k as u32 });
                        win.push((call, stamp()));
                        if yield_every > 0 && k % yield_every == yield_every - 1 {
                            thread::yield_now();
                        }
                    }
                    win
                })
                .expect("spawn stress sender")
        })
        .collect();
    let mut windows: Vec<Vec<(u64, u64)>> = Vec::new();
    let mut stuck = false;
    for h in handles {
        let start = std::time::Instant::now();
        while !h.is_finished() && start.elapsed() < Duration::from_secs(120) {
            thread::sleep(Duration::from_micros(200));
        }
        if !h.is_finished() {
            stuck = true;
            continue;
        }
        match h.join() {
            Ok(w) => windows.push(w),
            Err(_) => {
                r.violation(&format!("{}:panic:send:concurrent-truncations", prop), "a plain send panicked on a sender thread of the truncation stress scenario", case.clone());
                stuck = true;
            }
        }
    }
    drop(sender);
    let exited = join_within(rx, Duration::from_secs(30));
    if stuck || exited.is_none() {
        if exited.is_none() {
            LEAKED_RECEIVERS.fetch_add(1, SeqCst);
        }
        r.inconclusive(format!("{} stress (slow receiver): senders or receiver did not finish within the watchdog", prop));
        let _ = take_orphans(uid);
        return StressSeen::default();
    }
    if let Some(Err(_)) = exited {
        r.violation(&format!("{}:receiver-died:concurrent-truncations", prop), "the receiver thread died with a panic in the truncation stress scenario", case.clone());
    }
    let m = read_metrics_of(&metrics_src);
    let counted = m.get("queue_full_truncated").copied().unwrap_or(u64::MAX);
    let pending = m.get("queue_length").copied().unwrap_or(u64::MAX);
    let got = std::mem::take(&mut *got.lock().unwrap());
    let orphans = take_orphans(uid);
    let cap = p.cap as u64;
    let sent = p.senders as u64 * p.per_sender;
    let sig_of = |what: &str| stress_sig(prop, what);

    // delivered: exactly once, really sent, in every sender's order
    let mut delivered: HashSet<Id> = HashSet::with_capacity(sent as usize);
    let mut last_n: Vec<Option<u32>> = vec![None; p.senders];
    let mut first_problem: Option<(String, String)> = None;
    let mut note = |sig: String, what: String| {
        if first_problem.is_none() {
            first_problem = Some((sig, what));
        }
    };
    let mut oversized = 0u64;
    for (k, (_, items, _)) in got.iter().enumerate() {
        if items.len() as u64 > cap {
            oversized += 1;
        }
        for id in items {
            if id.sc != uid || id.who as usize >= p.senders || id.n as u64 >= p.per_sender {
                note(sig_of("invented-item"), format!("on_batch call #{} contains {:?} which no sender sent", k, id));
                continue;
            }
            if !delivered.insert(*id) {
                note(sig_of("duplicate"), format!("{}.{} was handed to the processor twice (second time in call #{})", id.who, id.n, k));
            }
            if let Some(prev) = last_n[id.who as usize] {
                if id.n <= prev {
                    note(sig_of("order:per-sender"), format!("{}.{} was delivered after {}.{}", id.who, id.n, id.who, prev));
                }
            }
            last_n[id.who as usize] = Some(id.n);
        }
    }
    // truncations: what each removed
    let clears: Vec<&(u64, Vec<Id>)> = got.iter().flat_map(|g| g.2.iter()).chain(orphans.iter()).collect();
    let mut cleared: HashSet<Id> = HashSet::new();
    for (st, items) in clears.iter().map(|c| (c.0, &c.1)) {
        if items.len() as u64 != cap {
            note(sig_of("truncation-of-non-full-queue"), format!("the truncation at stamp {} removed {} items from a queue of capacity {}", st, items.len(), cap));
        }
        let mut per: BTreeMap<u8, Vec<u32>> = BTreeMap::new();
        for id in items {
            if !cleared.insert(*id) {
                note(sig_of("truncated-twice"), format!("{}.{} was removed by two truncations", id.who, id.n));
            }
            if delivered.contains(id) {
                note(sig_of("truncated-and-delivered"), format!("{}.{} was removed by a truncation and also delivered", id.who, id.n));
            }
            per.entry(id.who).or_default().push(id.n);
        }
        for (who, ns) in per {
            // every send is accepted, so a run contiguous in the sender's order is a run of consecutive numbers
            if ns.windows(2).any(|w| w[1] != w[0] + 1) {
                note(sig_of("truncation-not-a-whole-queue-run"), format!("a truncation removed items {:?} of sender {}: not contiguous in its order", ns, who));
            }
        }
    }
    let lost = sent - delivered.len() as u64;
    let numbers = json!({"sent": sent, "delivered": delivered.len(), "lost": lost, "queue_full_truncated": counted, "capacity": cap,
        "queue_length_after_receiver_exit": pending, "truncation_events_seen_by_the_queue_objects": clears.len(),
        "items_removed_by_them": cleared.len(), "on_batch_calls": got.len()});
    let detail = |extra: Json| {
        let mut c = case.clone();
        c["observed"] = numbers.clone();
        if !extra.is_null() {
            c["witness"] = extra;
        }
        c
    };
    if let Some((sig, what)) = first_problem {
        r.violation(&sig, &what, detail(Json::Null));
    }
    if oversized > 0 {
        r.violation(&sig_of("batch-larger-than-capacity"), &format!("{} batch(es) were larger than the capacity {}", oversized, cap), detail(Json::Null));
    }
    if pending != 0 {
        r.violation(&sig_of("pending-after-receiver-exit"), &format!("queue_length is {} after the sender was dropped and the receiver ran to completion", pending), detail(Json::Null));
    }
    // the rule: delivered + truncations x capacity (+ pending = 0) == sent
    if counted == u64::MAX || lost as u128 != counted as u128 * cap as u128 {
        let less = counted != u64::MAX && (lost as u128) > counted as u128 * cap as u128;
        let (sig, what) = if less {
            ("counted-less-than-lost", "fewer truncations were counted than items were lost")
        } else {
            ("counted-more-than-lost", "more truncations were counted than items were lost")
        };
        r.violation(
            &sig_of(sig),
            &format!(
                "{}: {} sender threads x {} plain sends, capacity {}, slow receiver: {} sent, {} delivered, nothing pending, so {} were discarded ({} truncation events removing {} items were seen by the queue objects), but queue_full_truncated = {}",
                what, p.senders, p.per_sender, cap, sent, delivered.len(), lost, clears.len(), cleared.len(), counted
            ),
            detail(Json::Null),
        );
    }
    // which items were lost: exactly those the truncations removed
    if cleared.len() as u64 != lost {
        let mut missing: Vec<Id> = Vec::new();
        for who in 0..p.senders {
            for n in 0..p.per_sender {
                let id = Id { sc: uid, who: who as u8, n: n as u32 };
                if !delivered.contains(&id) && !cleared.contains(&id) {
                    missing.push(id);
                    if missing.len() >= 24 {
                        break;
                    }
                }
            }
        }
        r.violation(
            &sig_of("lost-without-truncation"),
            &format!("{} item(s) were neither delivered nor removed by a truncation (the truncations removed {}, {} are gone), e.g. {:?}", lost as i128 - cleared.len() as i128, cleared.len(), lost, missing.first().map(|i| format!("{}.{}", i.who, i.n))),
            detail(json!({"missing": ids_json(&missing)})),
        );
    }
    // how concurrent was it? truncations whose stamp lies inside the call windows of >= 2 sends
    let mut with_company = 0u64;
    for (st, _) in clears.iter().map(|c| (c.0, &c.1)) {
        let mut inside = 0;
        for w in &windows {
            // first window whose return stamp is after the truncation
            let i = w.partition_point(|x| x.1 < st);
            if i < w.len() && w[i].0 < st {
                inside += 1;
            }
        }
        if inside >= 2 {
            with_company += 1;
        }
    }
    r.observe("stress:slow:rounds", 1);
    r.observe("stress:slow:sends", sent);
    r.observe("stress:slow:delivered", delivered.len() as u64);
    r.observe("stress:slow:on_batch-calls", got.len() as u64);
    r.observe("stress:slow:truncations", clears.len() as u64);
    r.observe("stress:slow:truncations-while-two-or-more-sends-were-in-flight", with_company);
    r.nontrivial(&("stress-slow", p.cap, p.senders, p.flavour, with_company.min(3), (got.len() as u64).min(3)));
    if r.wants_sample() && p.round < 3 {
        r.sample(|| json!({"case": case, "observed": numbers, "truncations_while_two_or_more_sends_in_flight": with_company}));
    }
    StressSeen { sends: sent, truncations: clears.len() as u64, overlapping: with_company }
}
